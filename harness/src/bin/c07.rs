//! C07: flush, compaction and eviction never change table content.
//!
//! Two streams of cases (see docs/C07.md):
//!  * unit  (`dec` / `raw` lines): columns of every codec shape are built through the real `ColumnBuffer`
//!    (compressed as the builder leaves them, and stripped with `lz4_or_pco_decode`), then decoded with the
//!    real FREE function `mem_store::column::decode` (reached as `DataSource::decode`), which is what
//!    `InnerLocustDB::compact` uses.  The Lean driver runs `decode2` (literal mirror) and `decodeQ` (spec).
//!  * history (`hist` lines): on-disk / memory databases, steps {ingest, force_flush, evict_cache, restart};
//!    after every step `SELECT * FROM t` (sorted by the row id column) is compared with the content the Lean
//!    spec computes from the history.
use std::panic::{catch_unwind, AssertUnwindSafe};
use std::sync::Arc;
use vharness::locustdb::verif::bitvec::{BitVec, BitVecMut};
use vharness::locustdb::verif::engine::EncodingType;
use vharness::locustdb::verif::mem_store::codec::CodecOp;
use vharness::locustdb::verif::mem_store::column::{Column, DataSection, DataSource};
use vharness::locustdb::verif::mem_store::column_buffer::ColumnBuffer;
use vharness::locustdb::LocustDB;
use vharness::*;

// ------------------------------------------------------------------------------------------------
// canonical text of codec ops / sections / decoded data

fn et(t: &EncodingType) -> String {
    match t {
        EncodingType::U8 => "u8".into(),
        EncodingType::U16 => "u16".into(),
        EncodingType::U32 => "u32".into(),
        EncodingType::U64 => "u64".into(),
        EncodingType::I64 => "i64".into(),
        EncodingType::F64 => "f64".into(),
        other => format!("other{:?}", other),
    }
}

fn op_tok(op: &CodecOp) -> String {
    match op {
        CodecOp::Nullable => "N".into(),
        CodecOp::Add(t, v) => format!("A:{}:{}", et(t), v),
        CodecOp::Delta(t) => format!("D:{}", et(t)),
        CodecOp::ToI64(t) => format!("I:{}", et(t)),
        CodecOp::PushDataSection(i) => format!("P:{}", i),
        CodecOp::DictLookup(t) => format!("L:{}", et(t)),
        CodecOp::LZ4(t, n) => format!("Z:{}:{}", et(t), n),
        CodecOp::Pco(t, n, fp) => format!("C:{}:{}:{}", et(t), n, *fp as u8),
        CodecOp::UnpackStrings => "U".into(),
        CodecOp::UnhexpackStrings(up, total) => format!("H:{}:{}", *up as u8, total),
        CodecOp::Unknown => "X".into(),
    }
}

/// class name of a codec: op kinds without lengths / offsets
fn op_sig(op: &CodecOp) -> String {
    match op {
        CodecOp::Nullable => "N".into(),
        CodecOp::Add(t, _) => format!("A{}", et(t)),
        CodecOp::Delta(t) => format!("D{}", et(t)),
        CodecOp::ToI64(t) => format!("I{}", et(t)),
        CodecOp::PushDataSection(i) => format!("P{}", i),
        CodecOp::DictLookup(t) => format!("L{}", et(t)),
        CodecOp::LZ4(t, _) => format!("Z{}", et(t)),
        CodecOp::Pco(t, _, fp) => format!("C{}{}", et(t), if *fp { "fp32" } else { "" }),
        CodecOp::UnpackStrings => "U".into(),
        CodecOp::UnhexpackStrings(up, _) => format!("H{}", *up as u8),
        CodecOp::Unknown => "X".into(),
    }
}

fn sec_tok(s: &DataSection) -> String {
    fn nums<T: std::fmt::Display>(xs: &[T]) -> String { if xs.is_empty() { "[]".into() } else { fmt_list(xs) } }
    match s {
        DataSection::U8(x) => format!("u8:{}", hexb(x)),
        DataSection::Bitvec(x) => format!("bv:{}", hexb(x)),
        DataSection::LZ4 { data, .. } => format!("lz4:{}", hexb(data)),
        DataSection::Pco { data, .. } => format!("pco:{}", hexb(data)),
        DataSection::U16(x) => format!("u16:{}", nums(x)),
        DataSection::U32(x) => format!("u32:{}", nums(x)),
        DataSection::U64(x) => format!("u64:{}", nums(x)),
        DataSection::I64(x) => format!("i64:{}", nums(x)),
        DataSection::F64(x) => format!("f64:{}", if x.is_empty() { "[]".to_string() } else { x.iter().map(|f| format!("{:016x}", f.0.to_bits())).collect::<Vec<_>>().join(",") }),
        DataSection::Null(n) => format!("null:{}", n),
    }
}

/// (typed cells, raw data + null map) of a decoded column, as the compaction loop would read it.
fn decoded_tok(d: &dyn vharness::locustdb::verif::engine::Data) -> (String, String) {
    let t = d.get_type();
    let n = d.len();
    let bytes = |s: &str| format!("x{}", hex::encode(s.as_bytes()));
    match t {
        EncodingType::I64 => { let v = d.cast_ref_i64(); (format!("I64 {}", toks(v, |i| format!("i{}", i))), format!("I64 {} -", toks(v, |i| i.to_string()))) }
        EncodingType::F64 => { let v = d.cast_ref_f64(); (format!("F64 {}", toks(v, |f| format!("f{:016x}", f.0.to_bits()))), format!("F64 {} -", toks(v, |f| format!("{:016x}", f.0.to_bits())))) }
        EncodingType::Str => { let v = d.cast_ref_str(); (format!("Str {}", toks(v, |s| bytes(s))), format!("Str {} -", toks(v, |s| bytes(s)))) }
        EncodingType::Null => (format!("Null {}", toks(&vec![(); n], |_| "_".to_string())), format!("Null {} -", n)),
        EncodingType::NullableI64 => {
            let v = d.cast_ref_i64(); let p = d.cast_ref_null_map();
            let cells: Vec<String> = v.iter().enumerate().map(|(i, x)| if BitVec::is_set(p, i) { format!("i{}", x) } else { "_".into() }).collect();
            (format!("NI64 {}", toks(&cells, |c| c.clone())), format!("NI64 {} {}", toks(v, |i| i.to_string()), hexb(p)))
        }
        EncodingType::NullableF64 => {
            let v = d.cast_ref_f64(); let p = d.cast_ref_null_map();
            let cells: Vec<String> = v.iter().enumerate().map(|(i, x)| if BitVec::is_set(p, i) { format!("f{:016x}", x.0.to_bits()) } else { "_".into() }).collect();
            (format!("NF64 {}", toks(&cells, |c| c.clone())), format!("NF64 {} {}", toks(v, |f| format!("{:016x}", f.0.to_bits())), hexb(p)))
        }
        EncodingType::NullableStr => {
            let v = d.cast_ref_str(); let p = d.cast_ref_null_map();
            let cells: Vec<String> = v.iter().enumerate().map(|(i, x)| if BitVec::is_set(p, i) { bytes(x) } else { "_".into() }).collect();
            (format!("NStr {}", toks(&cells, |c| c.clone())), format!("NStr {} {}", toks(v, |s| bytes(s)), hexb(p)))
        }
        other => (format!("T{:?} {}", other, n), format!("T{:?} {}", other, n)),
    }
}

// ------------------------------------------------------------------------------------------------
// unit stream

/// Push `cells` (single typed + NULLs) into a ColumnBuffer the way INGESTION does (`Buffer::push_typed_cols`): runs of
/// values with `push_*(.., None)`, runs of NULLs with `push_nulls` — so that the column's content is `cells`.
/// (`style` varies how runs of values are chunked.)
fn build_column(cells: &[Cell], style: u64, name: &str) -> Arc<Column> {
    let mut b = ColumnBuffer::default();
    let mut i = 0;
    let n = cells.len();
    let max_run = match style % 3 { 0 => usize::MAX, 1 => 1, _ => 5 };
    while i < n {
        let null = cells[i] == Cell::Null;
        let mut j = i;
        while j < n && (cells[j] == Cell::Null) == null && (null || j - i < max_run) { j += 1; }
        let chunk = &cells[i..j];
        if null { b.push_nulls(chunk.len()); }
        else {
            match &chunk[0] {
                Cell::Int(_) => b.push_ints(chunk.iter().map(|c| if let Cell::Int(i) = c { *i } else { 0 }), None),
                Cell::Float(_) => b.push_floats(chunk.iter().map(|c| ordered_float::OrderedFloat(if let Cell::Float(f) = c { f64::from_bits(*f) } else { 0.0 })), None),
                Cell::Str(_) => { let v: Vec<&str> = chunk.iter().map(|c| if let Cell::Str(s) = c { s.as_str() } else { "" }).collect(); b.push_strings(v.into_iter(), None) }
                Cell::Null => unreachable!(),
            }
        }
        i = j;
    }
    b.finalize(name)
}

fn unit_case(cases: &mut Cases, cells: &[Cell], style: u64, strip: bool, gen_class: &str) {
    let built = catch_unwind(AssertUnwindSafe(|| build_column(cells, style, "c")));
    let mut col = match built {
        Ok(c) => Arc::try_unwrap(c).expect("sole owner"),
        Err(_) => return, // builder panics are C01's business (e.g. delta overflow)
    };
    if strip { col.lz4_or_pco_decode(); }
    let codec = col.codec();
    let ops = codec.ops().to_vec();
    let compressed = matches!(ops.first(), Some(CodecOp::LZ4(..)) | Some(CodecOp::Pco(..)));
    // decompressed section 0 (what the library round trip returns), for the driver's `Lib`
    let orig0 = match ops.first() {
        Some(CodecOp::LZ4(t, _)) => sec_tok(&col.data()[0].lz4_decode(*t, col.len())),
        Some(CodecOp::Pco(t, n, _)) => sec_tok(&col.data()[0].pco_decode(*t, *n)),
        _ => "-".to_string(),
    };
    let ops_tok = toks(&ops, op_tok);
    let secs: Vec<String> = col.data().iter().map(sec_tok).collect();
    let out = catch_unwind(AssertUnwindSafe(|| { let d = DataSource::decode(&col); decoded_tok(&*d) }));
    let (cells_out, raw_out) = match out { Ok(x) => x, Err(_) => ("panic".to_string(), "panic".to_string()) };
    let sig: Vec<String> = ops.iter().map(op_sig).collect();
    let nullable = ops.iter().any(|o| matches!(o, CodecOp::Nullable));
    let class = format!("{}unit:{}:{}:{}", if gen_class.starts_with("corpus:") { format!("{}:", gen_class) } else { String::new() }, if sig.is_empty() { format!("id-{}", col.data().first().map(|s| sec_tok(s).split(':').next().unwrap().to_string()).unwrap_or_default()) } else { sig.join(".") },
        if nullable { "nullable" } else { "dense" }, if compressed { "compressed" } else { "plain" });
    // columns built to have a null map shorter than rows / 8 (or whole leading NULL bytes) are counted apart
    let class = if gen_class.starts_with("tail") || gen_class.starts_with("lead") { format!("{}:shortmap", class) } else { class };
    let line = format!("{} {} {} {} {}", ops_tok, secs.len(), secs.join(" "), orig0, cells_tok(cells));
    cases.push(&class, &format!("dec {}", line), &cells_out, &format!("gen={} n={} style={} strip={}", gen_class, cells.len(), style, strip));
    cases.push(&format!("{}:raw", class), &format!("raw {}", line), &raw_out, "");
}

fn int_cells(v: Vec<i64>) -> Vec<Cell> { v.into_iter().map(Cell::Int).collect() }

fn unit_stream(cases: &mut Cases, rng: &mut Rng, thorough: bool) {
    let lens: &[usize] = if thorough { &[0, 1, 2, 7, 8, 9, 16, 17, 63, 64, 65, 130, 300, 700] } else { &[1, 2, 8, 9, 17, 64, 65, 130, 300] };
    let reps = if thorough { 4 } else { 1 };
    // integers: magnitude classes x monotone? x nulls?
    let mut int_gens: Vec<(String, Box<dyn Fn(&mut Rng, usize) -> Vec<i64>>)> = vec![];
    for c in INT_CLASSES { let c = c.to_string(); int_gens.push((format!("int-{}", c), Box::new(move |r, n| gen_ints(r, n, &c)))); }
    // monotone runs whose deltas land in every width, with and without an offset
    for (name, first, lo, hi) in [("d8", 3i64, 0i64, 200i64), ("d8off", 100_000, 100_000, 100_200), ("d16", 0, 0, 60_000), ("d16off", -70_000, -70_000, -10_000 - 4_465),
                                  ("d32", 5, 0, 4_000_000_000), ("d32off", 1 << 40, 1 << 40, (1 << 40) + 4_000_000_000), ("d64", -(1 << 50), -(1 << 50), 1 << 50)] {
        int_gens.push((format!("int-{}", name), Box::new(move |r, n| {
            let mut x = first; let mut v = vec![];
            for i in 0..n { if i > 0 { x = x.saturating_add(if lo < 0 && hi > 0 && i % 11 == 5 { r.range(lo, -1) } else { r.range(lo.max(1), hi) }); } v.push(x); }
            v
        })));
    }
    // compressible: long constant / low entropy runs
    int_gens.push(("int-runs".into(), Box::new(|r, n| { let a = r.range(-3, 300); let b = r.range(0, 70_000); (0..n).map(|i| if (i / 40) % 2 == 0 { a } else { b }).collect() })));
    int_gens.push(("int-bigruns".into(), Box::new(|r, n| { let a = r.range(i64::MIN + 1, i64::MAX - 1); (0..n).map(|i| if i % 50 == 49 { a } else { 7 }).collect() })));
    for (name, g) in &int_gens {
        for &n in lens {
            for _ in 0..reps {
                let vals = g(rng, n);
                for nulls in [false, true] {
                    let mut cells = int_cells(vals.clone());
                    if nulls { let mut m = gen_null_mask(rng, n); if n > 0 && !m.iter().any(|x| *x) { m[rng.below(n as u64) as usize] = true; } cells = apply_nulls(cells, &m); }
                    let style = rng.below(6);
                    unit_case(cases, &cells, style, false, name);
                    if n >= 64 || rng.chance(1, 3) { unit_case(cases, &cells, style, true, name); }
                }
            }
        }
    }
    // floats
    for class in ["dyadic", "edges", "f32", "nan", "bits"] {
        for &n in lens {
            let vals: Vec<Cell> = gen_floats(rng, n, class).into_iter().map(Cell::f).collect();
            for nulls in [false, true] {
                let mut cells = vals.clone();
                if nulls { let mut m = gen_null_mask(rng, n); if n > 0 { m[rng.below(n as u64) as usize] = true; } cells = apply_nulls(cells, &m); }
                let style = rng.below(6);
                unit_case(cases, &cells, style, false, &format!("float-{}", class));
                if n >= 64 { unit_case(cases, &cells, style, true, &format!("float-{}", class)); }
            }
        }
    }
    // strings
    let mut str_lens: Vec<usize> = lens.to_vec();
    str_lens.push(600); // dictionary with > 255 entries needs > 512 rows
    for class in ["lowcard", "highcard", "hex", "HEX", "long", "pool", "dict16", "shorthex"] {
        for &n in &str_lens {
            if class == "dict16" && n < 600 { continue; }
            let vals: Vec<Cell> = match class {
                "dict16" => (0..n).map(|i| Cell::Str(format!("k{}", (i * 7919) % 280))).collect(),
                "shorthex" => (0..n).map(|i| Cell::Str(format!("{:04x}", (i * 31 + rng.below(3) as usize) % 65536))).collect(),
                _ => gen_strs(rng, n, class).into_iter().map(Cell::Str).collect(),
            };
            for nulls in [false, true] {
                let mut cells = vals.clone();
                if nulls { let mut m = gen_null_mask(rng, n); if n > 0 { m[rng.below(n as u64) as usize] = true; } cells = apply_nulls(cells, &m); }
                let style = rng.below(6);
                unit_case(cases, &cells, style, false, &format!("str-{}", class));
                if n >= 64 { unit_case(cases, &cells, style, true, &format!("str-{}", class)); }
            }
        }
    }
    // (a dictionary with > 65535 entries — u32 indices — needs > 131072 rows; the list-based Lean driver is quadratic in
    // the dictionary / packed size, so that shape is left to the theorems, which are for all index widths)
    // all-NULL column (Column::null) of several lengths
    for &n in lens { unit_case(cases, &vec![Cell::Null; n], rng.below(6), false, "null"); }
    unit_tail_stream(cases);
}

/// Columns whose stored null map is SHORTER than rows / 8 (the rows end in NULL runs that cover whole bytes: `BitVecMut::set`
/// grows the map on demand) or starts with whole NULL bytes (`init_present` of an `Empty` buffer), for every codec family:
/// the free `decode` must hand the map on as it is (`make_nullable`), the raw line compares its bytes.  Deterministic.
fn unit_tail_stream(cases: &mut Cases) {
    let kinds: [(&str, Box<dyn Fn(usize) -> Cell>); 8] = [
        ("u8", Box::new(|i| Cell::Int(1 + (i * 37 % 200) as i64))),
        ("u8off", Box::new(|i| Cell::Int(-1_000_000 - (i * 37 % 200) as i64))),
        ("u16", Box::new(|i| Cell::Int(1 + (i * 7919 % 60_000) as i64))),
        ("mono", Box::new(|i| Cell::Int(1000 + 3 * i as i64))),
        ("float", Box::new(|i| Cell::f(0.5 + i as f64))),
        ("lowcard", Box::new(|i| Cell::Str(["b", "d", "zz"][i % 3].to_string()))),
        ("highcard", Box::new(|i| Cell::Str(format!("row-{}-{}", i, i * 7919 % 1000)))),
        ("hex", Box::new(|i| Cell::Str(format!("{:08x}", (i as u32 + 1).wrapping_mul(0x9E37_79B9))))),
    ];
    for (name, val) in kinds.iter() {
        for &n in &[16usize, 24, 65] {
            for &r in &[8usize, 9, 16] {
                if r >= n { continue; }
                // values (one NULL inside) then `r` NULLs
                let tail: Vec<Cell> = (0..n).map(|i| if i + r >= n || i == 1 { Cell::Null } else { val(i) }).collect();
                unit_case(cases, &tail, (n + r) as u64, false, &format!("tail{}-{}", r, name));
                // `r` NULLs then values
                let lead: Vec<Cell> = (0..n).map(|i| if i < r { Cell::Null } else { val(i) }).collect();
                unit_case(cases, &lead, (n + r + 1) as u64, false, &format!("lead{}-{}", r, name));
            }
        }
    }
}

// ------------------------------------------------------------------------------------------------
// rebuild stream (`reb` lines): the `match decoded.get_type()` of `InnerLocustDB::compact` pushes decoded values into a
// REAL ColumnBuffer exactly as the compaction loop does (`push_*(data, None | Some(null_map))`, `push_nulls`).  The
// buffer's `length` and `present` bitmap are read back from its `Debug` rendering; the cells a finalized column
// would read as follow from them and the pushed data.

#[derive(Clone)]
enum DVal { I(Vec<i64>, Option<Vec<u8>>), F(Vec<u64>, Option<Vec<u8>>), S(Vec<String>, Option<Vec<u8>>), Null(usize) }

fn dval_tok(v: &DVal) -> String {
    let pm = |p: &Option<Vec<u8>>| p.as_ref().map(|b| hexb(b)).unwrap_or("-".into());
    match v {
        DVal::I(d, p) => format!("{}|{}|{}", if p.is_some() { "NI64" } else { "I64" }, toks(d, |x| x.to_string()), pm(p)),
        DVal::F(d, p) => format!("{}|{}|{}", if p.is_some() { "NF64" } else { "F64" }, toks(d, |x| format!("{:016x}", x)), pm(p)),
        DVal::S(d, p) => format!("{}|{}|{}", if p.is_some() { "NStr" } else { "Str" }, toks(d, |x| hexs(x)), pm(p)),
        DVal::Null(n) => format!("Null|{}|-", n),
    }
}

fn parse_debug_buf(dbg: &str) -> (String, usize, Option<Vec<u8>>) {
    let kind = dbg.strip_prefix("ColumnBuffer { buffer: ").map(|r| r.chars().take_while(|c| c.is_alphabetic()).collect::<String>()).unwrap_or_default();
    let tail = &dbg[dbg.rfind(", length: ").expect("length field")..];
    let rest = tail.strip_prefix(", length: ").unwrap();
    let len: usize = rest[..rest.find(',').unwrap()].parse().unwrap();
    let pres = &rest[rest.find("present: ").unwrap() + 9..];
    let present = if pres.starts_with("None") { None } else {
        let inner = &pres[pres.find('[').unwrap() + 1..pres.rfind(']').unwrap()];
        Some(inner.split(',').filter(|x| !x.trim().is_empty()).map(|x| x.trim().parse::<u8>().unwrap()).collect())
    };
    (kind, len, present)
}

fn reb_case(cases: &mut Cases, vals: &[DVal], note: &str) { reb_case_class(cases, vals, "", note) }

/// Push `vals` into a fresh REAL ColumnBuffer the way the compaction loop does.  Returns the canonical cells, the raw
/// (kind, length, bitmap) text and — for the class name — the (length, stored bitmap byte length) of the buffer BEFORE
/// each push (read from the buffer's `Debug` rendering).
fn run_pushes(vals: &[DVal]) -> Option<(String, String, Vec<(usize, Option<usize>)>)> {
    catch_unwind(AssertUnwindSafe(|| {
        let mut b = ColumnBuffer::default();
        let mut data: Vec<Cell> = vec![]; // every value pushed, in order (padding for NULL rows as the code pushes it)
        let mut before: Vec<(usize, Option<usize>)> = vec![];
        for v in vals {
            let (_, len0, p0) = parse_debug_buf(&format!("{:?}", b));
            before.push((len0, p0.map(|p| p.len())));
            match v {
                DVal::I(d, p) => { b.push_ints(d.iter().cloned(), p.as_deref()); data.extend(d.iter().map(|x| Cell::Int(*x))); }
                DVal::F(d, p) => { b.push_floats(d.iter().map(|x| ordered_float::OrderedFloat(f64::from_bits(*x))), p.as_deref()); data.extend(d.iter().map(|x| Cell::Float(*x))); }
                DVal::S(d, p) => { b.push_strings(d.iter().map(|x| x.as_str()), p.as_deref()); data.extend(d.iter().map(|x| Cell::Str(x.clone()))); }
                DVal::Null(n) => { b.push_nulls(*n); data.extend(std::iter::repeat(Cell::Null).take(*n)); }
            }
        }
        let (kind, len, present) = parse_debug_buf(&format!("{:?}", b));
        // cells as `finalize` + read back would give them: NULL where the bitmap is clear, all NULL for `Empty`
        let cells: Vec<Cell> = (0..len).map(|i| {
            if kind == "Empty" { return Cell::Null; }
            let set = match &present { None => true, Some(p) => BitVec::is_set(&p[..], i) };
            if !set { Cell::Null } else { match data.get(i) { Some(Cell::Null) | None => match kind.as_str() { "Int" => Cell::Int(0), "Float" => Cell::Float(0), _ => Cell::Str(String::new()) }, Some(c) => c.clone() } }
        }).collect();
        (format!("{} {}", len, cells_tok(&cells)), format!("{} {} {}", kind, len, present.map(|p| hexb(&p)).unwrap_or("-".into())), before)
    })).ok()
}

fn dval_kind(v: &DVal) -> &'static str {
    match v { DVal::I(_, None) => "I", DVal::I(_, Some(_)) => "NI", DVal::F(_, None) => "F", DVal::F(_, Some(_)) => "NF", DVal::S(_, None) => "S", DVal::S(_, Some(_)) => "NS", DVal::Null(_) => "0" }
}

fn reb_case_class(cases: &mut Cases, vals: &[DVal], class_prefix: &str, note: &str) {
    let (cells_out, raw_out) = match run_pushes(vals) { Some((c, r, _)) => (c, r), None => ("panic".into(), "panic".into()) };
    let kinds: Vec<&str> = vals.iter().map(dval_kind).collect();
    let class = format!("{}reb:{}", if class_prefix.is_empty() { String::new() } else { format!("{}:", class_prefix) }, kinds.join("."));
    let line = format!("{} {}", vals.len(), vals.iter().map(dval_tok).collect::<Vec<_>>().join(" "));
    cases.push(&class, &format!("reb {}", line), &cells_out, note);
    cases.push(&format!("{}:raw", class), &format!("rebraw {}", line), &raw_out, "");
}

fn reb_stream(cases: &mut Cases, rng: &mut Rng, thorough: bool) {
    let reps = if thorough { 600 } else { 120 };
    for r in 0..reps {
        let ty = r % 3;
        let k = 1 + rng.below(4) as usize;
        let mut vals = vec![];
        for _ in 0..k {
            let n = *rng.pick(&[0usize, 1, 2, 7, 8, 9, 15, 16, 17, 31]);
            let shape = rng.below(4); // 0: all NULL (absent column), 1: dense, 2/3: nullable
            if shape == 0 { vals.push(DVal::Null(n)); continue; }
            let present = if shape == 1 { None } else {
                let mask = gen_null_mask(rng, n);
                // the null map as `NullableVec::present` carries it: ceil(n/8) bytes or the builder's shorter/longer vector
                let mut p = vec![0u8; match rng.below(3) { 0 => n / 8, 1 => n.div_ceil(8), _ => n.div_ceil(8) + 1 }];
                for (i, m) in mask.iter().enumerate() { if !*m { BitVecMut::set(&mut p, i); } }
                Some(p)
            };
            vals.push(match ty {
                0 => DVal::I(gen_ints(rng, n, "small"), present),
                1 => DVal::F(gen_floats(rng, n, "dyadic").into_iter().map(|f| f.to_bits()).collect(), present),
                _ => DVal::S(gen_strs(rng, n, "pool"), present),
            });
        }
        reb_case(cases, &vals, "");
    }
}

// ------------------------------------------------------------------------------------------------
// rebuild stream, bounded-exhaustive part (`rebx:` classes).  What decides where `push_present` puts a bit is
//   (accumulated length mod 8) x (how many bytes the stored bitmap is SHORTER than ceil(length / 8): bitmaps are grown on
//   demand by `BitVecMut::set`, so a buffer ending in NULLs that cover whole bytes has fewer bytes than rows / 8; the
//   same after `push_nulls`, and `init_present` of an `Empty` buffer allocates length / 8) x (what the next image is:
//   dense -> `set` every bit, nullable -> copy its map, all-NULL -> nothing) x (the byte length of the supplied map).
// Images are enumerated by shape: length x {dense, all-NULL image, nullable with a null pattern}; values are small
// non-zero numbers / one-letter strings (the placeholder under a NULL is 0 / 0.0 / "" as in a decoded column).

#[derive(Clone)]
struct Shape { len: usize, kind: u8 /* 0 dense, 1 all-NULL image (push_nulls), 2 nullable */, mask: Vec<bool> /* true = NULL */, pname: String }

const REBX_LENS: &[usize] = &[0, 1, 7, 8, 9, 15, 16, 17, 24, 63, 64, 65];

/// null patterns of an image of `n` rows (deduplicated by mask).  level 0: everything; 1: reduced; 2: tiny.
fn mask_patterns(n: usize, level: u8) -> Vec<(String, Vec<bool>)> {
    let mut out: Vec<(String, Vec<bool>)> = vec![];
    let mut seen = std::collections::HashSet::new();
    let mut add = |name: String, m: Vec<bool>| { if seen.insert(m.clone()) { out.push((name, m)); } };
    // trailing NULL runs of every length 0..17: the stored bitmap ends 0, 1 or 2 bytes early
    let trail: Vec<usize> = match level { 0 => (0..=17).collect(), 1 => vec![0, 1, 7, 8, 9, 16, 17], _ => vec![0, 1, 8] };
    for r in trail { if r <= n { add(format!("trail{}", r), (0..n).map(|i| i >= n - r).collect()); } }
    add("allnull".into(), vec![true; n]);
    // leading NULL runs
    let lead: &[usize] = match level { 0 => &[1, 7, 8, 9, 15, 16, 17], 1 => &[1, 8, 9], _ => &[8] };
    for &r in lead { if r < n { add(format!("lead{}", r), (0..n).map(|i| i < r).collect()); } }
    // a single NULL / a single present row at every byte boundary +-1 and at the end
    let mut pos: Vec<usize> = match level { 0 => vec![0, 1, 6, 7, 8, 9, 14, 15, 16, 17, 22, 23, 24, 25, 55, 56, 57, 62, 63, 64], 1 => vec![0, 7, 8, 9], _ => vec![0] };
    if n >= 1 { pos.push(n - 1); }
    if n >= 2 && level == 0 { pos.push(n - 2); }
    for &p in &pos { if p < n { add(format!("null1@{}", p), (0..n).map(|i| i == p).collect()); } }
    if level < 2 { for &p in &pos { if p < n { add(format!("only@{}", p), (0..n).map(|i| i != p).collect()); } } }
    // alternating, and a whole byte of NULLs in the middle
    if n >= 2 && level < 2 { add("alt0".into(), (0..n).map(|i| i % 2 == 0).collect()); add("alt1".into(), (0..n).map(|i| i % 2 == 1).collect()); }
    if n >= 17 && level < 2 { add("hole8".into(), (0..n).map(|i| (8..16).contains(&i)).collect()); }
    out
}

fn shapes_for(n: usize, level: u8) -> Vec<Shape> {
    let mut v = vec![Shape { len: n, kind: 0, mask: vec![false; n], pname: "dense".into() }, Shape { len: n, kind: 1, mask: vec![true; n], pname: "absent".into() }];
    for (name, m) in mask_patterns(n, level) { v.push(Shape { len: n, kind: 2, mask: m, pname: name }); }
    v
}

/// the shape named `pname` at length `n` (a pattern that coincides with an earlier one at this length — `null1@0` = `lead1`,
/// `allnull` of 8 rows = `trail8` — is returned under the earlier name)
fn find_shape(n: usize, pname: &str) -> Shape {
    if pname == "dense" || pname == "absent" { return shapes_for(n, 0).into_iter().find(|s| s.pname == pname).unwrap(); }
    let num = |pre: &str| -> Option<usize> { pname.strip_prefix(pre).and_then(|r| r.parse().ok()) };
    let want: Vec<bool> =
        if let Some(r) = num("trail") { (0..n).map(|i| i + r >= n).collect() }
        else if let Some(r) = num("lead") { (0..n).map(|i| i < r).collect() }
        else if let Some(p) = num("null1@") { (0..n).map(|i| i == p).collect() }
        else if let Some(p) = num("only@") { (0..n).map(|i| i != p).collect() }
        else if pname == "allnull" { vec![true; n] }
        else if pname == "alt0" { (0..n).map(|i| i % 2 == 0).collect() }
        else if pname == "alt1" { (0..n).map(|i| i % 2 == 1).collect() }
        else if pname == "hole8" { (0..n).map(|i| (8..16).contains(&i)).collect() }
        else { panic!("no pattern {}", pname) };
    let name = mask_patterns(n, 0).into_iter().find(|(_, x)| *x == want).map(|(a, _)| a).unwrap_or_else(|| pname.to_string());
    Shape { len: n, kind: 2, mask: want, pname: name }
}

/// the decoded value of an image shape.  `variant` = byte length of the null map as `NullableVec::present` may carry it:
/// 0 grown on demand from an empty vector (what a builder that started empty stores), 1 `vec![0; n / 8]` then grown
/// (`init_present`), 2 zero-padded to ceil(n / 8), 3 one byte more.
fn shape_dval(s: &Shape, ty: u8, variant: u8, salt: usize) -> DVal {
    if s.kind == 1 { return DVal::Null(s.len); }
    let n = s.len;
    let present = if s.kind == 0 { None } else {
        let mut p: Vec<u8> = match variant % 4 { 0 => vec![], 1 => vec![0; n / 8], 2 => vec![0; n.div_ceil(8)], _ => vec![0; n.div_ceil(8) + 1] };
        for (i, m) in s.mask.iter().enumerate() { if !*m { BitVecMut::set(&mut p, i); } }
        Some(p)
    };
    let v = |i: usize| 1 + (i * 7 + salt) % 9;
    let null = |i: usize| s.kind == 2 && s.mask[i];
    match ty % 3 {
        0 => DVal::I((0..n).map(|i| if null(i) { 0 } else { v(i) as i64 }).collect(), present),
        1 => DVal::F((0..n).map(|i| if null(i) { 0f64.to_bits() } else { (v(i) as f64 * 0.5).to_bits() }).collect(), present),
        _ => DVal::S((0..n).map(|i| if null(i) { String::new() } else { ((b'a' + v(i) as u8) as char).to_string() }).collect(), present),
    }
}

fn rebx_case(cases: &mut Cases, shapes: &[&Shape], ty: u8, variant: u8, sub: &str) {
    let vals: Vec<DVal> = shapes.iter().enumerate().map(|(k, s)| shape_dval(s, ty, variant.wrapping_add(k as u8), 3 * k)).collect();
    let (cells_out, raw_out, before) = run_pushes(&vals).unwrap_or(("panic".into(), "panic".into(), vec![]));
    // state of the buffer at every image boundary: aligned?, bytes the stored bitmap is short of ceil(len / 8) (nb: no bitmap yet)
    let bounds: Vec<String> = before.iter().skip(1).map(|(l, bm)| {
        if *l == 0 { return "e".to_string(); }
        format!("{}{}", if l % 8 == 0 { "al" } else { "un" }, match bm { None => "nb".to_string(), Some(b) => format!("{:+}", l.div_ceil(8) as i64 - *b as i64) })
    }).collect();
    let kinds: Vec<&str> = shapes.iter().map(|s| match s.kind { 0 => "D", 1 => "0", _ => "N" }).collect();
    let class = format!("rebx:{}:{}:{}:{}", sub, ["i", "f", "s"][(ty % 3) as usize], kinds.join("."), if bounds.is_empty() { "panic".to_string() } else { bounds.join("/") });
    let note = format!("p={} var={}", shapes.iter().map(|s| format!("{}@{}", s.pname, s.len)).collect::<Vec<_>>().join("|"), variant % 4);
    let line = format!("{} {}", vals.len(), vals.iter().map(dval_tok).collect::<Vec<_>>().join(" "));
    cases.push(&class, &format!("reb {}", line), &cells_out, &note);
    cases.push(&format!("{}:raw", class), &format!("rebraw {}", line), &raw_out, "");
}

fn mix(i: usize) -> usize { ((i as u64).wrapping_mul(0x9E37_79B9_7F4A_7C15) >> 33) as usize }

fn rebx_stream(cases: &mut Cases, thorough: bool, seed: u64) {
    // ---- covering sample (both tiers; deterministic)
    // (a) first image: every length x every trailing NULL run 0..17; next image by a latin square over 12 configurations, so that
    //     every (length, next) and every (run, next) pair occurs
    let next: Vec<Shape> = vec![
        find_shape(8, "dense"), find_shape(8, "null1@0"), find_shape(9, "trail1"), find_shape(8, "allnull"), find_shape(16, "trail0"), find_shape(8, "absent"),
        find_shape(17, "only@7"), find_shape(1, "dense"), find_shape(7, "alt0"), find_shape(9, "absent"), find_shape(24, "lead8"), find_shape(16, "trail8"),
    ];
    let k = next.len();
    for (i, &n) in REBX_LENS.iter().enumerate() {
        for r in 0..=17usize.min(n) {
            let first = find_shape(n, &format!("trail{}", r));
            for (j, c) in [(i + r) % k, (i + r + 5) % k].into_iter().enumerate() {
                rebx_case(cases, &[&first, &next[c]], (i + 2 * r + j) as u8, (i + r + j) as u8, "trail");
            }
        }
    }
    // (b) first image: the other patterns (dense, all-NULL image, leading runs, single NULL / single value at the byte boundaries, alternating)
    for (i, &n) in REBX_LENS.iter().enumerate() {
        for (q, first) in shapes_for(n, 1).iter().enumerate() {
            if first.pname.starts_with("trail") { continue; }
            let c = (i * 5 + q) % k;
            rebx_case(cases, &[first, &next[c]], (i + q) as u8, (i + 3 * q) as u8, "other");
        }
    }
    // (c) three images: the middle one leaves whole bytes of NULLs behind (all-NULL image = `push_nulls`, nullable all NULL, trailing run)
    let a: Vec<Shape> = vec![find_shape(8, "dense"), find_shape(16, "trail8"), find_shape(7, "trail0"), find_shape(8, "absent"), find_shape(16, "null1@8")];
    let b: Vec<Shape> = vec![find_shape(8, "absent"), find_shape(9, "absent"), find_shape(8, "allnull"), find_shape(16, "trail8"), find_shape(16, "allnull"), find_shape(1, "dense"), find_shape(0, "absent"), find_shape(0, "allnull")];
    let c: Vec<Shape> = vec![find_shape(8, "null1@0"), find_shape(8, "dense"), find_shape(9, "trail0"), find_shape(8, "allnull"), find_shape(8, "absent")];
    let mut idx = 0usize;
    for x in &a { for y in &b { for z in &c { rebx_case(cases, &[x, y, z], (idx % 3) as u8, (idx / 3) as u8, "three"); idx += 1; } } }
    if !thorough { return; }

    // ---- thorough: the full product of two images (first: every shape of every length; second: every shape of the lengths up
    // to 24, the reduced set for 63..65), and of three images over the tiny sets.  The three seeds of a thorough check each
    // take a third (slice = seed / 1000 mod 3); value type and map-length variant rotate with a hash of the index.
    let slice = ((seed / 1000) % 3) as usize;
    let first: Vec<Shape> = REBX_LENS.iter().flat_map(|&n| shapes_for(n, 0)).collect();
    let second: Vec<Shape> = REBX_LENS.iter().flat_map(|&n| shapes_for(n, if n <= 24 { 0 } else { 1 })).collect();
    let mut idx = 0usize;
    let mut taken = 0usize;
    for x in &first { for y in &second {
        if idx % 3 == slice { let h = mix(idx); rebx_case(cases, &[x, y], (h % 3) as u8, ((h / 3) % 4) as u8, "pair"); taken += 1; }
        idx += 1;
    } }
    eprintln!("rebx: {} first shapes x {} second shapes = {} pairs, slice {} -> {} cases", first.len(), second.len(), idx, slice, taken);
    let t1: Vec<Shape> = [7usize, 8, 9, 16].iter().flat_map(|&n| shapes_for(n, 2)).collect();
    let t2: Vec<Shape> = [0usize, 1, 8, 9, 16].iter().flat_map(|&n| shapes_for(n, 2)).collect();
    let t3: Vec<Shape> = [1usize, 8, 9].iter().flat_map(|&n| shapes_for(n, 2)).collect();
    let mut idx = 0usize;
    for x in &t1 { for y in &t2 { for z in &t3 {
        if idx % 3 == slice { let h = mix(idx); rebx_case(cases, &[x, y, z], (h % 3) as u8, ((h / 3) % 4) as u8, "triple"); }
        idx += 1;
    } } }
    eprintln!("rebx: {} x {} x {} = {} triples", t1.len(), t2.len(), t3.len(), idx);
}

// ------------------------------------------------------------------------------------------------
// history stream

use std::sync::Mutex;
static OBS: Mutex<Vec<String>> = Mutex::new(Vec::new());

#[derive(Clone, Copy, PartialEq, Debug)]
enum ColKind { Id, U8, U8N, Off, OffN, Big, BigN, MonoN, Flt, FltN, SLow, SLowN, SHigh, SHighN, Hex, HexN, AllNull, Late, Sparse, Const, ConstN, LeadNull,
    /// `tail` profile (batch sizes that are multiples of 8): the column's rows END in a run of NULLs that covers whole bytes of the
    /// null map and START with a value (second row NULL, so the column is nullable in every partition)
    Ti8, Ti9, Ti16, Tf8, Ts8, Tsh8, TiAlt, TiAll }

impl ColKind {
    fn name(&self) -> &'static str {
        match self { ColKind::Id => "id", ColKind::U8 => "u8", ColKind::U8N => "u8n", ColKind::Off => "off", ColKind::OffN => "offn", ColKind::Big => "big", ColKind::BigN => "bign",
            ColKind::MonoN => "monon", ColKind::Flt => "flt", ColKind::FltN => "fltn", ColKind::SLow => "slow", ColKind::SLowN => "slown", ColKind::SHigh => "shigh", ColKind::SHighN => "shighn",
            ColKind::Hex => "hex", ColKind::HexN => "hexn", ColKind::AllNull => "allnull", ColKind::Late => "late", ColKind::Sparse => "sparse", ColKind::Const => "const", ColKind::ConstN => "constn", ColKind::LeadNull => "leadnull",
            ColKind::Ti8 => "ti8", ColKind::Ti9 => "ti9", ColKind::Ti16 => "ti16", ColKind::Tf8 => "tf8", ColKind::Ts8 => "ts8", ColKind::Tsh8 => "tsh8", ColKind::TiAlt => "tialt", ColKind::TiAll => "tiall" }
    }
    /// cells of rows [r0, r0+n) of batch number `b`; `None` = the batch does not mention the column
    fn cells(&self, rng: &mut Rng, r0: usize, n: usize, b: usize) -> Option<Vec<Cell>> {
        let nullify = |rng: &mut Rng, v: Vec<Cell>| -> Vec<Cell> { let mut m = gen_null_mask(rng, v.len()); if !m.is_empty() && rng.chance(2, 3) { let i = rng.below(m.len() as u64) as usize; m[i] = true; } apply_nulls(v, &m) };
        Some(match self {
            ColKind::Id => (r0..r0 + n).map(|i| Cell::Int(i as i64)).collect(),
            ColKind::U8 => gen_ints(rng, n, "u8").into_iter().map(Cell::Int).collect(),
            ColKind::U8N => { let v = gen_ints(rng, n, "u8").into_iter().map(Cell::Int).collect(); nullify(rng, v) }
            ColKind::Off => (0..n).map(|_| Cell::Int(1_000_000 + rng.range(0, 200))).collect(),
            ColKind::OffN => { let v = (0..n).map(|_| Cell::Int(-5_000_000 + rng.range(0, 60_000))).collect(); nullify(rng, v) }
            ColKind::Big => gen_ints(rng, n, "i64").into_iter().map(Cell::Int).collect(),
            ColKind::BigN => { let v = gen_ints(rng, n, "i64").into_iter().map(Cell::Int).collect(); nullify(rng, v) }
            ColKind::MonoN => { let v = (r0..r0 + n).map(|i| Cell::Int(1000 + 3 * i as i64)).collect(); nullify(rng, v) }
            ColKind::Flt => gen_floats(rng, n, "edges").into_iter().map(Cell::f).collect(),
            ColKind::FltN => { let v = gen_floats(rng, n, "dyadic").into_iter().map(Cell::f).collect(); nullify(rng, v) }
            ColKind::SLow => gen_strs(rng, n, "lowcard").into_iter().map(Cell::Str).collect(),
            ColKind::SLowN => { let v = gen_strs(rng, n, "lowcard").into_iter().map(Cell::Str).collect(); nullify(rng, v) }
            ColKind::SHigh => (r0..r0 + n).map(|i| Cell::Str(format!("row-{}-{}", i, rng.below(1000)))).collect(),
            ColKind::SHighN => { let v = (r0..r0 + n).map(|i| Cell::Str(format!("r{}ü{}", i, rng.below(10)))).collect(); nullify(rng, v) }
            ColKind::Hex => gen_strs(rng, n, "hex").into_iter().map(Cell::Str).collect(),
            ColKind::HexN => { let v = gen_strs(rng, n, "HEX").into_iter().map(Cell::Str).collect(); nullify(rng, v) }
            ColKind::AllNull => if rng.chance(1, 2) { return None } else { vec![Cell::Null; n] },
            ColKind::Late => if b < 2 { return None } else { let v = gen_ints(rng, n, "u16").into_iter().map(Cell::Int).collect(); nullify(rng, v) },
            ColKind::Sparse => if rng.chance(1, 2) { return None } else { gen_strs(rng, n, "lowcard").into_iter().map(Cell::Str).collect() },
            ColKind::Const => vec![Cell::Int(7); n],
            ColKind::ConstN => { let v = vec![Cell::Int(300); n]; nullify(rng, v) }
            ColKind::LeadNull => if b == 0 { vec![Cell::Null; n] } else { let v = gen_ints(rng, n, "small").into_iter().map(Cell::Int).collect(); nullify(rng, v) },
            ColKind::Ti8 => tail_cells(n, b, 8, |i| Cell::Int(1 + ((r0 + i) % 200) as i64)),
            ColKind::Ti9 => tail_cells(n, b, 9, |i| Cell::Int(-1_000_000 - ((r0 + i) % 50_000) as i64)),
            ColKind::Ti16 => tail_cells(n, b, 16, |i| Cell::Int(1000 + 3 * (r0 + i) as i64)),
            ColKind::Tf8 => tail_cells(n, b, 8, |i| Cell::f(0.5 + (r0 + i) as f64)),
            ColKind::Ts8 => tail_cells(n, b, 8, |i| Cell::Str(["b", "d", "zz"][(r0 + i) % 3].to_string())),
            ColKind::Tsh8 => tail_cells(n, b, 8, |i| Cell::Str(format!("row-{}-{}", r0 + i, (r0 + i) * 7919 % 1000))),
            // every other batch dense: a dense image is appended behind the short bitmap (`set` for every row)
            ColKind::TiAlt => if b % 2 == 1 { (0..n).map(|i| Cell::Int(1 + ((r0 + i) % 200) as i64)).collect() } else { tail_cells(n, b, 8, |i| Cell::Int(1 + ((r0 + i) % 200) as i64)) },
            // every other batch entirely NULL (`Column::null` -> `push_nulls`), nullable in between
            ColKind::TiAll => tail_cells(n, b, n, |i| Cell::Int(7 + ((r0 + i) % 100) as i64)),
        })
    }
}

/// `n` rows: values (the second one NULL) followed by `r` NULLs.  When the run would swallow the whole batch (`r >= n`) the
/// batches alternate instead: even batches all NULL, odd batches values with the second row NULL.
fn tail_cells<F: Fn(usize) -> Cell>(n: usize, b: usize, r: usize, val: F) -> Vec<Cell> {
    let r = if r >= n { if b % 2 == 0 { n } else { 0 } } else { r };
    (0..n).map(|i| if i + r >= n || (i == 1 && n - r >= 2) { Cell::Null } else { val(i) }).collect()
}

/// columns of the `tail` ladders (not part of the random history profiles: their batch sizes are not multiples of 8)
const TAIL_PROFILE: (&str, &[ColKind]) = ("tail", &[ColKind::Id, ColKind::Ti8, ColKind::Ti9, ColKind::Ti16, ColKind::Tf8, ColKind::Ts8, ColKind::Tsh8, ColKind::TiAlt, ColKind::TiAll, ColKind::U8N, ColKind::SLowN]);

const PROFILES: &[(&str, &[ColKind])] = &[
    ("dense", &[ColKind::Id, ColKind::U8, ColKind::Off, ColKind::Big, ColKind::Flt, ColKind::SLow, ColKind::SHigh, ColKind::Const]),
    ("absent", &[ColKind::Id, ColKind::AllNull, ColKind::Late, ColKind::Sparse, ColKind::LeadNull, ColKind::U8]),
    ("nullable-int", &[ColKind::Id, ColKind::U8N, ColKind::OffN, ColKind::BigN, ColKind::MonoN, ColKind::ConstN]),
    ("nullable-other", &[ColKind::Id, ColKind::FltN, ColKind::SLowN, ColKind::SHighN]),
    ("hex", &[ColKind::Id, ColKind::Hex, ColKind::HexN]),
    ("all", &[ColKind::Id, ColKind::U8N, ColKind::Big, ColKind::MonoN, ColKind::FltN, ColKind::SLowN, ColKind::SHigh, ColKind::AllNull, ColKind::Late, ColKind::Sparse]),
];

fn select_all(db: &Arc<LocustDB>, table: &str, deadline: u64) -> String {
    let sql = if table.chars().all(|c| c.is_ascii_lowercase()) { format!("SELECT * FROM {}", table) } else { format!("SELECT * FROM \"{}\"", table) };
    match query_full(db, &sql, true, deadline) {
        QOut::Ok { colnames, rows: Some(rows), .. } => format!("cols:{} rows:{}", toks(&colnames, |c| c.clone()), rows_tok(&rows)),
        other => other.tok(),
    }
}

/// compaction inputs recorded by the sync point since the last call, per table (table names here contain no `:`):
/// per column (sorted by name) the (section type ~ codec signature) of every merged partition, in merge order
fn take_obs_all() -> std::collections::BTreeMap<String, (usize, String)> {
    let labels: Vec<String> = std::mem::take(&mut *OBS.lock().unwrap());
    let mut per_table: std::collections::BTreeMap<String, std::collections::BTreeMap<String, Vec<String>>> = Default::default();
    for l in labels {
        let parts: Vec<&str> = l.splitn(7, ':').collect(); // compact:input:<table>:<column>:<id>:<type>:<sig>
        if parts.len() < 7 { continue; }
        per_table.entry(parts[2].to_string()).or_default().entry(parts[3].to_string()).or_default().push(format!("{}~{}", parts[5], parts[6].replace(' ', "")));
    }
    per_table.into_iter().map(|(t, per_col)| {
        let k = per_col.values().map(|v| v.len()).max().unwrap_or(0);
        let tok = per_col.iter().map(|(c, v)| format!("{}={}", c, v.join("/"))).collect::<Vec<_>>().join(";");
        (t, (k, tok))
    }).collect()
}

/// Sibling tables: names that differ from each other only in what `sanitize_table_name` removes (letter case, a blank).  They
/// must still be kept apart on disk; their content is compared after every flush / evict / restart of the database.
const SIBS: &[&str] = &["Tw", "t w"];

struct Sib { name: &'static str, hist: Vec<String>, obs_all: Vec<String>, rows: usize }

impl Sib {
    /// a small batch with values that identify the table: `id`, `v` (nullable int), `s` (string)
    fn batch(&mut self, which: usize, nbatch: usize) -> Batch {
        let m = [3usize, 8, 5][nbatch % 3];
        let r0 = self.rows;
        let id: Vec<Cell> = (r0..r0 + m).map(|i| Cell::Int(i as i64)).collect();
        let v: Vec<Cell> = (r0..r0 + m).map(|i| if i % 4 == 1 { Cell::Null } else { Cell::Int(1000 * (which as i64 + 1) + i as i64) }).collect();
        let sv: Vec<Cell> = (r0..r0 + m).map(|i| Cell::Str(format!("{}-{}", ["upper", "blank"][which % 2], i))).collect();
        self.hist.push(format!("I{}@id={};s={};v={}", m, cells_tok(&id), cells_tok(&sv), cells_tok(&v)));
        self.rows += m;
        Batch { table: self.name.to_string(), len: m as u64, cols: vec![("id".into(), ColRep::from_cells(&id, 0)), ("s".into(), ColRep::from_cells(&sv, 0)), ("v".into(), ColRep::from_cells(&v, nbatch as u64))] }
    }
}

/// one database under test: executes steps, records the history line and compares `SELECT *` after every step
struct Hist {
    db: Arc<LocustDB>,
    opts: vharness::locustdb::Options,
    dir: tempfile::TempDir,
    hist: Vec<String>,
    obs_all: Vec<String>,
    rows: usize,
    nbatch: usize,
    class_prefix: String,
    dead: bool,
    sibs: Vec<Sib>,
}

enum Step { Ingest(usize, Vec<(String, Vec<Cell>)>, u64), Flush, Evict { silent: bool }, Restart }

/// generous: the machine may be heavily loaded; a genuine hang (a panic inside the flush pool blocks `force_flush`
/// forever) still ends the case
const DEADLINE_S: u64 = 45;

impl Hist {
    fn open(class_prefix: String, disk: bool, factor: u64, mem_lz4: bool) -> Hist {
        let dir = tempfile::tempdir().unwrap();
        let mut opts = if disk { disk_options(dir.path()) } else { base_options() };
        opts.partition_combine_factor = factor;
        opts.mem_lz4 = mem_lz4;
        let db = Arc::new(LocustDB::new(&opts));
        let _ = take_obs_all();
        Hist { db, opts, dir, hist: vec![], obs_all: vec![], rows: 0, nbatch: 0, class_prefix, dead: false, sibs: vec![] }
    }

    /// also feed and check the sibling tables (databases with a storage directory)
    fn with_siblings(mut self) -> Hist {
        self.sibs = SIBS.iter().map(|n| Sib { name: n, hist: vec![], obs_all: vec![], rows: 0 }).collect();
        self
    }

    fn step(&mut self, cases: &mut Cases, step: Step, stepno: usize) {
        if self.dead { return; }
        let deadline = DEADLINE_S;
        let mut merged = 0usize;
        let mut silent_ok = false;
        let (kind, outcome): (&str, Result<(), String>) = match step {
            Step::Ingest(n, cols, pref) => {
                let tok: Vec<String> = cols.iter().map(|(name, cells)| format!("{}={}", name, cells_tok(cells))).collect();
                let mut p = Rng::new(pref);
                let cols: Vec<(String, ColRep)> = cols.iter().map(|(name, cells)| (name.clone(), ColRep::from_cells(cells, p.next()))).collect();
                self.hist.push(format!("I{}@{}", n, tok.join(";")));
                let nbatch = self.nbatch;
                self.rows += n; self.nbatch += 1;
                let mut batches = vec![Batch { table: "t".into(), len: n as u64, cols }];
                for (w, sib) in self.sibs.iter_mut().enumerate() { batches.push(sib.batch(w, nbatch)); }
                let db2 = self.db.clone();
                ("ingest", match with_deadline(deadline, move || ingest(&db2, &batches)) { None => Err("hang".into()), Some(Err(_)) => Err("panic".into()), Some(Ok(())) => Ok(()) })
            }
            Step::Flush => {
                let db2 = self.db.clone();
                let r = match with_deadline(deadline, move || db2.force_flush()) { None => Err("hang".to_string()), Some(Err(_)) => Err("panic".to_string()), Some(Ok(())) => Ok(()) };
                let mut obs = take_obs_all();
                let (k, tok) = obs.remove("t").unwrap_or((0, String::new()));
                merged = k;
                if k > 0 { self.obs_all.push(tok); }
                self.hist.push(format!("F{}", k));
                for sib in self.sibs.iter_mut() {
                    let (k, tok) = obs.remove(sib.name).unwrap_or((0, String::new()));
                    if k > 0 { sib.obs_all.push(tok); }
                    sib.hist.push(format!("F{}", k));
                }
                ("flush", r)
            }
            Step::Evict { silent } => {
                silent_ok = silent;
                self.hist.push("E".into());
                for sib in self.sibs.iter_mut() { sib.hist.push("E".into()); }
                let db2 = self.db.clone();
                ("evict", match with_deadline(deadline, move || { db2.evict_cache(); }) { None => Err("hang".into()), Some(Err(_)) => Err("panic".into()), Some(Ok(())) => Ok(()) })
            }
            Step::Restart => {
                self.hist.push("R".into());
                for sib in self.sibs.iter_mut() { sib.hist.push("R".into()); }
                let opts2 = self.opts.clone();
                let old = std::mem::replace(&mut self.db, Arc::new(LocustDB::memory_only()));
                ("restart", match with_deadline(deadline, move || { drop(old); std::thread::sleep(std::time::Duration::from_millis(30)); LocustDB::new(&opts2) }) {
                    None => Err("hang".into()), Some(Err(_)) => Err("panic".into()),
                    Some(Ok(newdb)) => { self.db = Arc::new(newdb); Ok(()) }
                })
            }
        };
        if silent_ok && outcome.is_ok() { return; }
        let out = match &outcome { Ok(()) => select_all(&self.db, "t", deadline), Err(e) => e.clone() };
        let class = format!("{}:{}{}", self.class_prefix, kind, if kind == "flush" { format!(":merge{}", merged.min(4)) } else { String::new() });
        let obs = if self.obs_all.is_empty() { "-".to_string() } else { self.obs_all.join("|") };
        cases.push(&class, &format!("hist {} {}", obs, self.hist.join("|")), &out, &format!("step {} rows {}", stepno, self.rows));
        if outcome.is_err() || out == "hang" || out == "panic" {
            // the flush thread (or a worker) is gone: abandon this database
            self.dead = true;
            return;
        }
        // sibling tables: each must still show exactly its own rows after a maintenance step
        if kind != "ingest" {
            for sib in self.sibs.iter() {
                if sib.rows == 0 { continue; }
                let out = select_all(&self.db, sib.name, deadline);
                let obs = if sib.obs_all.is_empty() { "-".to_string() } else { sib.obs_all.join("|") };
                cases.push(&format!("{}:sib:{}", self.class_prefix, kind), &format!("hist {} {}", obs, sib.hist.join("|")), &out, &format!("step {} table {:?} rows {}", stepno, sib.name, sib.rows));
                if out == "hang" || out == "panic" { self.dead = true; }
            }
        }
    }

    fn close(self) {
        if self.dead { std::mem::forget(self.db); std::mem::forget(self.dir); }
    }
}

fn history_db(cases: &mut Cases, rng: &mut Rng, disk: bool, factor: u64, mem_lz4: bool, profile: usize, nsteps: usize, siblings: bool) {
    let (pname, kinds) = PROFILES[profile];
    let cfg = format!("{}:f{}:{}", if disk { "disk" } else { "mem" }, factor, if mem_lz4 { "lz4" } else { "nolz4" });
    let mut h = Hist::open(format!("hist:{}:{}", pname, cfg), disk, factor, mem_lz4);
    if disk && siblings { h = h.with_siblings(); }
    for stepno in 0..nsteps {
        let choice = if h.rows == 0 { 0 } else { rng.below(if disk { 10 } else { 7 }) };
        let step = match choice {
            0..=3 => {
                let n = *rng.pick(&[1usize, 2, 3, 5, 8, 9, 17, 33, 70, 150]);
                let mut cols = vec![];
                for ck in kinds { if let Some(cells) = ck.cells(rng, h.rows, n, h.nbatch) { cols.push((ck.name().to_string(), cells)); } }
                Step::Ingest(n, cols, rng.next())
            }
            4..=6 => Step::Flush,
            7 => Step::Evict { silent: false },
            8 => Step::Evict { silent: true },
            _ => Step::Restart,
        };
        h.step(cases, step, stepno);
        if h.dead { break; }
    }
    h.close();
}

/// Witnesses of the FIXED findings (known_findings.jsonl) as histories: they head every run so that a regression of
/// one of the fixes is reported deterministically.
fn corpus_histories(cases: &mut Cases) {
    let ints = |v: &[Option<i64>]| -> Vec<Cell> { v.iter().map(|x| match x { Some(i) => Cell::Int(*i), None => Cell::Null }).collect() };
    let ids = |r0: usize, n: usize| -> Vec<Cell> { (r0..r0 + n).map(|i| Cell::Int(i as i64)).collect() };
    // DESIGN §8 #10 / compaction-decode-nullmap-dropped: 5 flushes of 4-row batches with a nullable narrow int column,
    // default combine factor: after the compacting flush every NULL used to read 0
    {
        let mut h = Hist::open("corpus:compaction-decode-nullmap-dropped:hist".into(), true, 4, false);
        for b in 0..5 {
            // n: nullable narrow ints ([PushDataSection(1), Nullable, ToI64(U8)]); off: nullable with offset ([.., Nullable, Add]);
            // s: nullable dictionary strings ([PushDataSection(3), Nullable, PushDataSection(1), PushDataSection(2), DictLookup])
            let s: Vec<Cell> = ["b", "", "b", "d", "d", "b", "b", "d"].iter().map(|x| if x.is_empty() { Cell::Null } else { Cell::Str(x.to_string()) }).collect();
            h.step(cases, Step::Ingest(8, vec![("id".into(), ids(8 * b, 8)),
                ("n".into(), ints(&[Some(1), None, Some(30), None, None, Some(7), None, None])),
                ("off".into(), ints(&[Some(-1_000_001), None, Some(-1_000_030), None, None, Some(-1_000_007), Some(-1_000_100), None])),
                ("s".into(), s)], 7), 2 * b);
            h.step(cases, Step::Flush, 2 * b + 1);
        }
        h.step(cases, Step::Restart, 10);
        h.close();
    }
    // compaction-builder-nullmap-dropped: monotone nullable column (codec [Delta, PushDataSection(1), Nullable]): the free
    // decode returned the null map, `push_present` dropped it
    {
        let mut h = Hist::open("corpus:compaction-builder-nullmap-dropped:hist".into(), true, 4, false);
        for b in 0..5 {
            let c0: Vec<Option<i64>> = (1..=12).map(|i| if i == 10 { None } else { Some(i + 12 * b as i64) }).collect();
            h.step(cases, Step::Ingest(12, vec![("id".into(), ids(12 * b, 12)), ("c0".into(), ints(&c0))], 3), 2 * b);
            h.step(cases, Step::Flush, 2 * b + 1);
        }
        h.close();
    }
    // DESIGN §8 #11 / compaction-hexpacked-todo: a hex-packed string column, every flush compacts: force_flush used to hang
    {
        let mut h = Hist::open("corpus:compaction-hexpacked-todo:hist".into(), true, 0, true);
        for b in 0..3 {
            let hexs: Vec<Cell> = (0..8).map(|i| Cell::Str(format!("{:016x}", 0x1234_5678_9abc_def0u64.wrapping_mul(i + 1 + 8 * b as u64)))).collect();
            let mut hexn = hexs.clone(); hexn[3] = Cell::Null;
            h.step(cases, Step::Ingest(8, vec![("id".into(), ids(8 * b, 8)), ("hex".into(), hexs), ("hexn".into(), hexn)], 1), 2 * b);
            h.step(cases, Step::Flush, 2 * b + 1);
        }
        h.step(cases, Step::Evict { silent: false }, 6);
        h.close();
    }
    // compaction-decode-lz4-narrow-type / compaction-decode-unpack-section0: lz4-compressed u16 ints and lz4-compressed packed
    // strings kept compressed in memory (mem_lz4), every flush compacts
    {
        let mut h = Hist::open("corpus:compaction-decode-lz4:hist".into(), true, 0, true);
        for b in 0..2 {
            let runs: Vec<Cell> = (0..130).map(|i| Cell::Int(if (i / 40) % 2 == 0 { 219 } else { 5000 })).collect();
            let strs: Vec<Cell> = (0..130).map(|i| Cell::Str(format!("{}-{}", "q".repeat(1 + i % 40), i + 130 * b))).collect();
            let mut strn = strs.clone(); strn[7] = Cell::Null;
            h.step(cases, Step::Ingest(130, vec![("id".into(), ids(130 * b, 130)), ("runs".into(), runs), ("strs".into(), strs), ("strn".into(), strn)], 1), 2 * b);
            h.step(cases, Step::Flush, 2 * b + 1);
        }
        h.close();
    }
}

/// Witnesses of the fixed findings as single column images (unit stream).
fn corpus_units(cases: &mut Cases) {
    // compaction-decode-nullmap-dropped: [PushDataSection(1), Nullable, ToI64(U8)] / [.., Add] / nullable dictionary
    unit_case(cases, &[Cell::Int(5), Cell::Null, Cell::Int(7)], 0, false, "corpus:compaction-decode-nullmap-dropped");
    // (a NULL slot stores 0, so negative values are needed for an offset codec)
    unit_case(cases, &[Cell::Int(-1003), Cell::Null, Cell::Int(-1001), Cell::Int(-1090)], 0, false, "corpus:compaction-decode-nullmap-dropped");
    unit_case(cases, &[Cell::Int(-7), Cell::Null, Cell::Int(-1), Cell::Int(-90)], 0, false, "corpus:compaction-decode-nullmap-dropped");
    let dict: Vec<Cell> = ["b", "", "b", "d", "d", "b", "b", "d"].iter().map(|x| if x.is_empty() { Cell::Null } else { Cell::Str(x.to_string()) }).collect();
    unit_case(cases, &dict, 0, false, "corpus:compaction-decode-nullmap-dropped");
    // compaction-hexpacked-todo: 8 distinct 16-char lower-case hex strings
    let hexs: Vec<Cell> = (0..8u64).map(|i| Cell::Str(format!("{:016x}", 0x0123_4567_89ab_cdefu64.wrapping_mul(i + 3)))).collect();
    unit_case(cases, &hexs, 0, false, "corpus:compaction-hexpacked-todo");
    let mut hexn = hexs.clone(); hexn[2] = Cell::Null;
    unit_case(cases, &hexn, 0, false, "corpus:compaction-hexpacked-todo");
    // compaction-decode-lz4-narrow-type: 130 rows alternating 219 / 5000 in runs of 40 -> [LZ4(U16, 130), ToI64(U16)]
    let runs: Vec<Cell> = (0..130).map(|i| Cell::Int(if (i / 40) % 2 == 0 { 219 } else { 5000 })).collect();
    unit_case(cases, &runs, 0, false, "corpus:compaction-decode-lz4-narrow-type");
    let runs32: Vec<Cell> = (0..130).map(|i| Cell::Int(if (i / 40) % 2 == 0 { 219 } else { 500_000 })).collect();
    unit_case(cases, &runs32, 0, false, "corpus:compaction-decode-lz4-narrow-type");
    // compaction-decode-unpack-section0: high-cardinality compressible strings -> [LZ4(U8, n), UnpackStrings]
    let strs: Vec<Cell> = (0..130).map(|i| Cell::Str(format!("{}-{}", "q".repeat(1 + i % 40), i))).collect();
    unit_case(cases, &strs, 0, false, "corpus:compaction-decode-unpack-section0");
    let mut strn = strs.clone(); strn[9] = Cell::Null;
    unit_case(cases, &strn, 0, false, "corpus:compaction-decode-unpack-section0");
    // compaction-builder-nullmap-dropped: dense value, then a nullable value while the buffer has no bitmap
    reb_case_class(cases, &[DVal::I(vec![1, 2, 3], None), DVal::I(vec![0, 5], Some(vec![2])), DVal::Null(2), DVal::I(vec![9], Some(vec![1]))], "corpus:compaction-builder-nullmap-dropped", "");
    reb_case_class(cases, &[DVal::S(vec!["".into(), "x".into()], Some(vec![2]))], "corpus:compaction-builder-nullmap-dropped", "");
}

fn history_stream(cases: &mut Cases, rng: &mut Rng, thorough: bool) {
    let rounds = if thorough { 6 } else { 1 };
    for round in 0..rounds {
        for profile in 0..PROFILES.len() {
            for (i, factor) in [0u64, 1, 4, 999].iter().enumerate() {
                // three of four databases have a storage directory (the property's domain); the fourth is memory-only
                // (steps ingest / flush only)
                let disk = (profile + i + round) % 4 != 3;
                let mem_lz4 = (profile + i + round) % 2 == 0;
                let nsteps = if thorough { 16 } else { 11 };
                // every second database with a storage directory also carries the sibling tables
                history_db(cases, rng, disk, *factor, mem_lz4, profile, nsteps, (profile + i) % 2 == 0);
            }
        }
    }
}

/// equal-sized batches, a flush after each: with combine factor f the planner merges f+1 partitions at once (then the
/// merged one with later ones), so that compactions of 3, 4, 5 partitions occur in every profile
fn ladder_db(cases: &mut Cases, rng: &mut Rng, factor: u64, mem_lz4: bool, profile: usize, nflush: usize) {
    let (pname, kinds) = PROFILES[profile];
    let cfg = format!("disk:f{}:{}", factor, if mem_lz4 { "lz4" } else { "nolz4" });
    let mut h = Hist::open(format!("hist:{}:{}:ladder", pname, cfg), true, factor, mem_lz4).with_siblings();
    let n = *rng.pick(&[8usize, 9, 17]);
    for b in 0..nflush {
        let mut cols = vec![];
        for ck in kinds { if let Some(cells) = ck.cells(rng, h.rows, n, h.nbatch) { cols.push((ck.name().to_string(), cells)); } }
        h.step(cases, Step::Ingest(n, cols, rng.next()), 2 * b);
        h.step(cases, Step::Flush, 2 * b + 1);
        if h.dead { break; }
    }
    h.step(cases, Step::Evict { silent: false }, 2 * nflush);
    h.step(cases, Step::Restart, 2 * nflush + 1);
    h.step(cases, Step::Flush, 2 * nflush + 2);
    h.close();
}

fn ladder_stream(cases: &mut Cases, rng: &mut Rng, thorough: bool) {
    for profile in 0..PROFILES.len() {
        for (i, factor) in [2u64, 3, 4].iter().enumerate() {
            if !thorough && (profile + i) % 3 == 2 { continue; } // quick: two of the three factors per profile
            ladder_db(cases, rng, *factor, (profile + i) % 2 == 1, profile, if thorough { 9 } else { 6 });
        }
    }
}

/// `tail` ladders: batches of 8 / 16 / 24 / 64 rows (every partition boundary is a multiple of 8) whose nullable columns END in
/// NULL runs that cover whole bytes of the null map and START with a value, a flush after every batch, under every combine
/// factor: whichever partitions the planner merges, `push_present` appends a null map at an aligned length behind a bitmap
/// that is shorter than length / 8.  `SELECT *` before / after every flush, then evict, restart, flush.
fn tail_ladder_db(cases: &mut Cases, rng: &mut Rng, factor: u64, mem_lz4: bool, n: usize, nflush: usize) {
    let (pname, kinds) = TAIL_PROFILE;
    let cfg = format!("disk:f{}:{}", factor, if mem_lz4 { "lz4" } else { "nolz4" });
    let mut h = Hist::open(format!("hist:{}:{}:ladder{}", pname, cfg, n), true, factor, mem_lz4).with_siblings();
    for b in 0..nflush {
        let mut cols = vec![];
        for ck in kinds { if let Some(cells) = ck.cells(rng, h.rows, n, h.nbatch) { cols.push((ck.name().to_string(), cells)); } }
        h.step(cases, Step::Ingest(n, cols, rng.next()), 2 * b);
        h.step(cases, Step::Flush, 2 * b + 1);
        if h.dead { break; }
    }
    h.step(cases, Step::Evict { silent: false }, 2 * nflush);
    h.step(cases, Step::Restart, 2 * nflush + 1);
    h.step(cases, Step::Flush, 2 * nflush + 2);
    h.close();
}

fn tail_ladder_stream(cases: &mut Cases, rng: &mut Rng, thorough: bool) {
    let sizes = [8usize, 16, 24, 64];
    let factors = [0u64, 1, 2, 3, 4];
    for (i, &n) in sizes.iter().enumerate() {
        for (j, &f) in factors.iter().enumerate() {
            // quick: 7 of the 20 size x factor combinations (every size under one of the all-merging factors 0 / 1 — sizes 8, 24
            // under 0, sizes 16, 64 under 1 — and factors 2 / 3 / 4 under sizes 24 / 16 / 8); thorough: the whole grid, with and
            // without mem_lz4
            let quick_pick = if f <= 1 { (i % 2) as u64 == f } else { (i + j) % 4 == 0 };
            if !thorough && !quick_pick { continue; }
            // factor f merges once f + 1 equal partitions exist (then the merged one with later ones)
            let nflush = (f as usize + 2).max(4);
            let lz4 = (i + j / 2) % 2 == 1;
            tail_ladder_db(cases, rng, f, lz4, n, nflush);
            if thorough { tail_ladder_db(cases, rng, f, !lz4, n, nflush + 2); }
        }
    }
}

fn install_obs() {
    vharness::locustdb::verif::set_sync_callback(Some(Box::new(|label: &str| {
        if label.starts_with("compact:input:") { OBS.lock().unwrap().push(label.to_string()); }
    })));
}

fn main() {
    let args = parse_args();
    if std::env::var("C07_LOUD").is_err() { quiet_panics(); }
    let mut rng = Rng::new(args.seed);
    let mut cases = Cases::create(&args.out);
    let only = args.rest.first().cloned().unwrap_or_default();
    install_obs();
    // past failures first
    if only.is_empty() || only == "corpus" || only == "unit" { corpus_units(&mut cases); }
    if only.is_empty() || only == "corpus" || only == "hist" { corpus_histories(&mut cases); }
    if only.is_empty() || only == "unit" { unit_stream(&mut cases, &mut rng, args.thorough()); }
    if only.is_empty() || only == "reb" { reb_stream(&mut cases, &mut rng, args.thorough()); }
    if only.is_empty() || only == "reb" || only == "rebx" { rebx_stream(&mut cases, args.thorough(), args.seed); }
    if only.is_empty() || only == "hist" { history_stream(&mut cases, &mut rng, args.thorough()); }
    if only.is_empty() || only == "hist" || only == "ladder" { ladder_stream(&mut cases, &mut rng, args.thorough()); }
    if only.is_empty() || only == "hist" || only == "ladder" || only == "tail" { tail_ladder_stream(&mut cases, &mut rng, args.thorough()); }
    vharness::locustdb::verif::set_sync_callback(None);
    cases.finish();
    // leaked databases may still have threads blocked in a dead flush: leave without joining them
    std::process::exit(0);
}
