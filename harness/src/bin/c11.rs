//! C11: every call completes; a failing request does not damage the database.
//!
//! Scenarios = sequences of requests against one database with N worker threads (memory-only or with a storage
//! directory).  Every call runs under a deadline.  After every request the harness measures
//!   * the number of live worker threads (N+1 custom tasks that park on a gate are scheduled through
//!     `LocustDB::schedule`; the number that start concurrently is the number of workers),
//!   * a canary query on an untouched table, and
//!   * a canary `force_flush` (the flush thread answers only if it is alive).
//! Job bodies that fail are produced in three ways: SQL the engine answers with an error *value*; faults injected
//! deterministically through the `verif::sync_point` callback (`cols:enter:<table>` on a worker inside
//! `QueryTask::run`, `flush:batch:after:<table>` / `flush:compact:swap:before:<table>` inside the flush pool jobs,
//! `flush:persist:after` on the flush thread itself) or through a custom task that panics; and the queries of
//! DESIGN §8 that are known to panic on a worker (whatever still panics is observed through the panic hook).
//!
//! Model line grammar (consumed by lean/LocustModel/Drv/C11.lean):
//!   seq n=<N> hist=<req,req,…|[]> req=<req> obs=<out>|<workers>|<flush>|<canary>
//!   par n=<N> hist=<…> reqs=<req,req,…> obs=<out,out,…>|<workers>|<flush>|<canary>
//!   locks <file>:<fn> <field,field,…> <held>acquired[@callee],…|[]>
//!   gate max=<max_wal_size_bytes> size=<accounted bytes before the call> add=<accounted bytes of the call> obs=<out>|<accounted bytes after>
//!   stress n=<N> readers=<k> rounds=<r> queries=<q> obs=<worst out>|<workers>|<flush>|<canary>
//!   open k=<wal files> bad=<corrupted wal files> out=<ok|panic|hang>      LocustDB::new on an existing directory
//! <req> = q.<outs>          query task, one body outcome per partition, each d|e|f (done / error value / fault)
//!       | qp.<outs>.<fin>.<kind>   failing query built so that the failure arises in a chosen phase: outcome of run() per partition,
//!                           outcome of the last stage of push_result (final merge / final pass / output), kind of the error value
//!       | qv.<kind>         query answered with an error value of that kind (wherever it is produced)
//!       | qn.<p>.<m>.<c>    query of the natural-panic list over p partitions: m worker panics and c caller panics were observed
//!       | t.<d|f>           custom FnTask whose body returns / panics
//!       | st | mt | in      table_stats / mem_tree / ingest_efficient
//!       | fl.<k1>.<f1>.<k2>.<f2>.<tf>   force_flush: k1 batching jobs of which f1 fault, k2 compaction jobs of which f2 fault,
//!                                       tf = the flush thread's own body faults
//!       | cl.<lock>         fault in the caller while it holds <lock> (wal = wal_size, tab = the table locks of `t`)
//! <out> = ok | err:<kind> | failed (force_flush reports that the flush failed) | panic | hang
use std::sync::atomic::{AtomicUsize, Ordering};
use std::sync::{Arc, Condvar, Mutex};
use std::thread::ThreadId;
use std::time::{Duration, Instant};
use vharness::locustdb::verif::{set_sync_callback, Task};
use vharness::locustdb::{LocustDB, Options};
use vharness::*;

// ------------------------------------------------------------------------------------------------
// Panic bookkeeping: which thread panicked with what (the default hook is silenced).
static PANICS: Mutex<Vec<(ThreadId, String)>> = Mutex::new(Vec::new());

fn install_panic_hook() {
    std::panic::set_hook(Box::new(|info| {
        let msg = if let Some(s) = info.payload().downcast_ref::<&str>() { s.to_string() }
            else if let Some(s) = info.payload().downcast_ref::<String>() { s.clone() } else { "?".to_string() };
        let loc = info.location().map(|l| format!("{}:{}", l.file().rsplit('/').next().unwrap_or(""), l.line())).unwrap_or_default();
        if let Ok(mut p) = PANICS.lock() { p.push((std::thread::current().id(), format!("{} @{}", msg, loc))); }
    }));
}
fn panics_mark() -> usize { PANICS.lock().unwrap().len() }
fn panics_since(mark: usize) -> Vec<(ThreadId, String)> { PANICS.lock().unwrap()[mark..].to_vec() }

// ------------------------------------------------------------------------------------------------
// Fault plan consulted by the sync-point callback.
struct Armed { label: String, skip: usize, times: usize }
static PLAN: Mutex<Vec<Armed>> = Mutex::new(Vec::new());
static TRACE: Mutex<Vec<String>> = Mutex::new(Vec::new());
/// number of `Partition::get_cols` calls on table `t` (one per partition a query task runs over)
static COLS_T: AtomicUsize = AtomicUsize::new(0);
static FIRED: AtomicUsize = AtomicUsize::new(0);
/// where the armed io fault fired during a flush: 0 = not at all (nothing was written: memory-only database, no new
/// partition), 1 = before `flush:persist:after` (persisting the new partitions: flush thread / io pool),
/// 2 = after it (inside a compaction job: `prepare_compact` writes the merged partition on the flush pool)
static IO_FIRED: AtomicUsize = AtomicUsize::new(0);

fn sync_cb(label: &str) {
    if label == "cols:enter:t" { COLS_T.fetch_add(1, Ordering::SeqCst); }
    if !label.starts_with("cols:") && !label.starts_with("load:") {
        let mut t = TRACE.lock().unwrap();
        if t.len() < 10_000 { t.push(label.to_string()); }
    }
    let fire = {
        let mut p = PLAN.lock().unwrap();
        let mut fire = false;
        for a in p.iter_mut() {
            if a.label == label {
                if a.skip > 0 { a.skip -= 1; } else if a.times > 0 { a.times -= 1; fire = true; }
                break;
            }
        }
        fire
    };
    if fire { FIRED.fetch_add(1, Ordering::SeqCst); panic!("verif-injected fault at {}", label); }
}
/// file-system effect callback: a fault armed as `fs:<label>:<file name suffix>` fires inside `FileBlobWriter`
fn fs_cb(label: &str, path: &std::path::Path, _data: &[u8]) {
    let name = path.file_name().map(|n| n.to_string_lossy().to_string()).unwrap_or_default();
    let fire = {
        let mut p = PLAN.lock().unwrap();
        let mut fire = false;
        for a in p.iter_mut() {
            if let Some(rest) = a.label.strip_prefix("fs:") {
                let mut it = rest.splitn(2, ':');
                let (l, suffix) = (it.next().unwrap_or(""), it.next().unwrap_or(""));
                if l == label && name.ends_with(suffix) {
                    if a.skip > 0 { a.skip -= 1; } else if a.times > 0 { a.times -= 1; fire = true; }
                    break;
                }
            }
        }
        fire
    };
    if fire {
        FIRED.fetch_add(1, Ordering::SeqCst);
        let after_persist = TRACE.lock().unwrap().iter().any(|l| l == "flush:persist:after");
        IO_FIRED.store(if after_persist { 2 } else { 1 }, Ordering::SeqCst);
        panic!("verif-injected io fault at {} {}", label, name);
    }
}
fn arm(label: &str, skip: usize, times: usize) { PLAN.lock().unwrap().push(Armed { label: label.to_string(), skip, times }); }
fn disarm_all() { PLAN.lock().unwrap().clear(); }
fn trace_take() -> Vec<String> { std::mem::take(&mut *TRACE.lock().unwrap()) }

// ------------------------------------------------------------------------------------------------
// Worker census.
struct Gate { started: AtomicUsize, finished: AtomicUsize, open: Mutex<bool>, cv: Condvar }
struct BlockTask { gate: Arc<Gate> }
impl Task for BlockTask {
    fn execute(&self) {
        self.gate.started.fetch_add(1, Ordering::SeqCst);
        let g = self.gate.open.lock().unwrap();
        let _ = self.gate.cv.wait_timeout_while(g, Duration::from_secs(120), |open| !*open).unwrap();
        self.gate.finished.fetch_add(1, Ordering::SeqCst);
    }
    fn completed(&self) -> bool { false }
    fn max_parallelism(&self) -> usize { 1 }
}

/// Number of worker threads that pick up work concurrently (at most n + 1 is reported).
fn census(db: &Arc<LocustDB>, n: usize) -> usize {
    let gate = Arc::new(Gate { started: AtomicUsize::new(0), finished: AtomicUsize::new(0), open: Mutex::new(false), cv: Condvar::new() });
    let k = n + 1;
    for _ in 0..k { db.schedule(BlockTask { gate: gate.clone() }); }
    let t0 = Instant::now();
    // wait until n have started (or 10 s: the machine is shared), then a short settle to see whether an (n+1)-th starts
    while gate.started.load(Ordering::SeqCst) < n && t0.elapsed() < Duration::from_millis(10_000) { std::thread::sleep(Duration::from_millis(2)); }
    std::thread::sleep(Duration::from_millis(25));
    let live = gate.started.load(Ordering::SeqCst);
    *gate.open.lock().unwrap() = true;
    gate.cv.notify_all();
    let t1 = Instant::now();
    while gate.finished.load(Ordering::SeqCst) < k && live > 0 && t1.elapsed() < Duration::from_secs(10) { std::thread::sleep(Duration::from_millis(2)); }
    live
}

// ------------------------------------------------------------------------------------------------
// Database under test.
const DEADLINE: u64 = 30;

#[derive(Clone, Debug)]
struct Conf { n: usize, disk: bool, flush_threads: usize, io_threads: usize, cf: u64 }

struct Dut {
    db: Arc<LocustDB>,
    conf: Conf,
    _dir: Option<tempfile::TempDir>,
    /// partitions of table `t` that exist as flushed partitions / whether the open buffer holds rows
    t_parts: usize,
    t_buffered: bool,
    next_id: i64,
}

fn t_batch(start: i64, n: usize) -> Batch {
    Batch { table: "t".into(), len: n as u64, cols: vec![
        ("id".into(), ColRep::I64((start..start + n as i64).collect())),
        ("v".into(), ColRep::I64((0..n as i64).map(|i| (start + i) * 3 % 17).collect())),
        ("s".into(), ColRep::Str((0..n).map(|i| ["b", "d", "f"][i % 3].to_string()).collect())),
        ("n".into(), ColRep::from_cells(&(0..n).map(|i| if i % 3 == 0 { Cell::Int((i % 50) as i64) } else { Cell::Null }).collect::<Vec<_>>(), 0)),
        ("big".into(), ColRep::I64((0..n as i64).map(|i| if i == 0 { i64::MIN } else { i - 1 }).collect())),
        ("x".into(), ColRep::I64((0..n as i64).map(|i| [3, -5, 100, 7][(i % 4) as usize]).collect())),
        ("f".into(), ColRep::Dense((0..n).map(|i| i as f64 * 0.5).collect())),
    ] }
}
fn canary_batch() -> Batch {
    Batch { table: "canary".into(), len: 5, cols: vec![("k".into(), ColRep::I64(vec![10, 20, 30, 40, 50]))] }
}

impl Dut {
    fn open(conf: &Conf) -> Option<Dut> { Dut::open_in(conf, None).ok() }

    /// `existing`: reopen that directory (nothing is ingested); Err(outcome) = `LocustDB::new` panicked or hung
    fn open_in(conf: &Conf, existing: Option<tempfile::TempDir>) -> Result<Dut, String> {
        let fresh = existing.is_none();
        let dir = if existing.is_some() { existing } else if conf.disk { Some(tempfile::tempdir().unwrap()) } else { None };
        let opts = Options {
            threads: conf.n,
            db_path: dir.as_ref().map(|d| d.path().to_path_buf()),
            wal_flush_compaction_threads: conf.flush_threads,
            io_threads: conf.io_threads,
            partition_combine_factor: conf.cf,
            ..base_options()
        };
        let db = match with_deadline(DEADLINE, move || Arc::new(LocustDB::new(&opts))) { None => return Err("hang".into()), Some(Err(_)) => return Err("panic".into()), Some(Ok(db)) => db };
        let mut d = Dut { db, conf: conf.clone(), _dir: dir, t_parts: 0, t_buffered: false, next_id: 0 };
        if fresh {
            let db2 = d.db.clone();
            match with_deadline(DEADLINE, move || ingest(&db2, &[canary_batch()])) { Some(Ok(())) => {}, _ => return Err("hang".into()) }
            if d.ingest_t(8).as_deref() != Some("ok") { return Err("hang".into()); }
        } else { d.next_id = 1000; }
        Ok(d)
    }
    /// stop the database and hand back its directory
    fn close(self) -> Option<tempfile::TempDir> {
        let Dut { db, _dir, .. } = self;
        drop(db);
        std::thread::sleep(Duration::from_millis(150));
        _dir
    }
    fn ingest_t(&mut self, n: usize) -> Option<String> {
        let db = self.db.clone();
        let b = t_batch(self.next_id, n);
        self.next_id += n as i64;
        let r = match with_deadline(DEADLINE, move || ingest(&db, &[b])) { None => "hang", Some(Err(_)) => "panic", Some(Ok(())) => "ok" };
        if r == "ok" { self.t_buffered = true; }
        Some(r.to_string())
    }
    /// `force_flush` under a deadline: ok | failed | panic | hang
    fn flush(&self, secs: u64) -> String {
        let db = self.db.clone();
        match with_deadline(secs, move || db.force_flush()) {
            None => "hang".into(),
            Some(Ok(())) => "ok".into(),
            Some(Err(m)) => if m.contains("flush failed") || m.contains("RecvError") { "failed".into() } else { "panic".into() },
        }
    }
    fn canary(&self) -> String {
        match query_full(&self.db, "SELECT k FROM canary", true, DEADLINE) {
            QOut::Ok { rows: Some(rows), .. } => {
                let mut v: Vec<i64> = rows.iter().filter_map(|r| if let Some(Cell::Int(i)) = r.first() { Some(*i) } else { None }).collect();
                v.sort();
                if v == vec![10, 20, 30, 40, 50] { "ok".into() } else { format!("wrong:{}", v.len()) }
            }
            other => other.tok(),
        }
    }
}

// ------------------------------------------------------------------------------------------------
// Requests.
#[derive(Clone, Debug)]
enum Req {
    /// valid query over `t`; `fault_at`: inject a worker fault at the k-th get_cols call of the request
    Query { sql: String, fault_at: Option<usize> },
    /// query expected to be answered with an error value of `kind`
    ErrQuery { sql: String, kind: &'static str },
    /// DESIGN §8 list: outcome observed
    Natural { sql: String },
    Task { fault: bool },
    Stats,
    MemTree,
    Ingest { rows: usize },
    /// force_flush with injected faults: in the batching job of `t`, in the compaction job of `t`, on the flush thread
    Flush { rows: usize, batch_fault: bool, compact_fault: bool, thread_fault: bool, io_fault: bool },
    /// ingest with a fault injected in the caller under the wal_size lock (validates the poisoning part of the model)
    CallerFaultWal,
    /// failing query whose failure arises in a chosen phase of query execution; builds its own table first
    Phase(Phase),
}

/// A table built so that the statement fails in one phase of `QueryTask` (run(): scan of partition k, merge of two adjacent
/// results of one worker; push_result under the state mutex: final merge across workers, final pass).
#[derive(Clone, Debug)]
struct Phase {
    name: &'static str,
    /// values of column `x`, per partition
    parts: Vec<Vec<i64>>,
    /// the partition in which column `m` holds strings instead of integers
    str_part: Option<usize>,
    /// `{t}` = the table
    sql: &'static str,
    /// model: outcome of run() per partition (d|e) and of the last stage of push_result
    bodies: String,
    fin: char,
    kind: &'static str,
    /// the last partition stays in the open buffer
    last_open: bool,
}

const BIG_A: i64 = 3_100_000_000_000_000_000;  // 2·A fits in an i64, 3·A does not
const BIG_B: i64 = 5_000_000_000_000_000_000;  // 2·B does not fit

/// Every phase, for `np` ≥ 3 partitions; `k` = the partition that fails (scan phases); `n` workers decide what is forced.
fn phases(np: usize, k: usize, n: usize, last_open: bool) -> Vec<Phase> {
    let k = k % np;
    let small: Vec<Vec<i64>> = (0..np).map(|i| vec![i as i64 + 1, 2]).collect();
    let at = |c: char| -> String { (0..np).map(|i| if i == k { c } else { 'd' }).collect() };
    let all_d: String = "d".repeat(np);
    let mut with_max = small.clone();
    with_max[k] = vec![i64::MAX, 1];
    // [B, B, 1, 1 …]: the first merge a single worker does in run() overflows; with several workers the overflow may
    // instead appear in the final merge (both are failing requests; the phase is forced for n = 1)
    let mut run_merge: Vec<Vec<i64>> = (0..np).map(|_| vec![1, 0]).collect();
    run_merge[0] = vec![BIG_B, 0];
    run_merge[1] = vec![BIG_B, 0];
    // [A, A, A, 0 …]: every partition and every pair fits, the total does not: whoever scans what, the overflow can only
    // appear when the third of the three is merged, and a worker merges only two adjacent results of the SAME level in
    // run(), so with three big partitions it is the merge inside push_result
    let mut final_merge: Vec<Vec<i64>> = (0..np).map(|_| vec![0, 0]).collect();
    for p in final_merge.iter_mut().take(3) { *p = vec![BIG_A, 0]; }
    let p = |name, parts: &Vec<Vec<i64>>, str_part, sql, bodies: &String, fin, kind| Phase { name, parts: parts.clone(), str_part, sql, bodies: bodies.clone(), fin, kind, last_open };
    vec![
        p("scan-overflow", &with_max, None, "SELECT SUM(x) FROM {t}", &at('e'), 'd', "overflow"),
        p("scan-expr-overflow", &with_max, None, "SELECT x * 4 FROM {t}", &at('e'), 'd', "overflow"),
        p("scan-type-all", &small, None, "SELECT x + s FROM {t}", &"e".repeat(np), 'd', "type"),
        p("scan-type-one", &small, Some(k), "SELECT m + 1 FROM {t}", &at('e'), 'd', "type"),
        p("scan-fatal-one", &small, Some(k), "SELECT SUM(m) FROM {t}", &at('e'), 'd', "fatal"),
        p(if n == 1 { "merge-run" } else { "merge-run-or-final" }, &run_merge, None, "SELECT SUM(x) FROM {t}", &format!("de{}", "d".repeat(np - 2)), 'd', "overflow"),
        p("merge-final", &final_merge, None, "SELECT SUM(x) FROM {t}", &all_d, 'e', "overflow"),
        p("final-pass-overflow", &small, None, "SELECT SUM(x) * 9223372036854775807 FROM {t}", &all_d, 'e', "overflow"),
        p("final-pass-div0", &small, None, "SELECT SUM(x) / (COUNT(1) - COUNT(1)) FROM {t}", &all_d, 'e', "overflow"),
        p("final-pass-type", &small, None, "SELECT SUM(x) + 'a' FROM {t}", &all_d, 'e', "type"),
        // output conversion: offsets beyond the result and a limit of u64::MAX go through convert_to_output_format's clamping
        p("output-offset", &small, None, "SELECT SUM(x) FROM {t} LIMIT 2 OFFSET 2000", &all_d, 'd', "none"),
    ]
}

struct Outcome { tok: String, out: String, class: String, note: String }

fn run_req(d: &mut Dut, r: &Req) -> Outcome {
    let me_mark = panics_mark();
    trace_take();
    match r {
        Req::Query { sql, fault_at } => {
            COLS_T.store(0, Ordering::SeqCst);
            FIRED.store(0, Ordering::SeqCst);
            if let Some(k) = fault_at { arm("cols:enter:t", *k, 1); }
            let out = query_full(&d.db, sql, true, DEADLINE);
            std::thread::sleep(Duration::from_millis(3));
            disarm_all();
            // one get_cols call per partition the task ran over; the k-th one faulted if the armed fault fired
            let fired = FIRED.load(Ordering::SeqCst) > 0;
            let p = COLS_T.load(Ordering::SeqCst).max(1);
            let at = fault_at.unwrap_or(0).min(p - 1);
            let outs: String = (0..p).map(|i| if fired && i == at { 'f' } else { 'd' }).collect();
            let o = match &out { QOut::Ok { .. } => "ok".to_string(), other => other.tok() };
            Outcome { tok: format!("q.{}", outs), out: o, class: format!("query:p{}:{}", p.min(5), if fired { "workerfault" } else { "ok" }), note: format!("{} | {}", sql, out.detail()) }
        }
        Req::ErrQuery { sql, kind } => {
            let out = query_full(&d.db, sql, true, DEADLINE);
            let o = match &out { QOut::Ok { .. } => "ok".to_string(), other => other.tok() };
            // which error kind a statement gets is C12's subject; here the token carries the kind that came back
            let tok = match o.strip_prefix("err:") { Some(k) => format!("qv.{}", k), None => format!("qv.{}", kind) };
            Outcome { tok, out: o, class: format!("errvalue:{}", kind), note: format!("{} | {}", sql, out.detail()) }
        }
        Req::Natural { sql } => {
            COLS_T.store(0, Ordering::SeqCst);
            let db = d.db.clone();
            let sql2 = sql.clone();
            let caller: Arc<Mutex<Option<ThreadId>>> = Arc::new(Mutex::new(None));
            let c2 = caller.clone();
            let res = with_deadline(DEADLINE, move || {
                *c2.lock().unwrap() = Some(std::thread::current().id());
                futures::executor::block_on(db.run_query(&sql2, false, true, vec![]))
            });
            std::thread::sleep(Duration::from_millis(20));
            let caller_id = *caller.lock().unwrap();
            let ps = panics_since(me_mark);
            let c = ps.iter().filter(|(t, _)| Some(*t) == caller_id).count();
            let m = ps.len() - c;
            let o = match res { None => "hang".to_string(), Some(Err(_)) => "panic".to_string(), Some(Ok(Err(e))) => format!("err:{}", err_kind(&e)), Some(Ok(Ok(_))) => "ok".to_string() };
            let p = COLS_T.load(Ordering::SeqCst).max(1).min(9);
            // no panic anywhere: the statement was an ordinary one (valid, or answered with an error value)
            let tok = if c == 0 && m == 0 {
                match o.strip_prefix("err:") { Some(k) => format!("qv.{}", k), None => format!("q.{}", "d".repeat(p)) }
            } else { format!("qn.{}.{}.{}", p, m.min(9), c.min(1)) };
            Outcome { tok, out: o, class: format!("natural:{}", if c > 0 { "callerpanic" } else if m > 0 { "workerpanic" } else { "nopanic" }),
                      note: format!("{} | {}", sql, ps.iter().map(|p| p.1.clone()).collect::<Vec<_>>().join(" ; ")) }
        }
        Req::Task { fault } => {
            let f = *fault;
            let (task, rx) = <dyn Task>::from_fn(move || { if f { panic!("verif-injected fault in FnTask") } 7u32 });
            d.db.schedule(task);
            let o = match with_deadline(DEADLINE, move || futures::executor::block_on(rx)) {
                None => "hang", Some(Err(_)) => "panic", Some(Ok(Ok(_))) => "ok", Some(Ok(Err(_))) => "err:canceled" };
            Outcome { tok: format!("t.{}", if f { 'f' } else { 'd' }), out: o.into(), class: format!("fntask:{}", if f { "fault" } else { "ok" }), note: String::new() }
        }
        Req::Stats => {
            let db = d.db.clone();
            let o = match with_deadline(DEADLINE, move || futures::executor::block_on(db.table_stats())) {
                None => "hang", Some(Err(_)) => "panic", Some(Ok(Ok(_))) => "ok", Some(Ok(Err(_))) => "err:canceled" };
            Outcome { tok: "st".into(), out: o.into(), class: "stats".into(), note: String::new() }
        }
        Req::MemTree => {
            let db = d.db.clone();
            let o = match with_deadline(DEADLINE, move || futures::executor::block_on(db.mem_tree(2, None))) {
                None => "hang", Some(Err(_)) => "panic", Some(Ok(Ok(_))) => "ok", Some(Ok(Err(_))) => "err:canceled" };
            Outcome { tok: "mt".into(), out: o.into(), class: "memtree".into(), note: String::new() }
        }
        Req::Ingest { rows } => {
            let o = d.ingest_t(*rows).unwrap();
            Outcome { tok: "in".into(), out: o, class: "ingest".into(), note: String::new() }
        }
        Req::Flush { rows, batch_fault, compact_fault, thread_fault, io_fault } => {
            if *rows > 0 { let _ = d.ingest_t(*rows); }
            trace_take();
            FIRED.store(0, Ordering::SeqCst);
            IO_FIRED.store(0, Ordering::SeqCst);
            if *io_fault { arm("fs:store:begin:.part", 0, 1); }
            if *batch_fault { arm("flush:batch:after:t", 0, 1); }
            if *compact_fault { arm("flush:compact:swap:before:t", 0, 1); }
            if *thread_fault { arm("flush:persist:after", 0, 1); }
            let had_rows = d.t_buffered;
            let o = d.flush(DEADLINE);
            disarm_all();
            std::thread::sleep(Duration::from_millis(10));
            let tr = trace_take();
            // jobs of this flush: one batching job per table; compaction jobs as planned
            let k1 = tr.iter().filter(|l| l.starts_with("flush:batch:after:")).count();
            let f1 = if *batch_fault && had_rows { 1 } else { 0 };
            let k2 = tr.iter().filter(|l| l.starts_with("flush:compact:swap:before:")).count();
            // an armed fault only counts where its site was reached: the io fault is armed for the first partition file
            // written, which is a new partition (persist phase) or, when there is none, the merged partition a
            // compaction job writes in `prepare_compact` — then it is one more failing compaction job, not a failure
            // of the flush thread; on a memory-only database nothing is written and it never fires
            let io_at = if *io_fault { IO_FIRED.load(Ordering::SeqCst) } else { 0 };
            let f2 = (if *compact_fault && tr.iter().any(|l| l == "flush:compact:swap:before:t") { 1 } else { 0 }) + (if io_at == 2 { 1 } else { 0 });
            let reached_persist = tr.iter().any(|l| l == "flush:persist:after");
            // a failing partition write (inline on the flush thread, or an io pool job whose missing result the fan-in
            // turns into a panic of the flush thread) is a fault of the flush thread's own work between the two phases
            let io_fired = io_at == 1;
            let tf = if (*thread_fault && reached_persist) || io_fired { 1 } else { 0 };
            if had_rows { d.t_parts += 1; d.t_buffered = false; }
            if k2 > 0 && f2 == 0 && tr.iter().any(|l| l == "flush:compact:swap:after:t") { d.t_parts = 1; }
            Outcome { tok: format!("fl.{}.{}.{}.{}.{}", k1, f1, k2, f2, tf), out: o,
                      class: format!("flush:{}{}{}", if f1 > 0 { "batchfault" } else { "" }, if io_at == 2 { "compactiofault" } else if f2 > 0 { "compactfault" } else { "" }, if io_fired { "iofault" } else if tf > 0 { "threadfault" } else if f1 + f2 == 0 { "ok" } else { "" }),
                      note: format!("trace={}", tr.len()) }
        }
        Req::Phase(ph) => {
            let table = format!("ph{}", d.next_id);
            d.next_id += 1;
            let np = ph.parts.len();
            let mut built = true;
            for (i, xs) in ph.parts.iter().enumerate() {
                let len = xs.len();
                let m = if ph.str_part == Some(i) { ColRep::Str((0..len).map(|j| format!("m{}", j)).collect()) } else { ColRep::I64(xs.iter().map(|x| x % 1000).collect()) };
                let b = Batch { table: table.clone(), len: len as u64, cols: vec![
                    ("x".into(), ColRep::I64(xs.clone())), ("s".into(), ColRep::Str((0..len).map(|j| ["a", "b"][j % 2].to_string()).collect())), ("m".into(), m)] };
                let db = d.db.clone();
                if !matches!(with_deadline(DEADLINE, move || ingest(&db, &[b])), Some(Ok(()))) { built = false; break; }
                if !(ph.last_open && i + 1 == np) && d.flush(DEADLINE) != "ok" { built = false; break; }
            }
            trace_take();
            let out = if built { query_full(&d.db, &ph.sql.replace("{t}", &table), true, DEADLINE) } else { QOut::Hang };
            let o = match &out { QOut::Ok { .. } => "ok".to_string(), other => other.tok() };
            let tok = match (o.as_str(), o.strip_prefix("err:")) {
                (_, Some(kind)) => format!("qp.{}.{}.{}", ph.bodies, ph.fin, kind),
                ("ok", _) => format!("q.{}", "d".repeat(np)),
                _ => format!("qp.{}.{}.{}", ph.bodies, ph.fin, ph.kind),
            };
            Outcome { tok, out: o, class: format!("{}:p{}{}", ph.name, np, if ph.last_open { "+buffer" } else { "" }),
                      note: format!("{} parts={:?} str_part={:?} | {}", ph.sql, ph.parts, ph.str_part, out.detail()) }
        }
        Req::CallerFaultWal => {
            arm("ingest:locked", 0, 1);
            let o = d.ingest_t(2).unwrap();
            disarm_all();
            Outcome { tok: "cl.wal".into(), out: o, class: "callerfault:wal_size".into(), note: String::new() }
        }
    }
}

/// state observed after a request: live workers | canary flush | canary query
fn observe(d: &mut Dut, flush_deadline: u64) -> (usize, String, String) {
    let w = census(&d.db, d.conf.n);
    let had_rows = d.t_buffered;
    let fl = d.flush(flush_deadline);
    if fl == "ok" {
        std::thread::sleep(Duration::from_millis(5));
        let tr = trace_take();
        if had_rows { d.t_parts += 1; d.t_buffered = false; }
        if tr.iter().any(|l| l == "flush:compact:swap:after:t") { d.t_parts = 1; }
    }
    let c = d.canary();
    (w, fl, c)
}

// ------------------------------------------------------------------------------------------------
// Generators.
const OK_SQL: &[&str] = &[
    "SELECT id, v FROM t", "SELECT id FROM t WHERE v > 5", "SELECT COUNT(1) FROM t", "SELECT s, COUNT(1) FROM t",
    "SELECT id FROM t ORDER BY id LIMIT 3", "SELECT SUM(v) FROM t", "SELECT id, s FROM t WHERE s = 'd'", "SELECT MAX(id) FROM t",
];
const ERR_SQL: &[(&str, &str)] = &[
    ("SELEC id FROM t", "parse"), ("SELECT id FROM", "parse"), ("SELECT id FROM t WHERE", "parse"),
    ("SELECT id FROM nosuchtable", "notimpl"),
    ("SELECT id + s FROM t", "type"), ("SELECT SUM(s) FROM t", "type"),
    ("SELECT big * 4 FROM t", "overflow"), ("SELECT big - 9223372036854775807 FROM t", "overflow"),
    ("SELECT id FROM t GROUP BY id", "notimpl"), ("SELECT -id FROM t", "notimpl"),
];
const NATURAL_SQL: &[&str] = &[
    "SELECT id FROM t ORDER BY n LIMIT 3",
    "SELECT id FROM t ORDER BY id LIMIT 0",
    "SELECT id FROM t LIMIT 2 OFFSET 2000",
    "SELECT id FROM t LIMIT 18446744073709551615 OFFSET 1",
    "SELECT big, COUNT(1) FROM t",
    "SELECT id FROM t WHERE x < 9223372036854775807",
    "SELECT AVG(f) FROM t",
    "SELECT big % -1 FROM t",
];

fn conf_tok(c: &Conf) -> String { format!("n{}{}ft{}io{}cf{}", c.n, if c.disk { "disk" } else { "mem" }, c.flush_threads, c.io_threads, c.cf) }

type CaseRow = (String, String, String, String);

/// Run a sequential scenario; one case per request.  Returns the rows and whether a hang was seen.
fn run_seq_once(conf: &Conf, reqs: &[Req], tag: &str, deadline_scale: u64) -> (Vec<CaseRow>, bool) {
    let mut rows = vec![];
    let mut d = match Dut::open(conf) { Some(d) => d, None => { rows.push((format!("{}:open", tag), "open hang".to_string(), "hang".to_string(), conf_tok(conf))); return (rows, true); } };
    let mut hist: Vec<String> = vec![];
    let mut hang = false;
    for r in reqs {
        let o = run_req(&mut d, r);
        let flush_deadline = if matches!(r, Req::CallerFaultWal) || hist.iter().any(|h| h == "cl.wal") { 4 } else { DEADLINE * deadline_scale };
        let (w, fl, c) = observe(&mut d, flush_deadline);
        let line = format!("seq n={} hist={} req={} obs={}|{}|{}|{}", conf.n, toks(&hist, |s| s.clone()), o.tok, o.out, w, fl, c);
        let imp = format!("{} w={} flush={} canary={}", o.out, w, fl, c);
        rows.push((format!("{}:{}", tag, o.class), line, imp, format!("{} | {}", conf_tok(conf), o.note)));
        hist.push(o.tok.clone());
        let injected_poison = hist.iter().any(|h| h == "cl.wal");
        if o.out == "hang" || c == "hang" || w == 0 || (fl == "hang" && !injected_poison) { hang = !injected_poison; break; }
        if fl == "hang" { break; }
    }
    (rows, hang)
}

/// A hang is believed only if it shows again on a fresh database (the machine is shared; deadlines are generous but finite).
fn only(tag: &str) -> bool { std::env::var("C11_ONLY").map(|f| tag.contains(&f)).unwrap_or(true) }

fn run_seq(cases: &mut Cases, conf: &Conf, reqs: &[Req], tag: &str) {
    if !only(tag) { return; }
    let (rows, hang) = run_seq_once(conf, reqs, tag, 1);
    let rows = if hang { eprintln!("[c11] hang seen in {} ({}), re-running with doubled deadlines", tag, conf_tok(conf)); run_seq_once(conf, reqs, tag, 2).0 } else { rows };
    for (class, line, imp, note) in rows { cases.push(&class, &line, &imp, &note); }
}

/// k client threads issue one request each at the same time; then the state is observed.
fn run_par(cases: &mut Cases, conf: &Conf, rounds: &[Vec<Req>], tag: &str) {
    if !only(tag) { return; }
    let mut d = match Dut::open(conf) { Some(d) => d, None => { cases.push(&format!("{}:open", tag), "open hang", "hang", &conf_tok(conf)); return; } };
    // several flushed partitions so that query tasks run on several workers at once
    for _ in 0..3 { let _ = d.ingest_t(6); let _ = d.flush(DEADLINE); }
    let mut hist: Vec<String> = vec![];
    for round in rounds {
        let start = Arc::new(std::sync::Barrier::new(round.len()));
        let mut handles = vec![];
        for r in round.iter().cloned() {
            let db = d.db.clone();
            let start = start.clone();
            handles.push(std::thread::spawn(move || -> (String, String) {
                start.wait();
                match r {
                    Req::Query { sql, .. } => {
                        COLS_T.store(0, Ordering::SeqCst);
                        let out = query_full(&db, &sql, true, DEADLINE);
                        ("q".into(), match &out { QOut::Ok { .. } => "ok".to_string(), other => other.tok() })
                    }
                    Req::ErrQuery { sql, kind } => {
                        let out = query_full(&db, &sql, true, DEADLINE);
                        let o = match &out { QOut::Ok { .. } => "ok".to_string(), other => other.tok() };
                        (match o.strip_prefix("err:") { Some(k) => format!("qv.{}", k), None => format!("qv.{}", kind) }, o)
                    }
                    Req::Task { fault } => {
                        let (task, rx) = <dyn Task>::from_fn(move || { if fault { panic!("verif-injected fault in FnTask") } 7u32 });
                        db.schedule(task);
                        let o = match with_deadline(DEADLINE, move || futures::executor::block_on(rx)) {
                            None => "hang", Some(Err(_)) => "panic", Some(Ok(Ok(_))) => "ok", Some(Ok(Err(_))) => "err:canceled" };
                        (format!("t.{}", if fault { 'f' } else { 'd' }), o.into())
                    }
                    Req::Stats => {
                        let o = match with_deadline(DEADLINE, move || futures::executor::block_on(db.table_stats())) {
                            None => "hang", Some(Err(_)) => "panic", Some(Ok(Ok(_))) => "ok", Some(Ok(Err(_))) => "err:canceled" };
                        ("st".into(), o.into())
                    }
                    _ => {
                        let o = match with_deadline(DEADLINE, move || futures::executor::block_on(db.mem_tree(2, None))) {
                            None => "hang", Some(Err(_)) => "panic", Some(Ok(Ok(_))) => "ok", Some(Ok(Err(_))) => "err:canceled" };
                        ("mt".into(), o.into())
                    }
                }
            }));
        }
        let res: Vec<(String, String)> = handles.into_iter().map(|h| h.join().unwrap_or(("?".into(), "panic".into()))).collect();
        // a valid query over the 3+ partitions: its body outcomes are all `done`
        let toks_: Vec<String> = res.iter().map(|(t, _)| if t == "q" { "q.ddd".to_string() } else { t.clone() }).collect();
        let outs: Vec<String> = res.iter().map(|(_, o)| o.clone()).collect();
        let (w, fl, c) = observe(&mut d, DEADLINE);
        let line = format!("par n={} hist={} reqs={} obs={}|{}|{}|{}", conf.n, toks(&hist, |s| s.clone()), toks_.join(","), outs.join(";"), w, fl, c);
        let imp = format!("{} w={} flush={} canary={}", outs.join(";"), w, fl, c);
        let nf = toks_.iter().filter(|t| *t == "t.f").count();
        cases.push(&format!("{}:k{}:faults{}", tag, round.len(), nf.min(3)), &line, &imp, &conf_tok(conf));
        hist.extend(toks_);
        if outs.iter().any(|o| o == "hang") || fl == "hang" || c == "hang" || w == 0 { break; }
    }
}

// ------------------------------------------------------------------------------------------------
// Damaged files: LocustDB::new on a directory with a corrupted WAL segment must return (it has no error channel: a
// panic in the caller is its way to refuse), and a corrupted partition file must cost the query, not the database.
fn files_under(dir: &std::path::Path, ext: &str, out: &mut Vec<std::path::PathBuf>) {
    if let Ok(rd) = std::fs::read_dir(dir) {
        for e in rd.flatten() {
            let p = e.path();
            if p.is_dir() { files_under(&p, ext, out); } else if p.extension().is_some_and(|x| x == ext) { out.push(p); }
        }
    }
}
fn damage(path: &std::path::Path, how: u64) {
    let mut data = std::fs::read(path).unwrap_or_default();
    match how % 3 {
        0 => { let n = data.len() / 2; data.truncate(n); }
        1 => { if !data.is_empty() { let i = data.len() / 2; data[i] ^= 0x40; } }
        _ => { data = b"not a locustdb file".to_vec(); }
    }
    std::fs::write(path, data).unwrap();
}

fn run_damaged(cases: &mut Cases, rng: &mut Rng, what: &str, io_threads: usize) {
    let conf = Conf { n: 2, disk: true, flush_threads: 1, io_threads, cf: 1_000_000 };
    let tag = format!("damaged:{}:io{}", what, io_threads);
    if !only(&tag) { return; }
    let mut d = match Dut::open(&conf) { Some(d) => d, None => { cases.push(&format!("{}:setup", tag), "open k=0 bad=0 out=hang", "hang", "setup"); return; } };
    if what == "part" { let _ = d.flush(DEADLINE); }
    let _ = d.ingest_t(3);
    let dir = match d.close() { Some(dir) => dir, None => return };
    let mut files = vec![];
    files_under(dir.path(), if what == "part" { "part" } else { "wal" }, &mut files);
    files.sort();
    let nwal = { let mut w = vec![]; files_under(dir.path(), "wal", &mut w); w.len() };
    // the partition files of table `t` only (the canary must stay readable); any WAL segment
    let victims: Vec<_> = files.iter().filter(|p| what == "wal" || p.parent().and_then(|d| d.file_name()).is_some_and(|n| n == "t")).cloned().collect();
    if victims.is_empty() { cases.push(&format!("{}:setup", tag), "open k=0 bad=0 out=hang", "novictim", "setup"); return; }
    let how = rng.next();
    let victim: std::path::PathBuf = rng.pick(&victims[..]).clone();
    damage(&victim, how);
    let bad = if what == "wal" { 1 } else { 0 };
    match Dut::open_in(&conf, Some(dir)) {
        Err(out) => {
            cases.push(&format!("{}:open:{}", tag, out), &format!("open k={} bad={} out={}", nwal, bad, out), &out, &format!("damage {}", how % 3));
        }
        Ok(mut d) => {
            cases.push(&format!("{}:open:ok", tag), &format!("open k={} bad={} out=ok", nwal, bad), "ok", &format!("damage {}", how % 3));
            // the damaged partition costs the queries that touch it, nothing else
            let mut hist: Vec<String> = vec![];
            for sql in ["SELECT id, v FROM t", "SELECT id, v FROM t", "SELECT COUNT(1) FROM t"] {
                let o = run_req(&mut d, &Req::Natural { sql: sql.into() });
                let (w, fl, c) = observe(&mut d, DEADLINE);
                let line = format!("seq n={} hist={} req={} obs={}|{}|{}|{}", conf.n, toks(&hist, |s| s.clone()), o.tok, o.out, w, fl, c);
                cases.push(&format!("{}:{}", tag, o.class), &line, &format!("{} w={} flush={} canary={}", o.out, w, fl, c), &o.note);
                hist.push(o.tok.clone());
                if o.out == "hang" || fl == "hang" || c == "hang" || w == 0 { break; }
            }
        }
    }
}

// ------------------------------------------------------------------------------------------------
// Lock acquisition sites, re-extracted from the source on every run (tie of Conc/LockOrder.lean to the source tree the
// check runs against: $VERIF_REPO, /repo by default).  Per function (a) the lock fields in textual order and (b) the
// held -> acquired pairs: a guard bound by `let g = x.lock().unwrap();` is held until its block ends or `drop(g)`; the
// temporary of `for/match/if/while … x.lock() … {` is held for that block; any other temporary until the end of its
// statement; while something is held a call `self.f(..)` / `Self::f(..)` of a function of the same file contributes
// held -> every lock `f` takes (marked `@f`).  The driver checks every pair against the rank function of the theorems.
fn repo_root() -> String { std::env::var("VERIF_REPO").ok().filter(|s| !s.is_empty()).unwrap_or_else(|| "/repo".to_string()) }

struct Held { field: String, var: String, depth: i32 }

fn strip_comment(raw: &str) -> &str { raw.split("//").next().unwrap_or("") }

fn lock_sites(cases: &mut Cases) {
    let files = ["scheduler/inner_locustdb.rs", "mem_store/table.rs", "mem_store/partition.rs", "scheduler/disk_read_scheduler.rs",
                 "disk_store/storage.rs", "engine/execution/query_task.rs", "scheduler/shared_sender.rs", "mem_store/lru.rs"];
    let root = repo_root();
    for f in files {
        let path = format!("{}/src/{}", root, f);
        let text = match std::fs::read_to_string(&path) { Ok(t) => t, Err(_) => { cases.push("locks:missing", &format!("locks {}:? [] []", f), "missing", &path); continue; } };
        let short = f.rsplit('/').next().unwrap();
        let lines: Vec<&str> = text.lines().collect();
        // pass A: per function the fields in textual order (all occurrences of a name merged for the callee table)
        let mut callee: std::collections::BTreeMap<String, Vec<String>> = Default::default();
        for pass in 0..2 {
            let mut cur = String::new();
            let mut seqs: Vec<(String, Vec<String>, Vec<String>)> = vec![];
            let mut depth: i32 = 0;
            let mut held: Vec<Held> = vec![];
            let mut temps: Vec<String> = vec![];
            for (i, raw) in lines.iter().enumerate() {
                let line = strip_comment(raw);
                if let Some(pos) = line.find("fn ") {
                    let before_ok = pos == 0 || !line.as_bytes()[pos - 1].is_ascii_alphanumeric();
                    let name: String = line[pos + 3..].chars().take_while(|c| c.is_alphanumeric() || *c == '_').collect();
                    if before_ok && !name.is_empty() && cur != name { cur = name; held.clear(); temps.clear(); }
                }
                // drop(guard)
                let mut rest0 = line;
                while let Some(p) = rest0.find("drop(") {
                    let v: String = rest0[p + 5..].chars().take_while(|c| c.is_alphanumeric() || *c == '_').collect();
                    held.retain(|h| h.var != v);
                    rest0 = &rest0[p + 5..];
                }
                let trimmed = line.trim();
                // a block that closes at the head of the line (`} else if … {`) ends before anything else on the line happens
                let lead = line.len() - line.trim_start().len() + trimmed.chars().take_while(|c| *c == '}').count();
                for _ in 0..trimmed.chars().take_while(|c| *c == '}').count() { depth -= 1; held.retain(|h| h.depth <= depth); }
                // calls of functions of this file while something is held
                if pass == 1 && (!held.is_empty() || !temps.is_empty()) {
                    for (name, fields) in callee.iter() {
                        if *name == cur { continue; }
                        if line.contains(&format!("self.{}(", name)) || line.contains(&format!("Self::{}(", name)) {
                            for h in held.iter().map(|h| &h.field).chain(temps.iter()) {
                                for b in fields {
                                    let pr = format!("{}>{}@{}", h, b, name);
                                    if let Some(e) = seqs.last_mut() { if e.0 == cur && !e.2.contains(&pr) { e.2.push(pr); } }
                                }
                            }
                        }
                    }
                }
                let mut rest = line;
                loop {
                    let hit = [".lock()", ".read()", ".write()"].iter().filter_map(|m| rest.find(m).map(|p| (p, m.len()))).min();
                    let (p, mlen) = match hit { Some(h) => h, None => break };
                    // receiver: the identifier before the call (possibly `name()` or `name.0`), on this line or the previous one
                    let mut recv: String = receiver_of(&rest[..p]);
                    if recv.is_empty() {
                        let mut j = i;
                        while j > 0 && recv.is_empty() { j -= 1; recv = receiver_of(strip_comment(lines[j]).trim_end()); if !lines[j].trim().is_empty() { break; } }
                    }
                    let recv = recv.trim_end_matches("_mutex").to_string();
                    if recv != "stdout" && recv != "stdin" && recv != "stderr" {
                        let mut pairs: Vec<String> = vec![];
                        for h in held.iter().map(|h| &h.field).chain(temps.iter()) { pairs.push(format!("{}>{}", h, recv)); }
                        match seqs.last_mut() { Some(e) if e.0 == cur => { e.1.push(recv.clone()); for pr in pairs { if !e.2.contains(&pr) { e.2.push(pr); } } }
                                                _ => seqs.push((cur.clone(), vec![recv.clone()], pairs)) }
                        // how long does this guard live?
                        let after = rest[p + mlen..].trim();
                        let after = if after.is_empty() { lines.get(i + 1).map(|l| strip_comment(l).trim()).unwrap_or("") } else { after };
                        let mut tail = after;
                        loop {
                            if let Some(t) = tail.strip_prefix(".unwrap()") { tail = t; continue; }
                            if let Some(t) = tail.strip_prefix("?") { tail = t; continue; }
                            if tail.starts_with(".expect(") { if let Some(e) = tail.find(')') { tail = &tail[e + 1..]; continue; } }
                            break;
                        }
                        // start of the statement: this line, or an earlier one when the chain was broken over lines
                        let mut st = i;
                        while st > 0 {
                            let prev = strip_comment(lines[st - 1]).trim();
                            if prev.is_empty() || prev.ends_with(';') || prev.ends_with('{') || prev.ends_with('}') || prev.ends_with(',') { break; }
                            st -= 1;
                        }
                        let head = strip_comment(lines[st]).trim();
                        let last = trimmed;
                        if tail == ";" && head.starts_with("let ") {
                            let h2 = head[4..].trim_start();
                            let h2 = h2.strip_prefix("mut ").unwrap_or(h2);
                            let var: String = h2.chars().take_while(|c| c.is_alphanumeric() || *c == '_').collect();
                            held.push(Held { field: recv, var, depth });
                        } else if last.ends_with('{') && ["for ", "match ", "if ", "while "].iter().any(|k| head.starts_with(k) || head.contains(&format!("= {}", k))) {
                            held.push(Held { field: recv, var: String::new(), depth: depth + 1 });
                        } else {
                            temps.push(recv);
                        }
                    }
                    rest = &rest[p + mlen..];
                }
                for c in line.chars().skip(lead) { if c == '{' { depth += 1; } else if c == '}' { depth -= 1; held.retain(|h| h.depth <= depth); } }
                if trimmed.ends_with(';') || trimmed.ends_with('{') || trimmed.ends_with('}') { temps.clear(); }
            }
            if pass == 0 {
                for (name, v, _) in &seqs { let e = callee.entry(name.clone()).or_default(); for x in v { if !e.contains(x) { e.push(x.clone()); } } }
            } else {
                // repeated function names (e.g. `restore` in several impls of one file) stay separate by order of appearance
                for (name, v, pairs) in seqs {
                    let ptok = if pairs.is_empty() { "[]".to_string() } else { pairs.join(",") };
                    cases.push(&format!("locks:{}", short), &format!("locks {}:{} {} {}", short, name, v.join(","), ptok), "OK", "");
                }
            }
        }
    }
}

fn receiver_of(prefix: &str) -> String {
    let t = prefix.trim_end();
    let t = t.strip_suffix("()").unwrap_or(t);
    let t = t.strip_suffix(".0").unwrap_or(t);
    let id: String = t.chars().rev().take_while(|c| c.is_alphanumeric() || *c == '_').collect::<String>().chars().rev().collect();
    id
}

// ------------------------------------------------------------------------------------------------
// The log-size gate of ingestion: on-disk databases whose `max_wal_size_bytes` sits at / next to the accounted size.
// Every ingestion call runs under a deadline; after it the harness waits for the flush thread's next poll and reads the
// accounted size back from the WAL directory (`data.len()` of a segment = file size - 48 header bytes).
const GATE_DEADLINE: u64 = 20;

fn wal_bytes(dir: &std::path::Path) -> u64 {
    let mut f = vec![];
    files_under(dir, "wal", &mut f);
    f.iter().map(|p| std::fs::metadata(p).map(|m| m.len().saturating_sub(48)).unwrap_or(0)).sum()
}
/// one column per batch: the packed size of a segment with several columns depends on the iteration order of a HashMap
fn gate_batch(start: i64, n: usize) -> Batch { Batch { table: "g".into(), len: n as u64, cols: vec![("k".into(), ColRep::I64((start..start + n as i64).map(|i| i * 1_000_003).collect()))] } }
fn gate_batches() -> Vec<Batch> { vec![canary_batch(), gate_batch(0, 60), gate_batch(60, 4), gate_batch(64, 8)] }

/// Accounted size of each call of the gate scenario, measured on a database whose limit is never reached.  Only used as the
/// NOMINAL size of a call whose segment was flushed before it could be measured: a segment's packed size varies by a few
/// bytes from run to run (it contains a timestamp), so no limit is derived from it, and the batches are chosen so that no sum
/// of nominal sizes comes within 20 bytes of a limit of the scenarios.
fn gate_calibrate() -> Option<Vec<u64>> {
    let dir = tempfile::tempdir().unwrap();
    let opts = Options { threads: 1, db_path: Some(dir.path().to_path_buf()), ..base_options() };
    let db = match with_deadline(DEADLINE, move || Arc::new(LocustDB::new(&opts))) { Some(Ok(db)) => db, _ => return None };
    let mut sizes = vec![];
    for b in gate_batches() {
        let before = wal_bytes(dir.path());
        let db2 = db.clone();
        if !matches!(with_deadline(DEADLINE, move || ingest(&db2, &[b])), Some(Ok(()))) { return None; }
        sizes.push(wal_bytes(dir.path()).saturating_sub(before));
    }
    drop(db);
    Some(sizes)
}

#[derive(Clone, Debug)]
enum GateLimit { /// fresh database with this limit
                 Abs(u64),
                 /// `k` calls into a database that is then dropped without a flush; reopened with limit = recovered accounted size + d
                 Recovered(usize, i64) }

fn settle(dir: &std::path::Path, scale: u64) -> u64 {
    // the flush thread polls once a second: wait until the log is gone or two polls have passed
    let t0 = Instant::now();
    let mut after = wal_bytes(dir);
    while after != 0 && t0.elapsed() < Duration::from_millis(2600 * scale) { std::thread::sleep(Duration::from_millis(40)); after = wal_bytes(dir); }
    after
}

/// one scenario; returns the rows and whether a call hung
fn gate_once(n: usize, spec: &GateLimit, label: &str, nominal: &[u64], scale: u64) -> (Vec<CaseRow>, bool) {
    let mut rows: Vec<CaseRow> = vec![];
    let dir = tempfile::tempdir().unwrap();
    let batches = gate_batches();
    let (limit, first) = match spec {
        GateLimit::Abs(l) => (*l, 0),
        GateLimit::Recovered(k, d) => {
            let opts = Options { threads: n, db_path: Some(dir.path().to_path_buf()), ..base_options() };
            let db = match with_deadline(DEADLINE, move || Arc::new(LocustDB::new(&opts))) { Some(Ok(db)) => db, _ => return (rows, false) };
            for b in batches.iter().take(*k).cloned() { let db2 = db.clone(); let _ = with_deadline(DEADLINE, move || ingest(&db2, &[b])); }
            drop(db);
            std::thread::sleep(Duration::from_millis(150));
            ((wal_bytes(dir.path()) as i64 + d).max(0) as u64, *k)
        }
    };
    let opts = Options { threads: n, db_path: Some(dir.path().to_path_buf()), max_wal_size_bytes: limit, ..base_options() };
    let db = match with_deadline(DEADLINE * scale, move || Arc::new(LocustDB::new(&opts))) {
        Some(Ok(db)) => db,
        _ => { rows.push((format!("gate:{}:open", label), "open k=0 bad=0 out=hang".into(), "hang".into(), format!("max_wal_size_bytes={}", limit))); return (rows, true); }
    };
    let mut size = if first > 0 { settle(dir.path(), scale) } else { 0 };
    let mut hang = false;
    let mut hist: Vec<String> = vec![];
    for (i, b) in batches.into_iter().enumerate().skip(first) {
        let db2 = db.clone();
        let out = match with_deadline(GATE_DEADLINE * scale, move || ingest(&db2, &[b])) { None => "hang", Some(Err(_)) => "panic", Some(Ok(())) => "ok" };
        let after = if out == "ok" { settle(dir.path(), scale) } else { wal_bytes(dir.path()) };
        // what the call added: readable while its segment is still there (no flush: after = size + add; the call waited for a
        // flush and its own segment stayed: after = add)
        let add = if out == "ok" && after > size { after - size } else if out == "ok" && after > 0 { after } else { nominal[i] };
        rows.push((format!("gate:{}", label), format!("gate max={} size={} add={} obs={}|{}", limit, size, add, out, after),
                   format!("{} after={}", out, after), format!("n{} call {} limit {}", n, i, label)));
        if out != "ok" { hang = out == "hang"; break; }
        hist.push("in".into());
        size = after;
    }
    if !hang {
        // the usual canaries: a statistics call, then worker count, canary flush, canary query
        let mut d = Dut { db, conf: Conf { n, disk: true, flush_threads: 1, io_threads: 1, cf: 4 }, _dir: Some(dir), t_parts: 0, t_buffered: false, next_id: 100 };
        let o = run_req(&mut d, &Req::Stats);
        let (w, fl, c) = observe(&mut d, DEADLINE * scale);
        rows.push((format!("gate:{}:canaries", label), format!("seq n={} hist={} req={} obs={}|{}|{}|{}", n, toks(&hist, |s| s.clone()), o.tok, o.out, w, fl, c),
                   format!("{} w={} flush={} canary={}", o.out, w, fl, c), format!("limit {}", label)));
        if o.out == "hang" || fl == "hang" || c == "hang" || w == 0 { hang = true; }
    }
    (rows, hang)
}

fn run_gate(cases: &mut Cases, rng: &mut Rng, thorough: bool) {
    if !only("gate") { return; }
    let nominal = match gate_calibrate() { Some(v) => v, None => { cases.push("gate:calibration", "gate max=0 size=0 add=0 obs=hang|0", "hang", ""); return; } };
    let mut limits: Vec<(GateLimit, String)> = vec![(GateLimit::Abs(0), "0".into()), (GateLimit::Abs(1), "1".into())];
    for k in if thorough { vec![1usize, 2, 3] } else { vec![1usize, 2] } {
        for d in [-1i64, 0, 1] { limits.push((GateLimit::Recovered(k, d), format!("after{}{:+}", k, d))); }
    }
    let handles: Vec<_> = limits.into_iter().map(|(l, label)| {
        let n = 1 + rng.below(4) as usize;
        let nominal = nominal.clone();
        std::thread::spawn(move || {
            let (rows, hang) = gate_once(n, &l, &label, &nominal, 1);
            if hang { eprintln!("[c11] hang seen in gate:{} ({:?}), re-running with doubled deadlines", label, l); gate_once(n, &l, &label, &nominal, 2).0 } else { rows }
        })
    }).collect();
    for h in handles {
        if let Ok(rows) = h.join() { for (class, line, imp, note) in rows { cases.push(&class, &line, &imp, &note); } }
    }
}

// ------------------------------------------------------------------------------------------------
// Concurrent stress on ONE table: `readers` clients query it / ask for statistics while one client alternates
// ingest_efficient and force_flush.  A call that has not returned after 2 × DEADLINE is a hang (a deadlock never ends, a slow
// machine does); after the rounds the usual canaries.
fn call_until<T: Send + 'static, F: FnOnce() -> T + Send + 'static>(secs: u64, f: F) -> &'static str {
    match with_deadline(secs, f) { None => "hang", Some(Err(_)) => "panic", Some(Ok(_)) => "ok" }
}

fn run_stress(cases: &mut Cases, n: usize, readers: usize, rounds: usize, rows: usize, cf: u64, tag: &str) {
    if !only(tag) { return; }
    let conf = Conf { n, disk: false, flush_threads: 2, io_threads: 1, cf };
    let mut d = match Dut::open(&conf) { Some(d) => d, None => { cases.push(&format!("{}:open", tag), "open k=0 bad=0 out=hang", "hang", &conf_tok(&conf)); return; } };
    let stop = Arc::new(std::sync::atomic::AtomicBool::new(false));
    let worst: Arc<Mutex<String>> = Arc::new(Mutex::new("ok".into()));
    let queries = Arc::new(AtomicUsize::new(0));
    let note_worst = |w: &Arc<Mutex<String>>, o: &str| { let mut g = w.lock().unwrap(); if *g == "ok" && o != "ok" { *g = o.to_string(); } };
    let mut handles = vec![];
    for r in 0..readers {
        let (db, stop, worst, queries) = (d.db.clone(), stop.clone(), worst.clone(), queries.clone());
        handles.push(std::thread::spawn(move || {
            let mut i = r;
            while !stop.load(Ordering::SeqCst) {
                let o = if i % 3 == 2 {
                    let db = db.clone();
                    match with_deadline(2 * DEADLINE, move || futures::executor::block_on(db.table_stats())) { None => "hang".to_string(), Some(Err(_)) => "panic".into(), Some(Ok(Ok(_))) => "ok".into(), Some(Ok(Err(_))) => "err:canceled".into() }
                } else {
                    match query_full(&db, "SELECT COUNT(1), SUM(v), MAX(id) FROM t", true, 2 * DEADLINE) { QOut::Ok { .. } => "ok".to_string(), other => other.tok() }
                };
                queries.fetch_add(1, Ordering::SeqCst);
                if o != "ok" { let mut g = worst.lock().unwrap(); if *g == "ok" { *g = o.clone(); } }
                if o == "hang" { break; }
                i += 1;
            }
        }));
    }
    let mut done_rounds = 0;
    for _ in 0..rounds {
        let db = d.db.clone();
        let b = t_batch(d.next_id, rows);
        d.next_id += rows as i64;
        let o = call_until(2 * DEADLINE, move || ingest(&db, &[b]));
        if o != "ok" { note_worst(&worst, o); break; }
        let o = d.flush(2 * DEADLINE);
        if o != "ok" { note_worst(&worst, &o); break; }
        if *worst.lock().unwrap() == "hang" { break; }
        done_rounds += 1;
    }
    stop.store(true, Ordering::SeqCst);
    let t0 = Instant::now();
    while handles.iter().any(|h| !h.is_finished()) && t0.elapsed() < Duration::from_secs(2 * DEADLINE + 5) { std::thread::sleep(Duration::from_millis(10)); }
    if handles.iter().any(|h| !h.is_finished()) { note_worst(&worst, "hang"); }
    let out = worst.lock().unwrap().clone();
    d.t_buffered = false;
    let (w, fl, c) = observe(&mut d, DEADLINE);
    let q = queries.load(Ordering::SeqCst);
    cases.push(&format!("{}:n{}:r{}", tag, n, readers), &format!("stress n={} readers={} rounds={} queries={} obs={}|{}|{}|{}", n, readers, rounds, q.min(100_000), out, w, fl, c),
               &format!("{} w={} flush={} canary={}", out, w, fl, c), &format!("{} rounds done {} rows/round {}", conf_tok(&conf), done_rounds, rows));
}

// ------------------------------------------------------------------------------------------------
fn gen_req(rng: &mut Rng, allow_flush_faults: bool) -> Req {
    match rng.below(20) {
        0..=2 => Req::Query { sql: rng.pick(OK_SQL).to_string(), fault_at: None },
        3..=5 => Req::Query { sql: rng.pick(OK_SQL).to_string(), fault_at: Some(rng.below(3) as usize) },
        6..=8 => { let (sql, kind) = *rng.pick(ERR_SQL); Req::ErrQuery { sql: sql.to_string(), kind } }
        9..=10 => Req::Natural { sql: rng.pick(NATURAL_SQL).to_string() },
        11 => Req::Task { fault: false },
        12..=13 => Req::Task { fault: true },
        14 => if rng.chance(1, 2) { Req::Stats } else { Req::MemTree },
        15 => Req::Ingest { rows: 1 + rng.below(6) as usize },
        _ => if allow_flush_faults {
            match rng.below(5) {
                0 => Req::Flush { rows: 3, batch_fault: false, compact_fault: false, thread_fault: false, io_fault: false },
                1 => Req::Flush { rows: 3, batch_fault: true, compact_fault: false, thread_fault: false, io_fault: false },
                2 => Req::Flush { rows: 3, batch_fault: false, compact_fault: true, thread_fault: false, io_fault: false },
                3 => Req::Flush { rows: 3, batch_fault: false, compact_fault: false, thread_fault: true, io_fault: false },
                _ => Req::Flush { rows: if rng.chance(1, 2) { 3 } else { 0 }, batch_fault: false, compact_fault: rng.chance(1, 2), thread_fault: false, io_fault: rng.chance(1, 2) },
            }
        } else { Req::Flush { rows: 2, batch_fault: false, compact_fault: false, thread_fault: false, io_fault: false } },
    }
}

fn gen_conf(rng: &mut Rng) -> Conf {
    Conf { n: 1 + rng.below(4) as usize, disk: rng.chance(1, 3), flush_threads: 1 + rng.below(3) as usize, io_threads: 1 + rng.below(2) as usize,
           cf: *rng.pick(&[0u64, 4, 4, 1_000_000]) }
}

fn main() {
    let args = parse_args();
    install_panic_hook();
    set_sync_callback(Some(Box::new(sync_cb)));
    vharness::locustdb::verif::set_fs_callback(Some(Box::new(fs_cb)));
    let mut rng = Rng::new(args.seed);
    let seed0 = args.seed as usize;
    let mut cases = Cases::create(&args.out);
    let t0 = Instant::now();
    let mem2 = Conf { n: 2, disk: false, flush_threads: 1, io_threads: 1, cf: 4 };
    let q = |f: Option<usize>| Req::Query { sql: OK_SQL[0].into(), fault_at: f };
    let fl = |rows: usize, b: bool, c: bool, t: bool| Req::Flush { rows, batch_fault: b, compact_fault: c, thread_fault: t, io_fault: false };

    if args.rest.first().map(|s| s.as_str()) == Some("probe") {
        let mut reqs: Vec<Req> = NATURAL_SQL.iter().map(|s| Req::Natural { sql: s.to_string() }).collect();
        reqs.insert(0, q(None));
        for r in reqs { run_seq(&mut cases, &Conf { n: 1, ..mem2.clone() }, &[r], "probe"); }
        cases.finish();
        std::process::exit(0);
    }

    lock_sites(&mut cases);
    if args.rest.first().map(|s| s.as_str()) == Some("locks") { cases.finish(); std::process::exit(0); }

    // ---- corpus: the witnesses of DESIGN §8 #13 (fixed by the catch_unwind / fan-in commits) run first on every check
    run_seq(&mut cases, &mem2, &[Req::Task { fault: true }, Req::Task { fault: true }, Req::Task { fault: false }, q(None)], "corpus:two-faults-two-workers");
    run_seq(&mut cases, &mem2, &[Req::Natural { sql: NATURAL_SQL[0].into() }, Req::Natural { sql: NATURAL_SQL[1].into() }, Req::Natural { sql: NATURAL_SQL[2].into() }, q(None)], "corpus:panicking-queries");
    run_seq(&mut cases, &Conf { n: 1, ..mem2.clone() }, &[q(Some(0)), q(None), q(Some(0)), q(None)], "corpus:one-worker");
    for disk in [false, true] {
        let c = Conf { disk, ..mem2.clone() };
        run_seq(&mut cases, &c, &[fl(4, true, false, false), fl(4, false, false, false), q(None)], "corpus:flush-batch-job-fault");
        run_seq(&mut cases, &Conf { cf: 0, ..c.clone() }, &[fl(4, false, true, false), fl(4, false, false, false), q(None)], "corpus:flush-compaction-job-fault");
        run_seq(&mut cases, &c, &[fl(4, false, false, true), fl(4, false, false, false), q(None)], "corpus:flush-thread-fault");
        run_seq(&mut cases, &Conf { flush_threads: 3, io_threads: 2, cf: 0, ..c.clone() }, &[fl(4, true, true, false), fl(4, false, true, false), fl(2, false, false, false)], "corpus:flush-pools");
    }
    for io in [1usize, 2] {
        run_seq(&mut cases, &Conf { disk: true, io_threads: io, ..mem2.clone() },
            &[Req::Flush { rows: 4, batch_fault: false, compact_fault: false, thread_fault: false, io_fault: true }, fl(4, false, false, false), q(None)], "corpus:flush-io-job-fault");
        run_damaged(&mut cases, &mut rng, "wal", io);
        run_damaged(&mut cases, &mut rng, "part", io);
    }
    // the poisoning semantics of the model (fault injected in the caller under wal_size; outside the property: SKIP)
    run_seq(&mut cases, &mem2, &[Req::CallerFaultWal, Req::Ingest { rows: 2 }], "poison");

    // ---- failing requests by the phase of query execution the failure arises in, 1..4 workers, >= 3 partitions
    for n in 1..=4usize {
        let nps: Vec<usize> = if args.thorough() { vec![3, 4, 5, 7] } else { vec![3, 4 + (n + seed0) % 2] };
        for np in nps {
            let c = Conf { n, disk: n == 3, flush_threads: 1, io_threads: 1, cf: 1_000_000 };
            let mut reqs: Vec<Req> = vec![];
            for ph in phases(np, n + seed0, n, (n + seed0) % 2 == 0) { reqs.push(Req::Phase(ph)); }
            // merge-final once more at the end, after all the other failures
            reqs.push(Req::Phase(phases(np, 0, n, false).remove(6)));
            reqs.push(q(None));
            run_seq(&mut cases, &c, &reqs, "phase");
        }
    }

    // ---- the log-size gate of ingestion at and around the accounted size
    run_gate(&mut cases, &mut rng, args.thorough());

    // ---- several clients reading one table while another alternates ingest and force_flush
    if args.thorough() {
        for (n, r) in [(4usize, 6usize), (2, 4), (1, 3), (3, 8)] { run_stress(&mut cases, n, r, 150, 6000, if r % 2 == 0 { 4 } else { 1_000_000 }, "stress"); }
    } else {
        run_stress(&mut cases, 4, 6, 60, 8000, 4, "stress");
        run_stress(&mut cases, 2, 4, 60, 4000, 1_000_000, "stress");
    }

    // ---- every error kind / every natural query once, against one and two workers
    for n in if args.thorough() { vec![1usize, 2] } else { vec![2usize] } {
        let c = Conf { n, ..mem2.clone() };
        let errs: Vec<Req> = ERR_SQL.iter().map(|(s, k)| Req::ErrQuery { sql: s.to_string(), kind: k }).collect();
        run_seq(&mut cases, &c, &errs, "errors");
        for chunk in NATURAL_SQL.chunks(3) {
            let nat: Vec<Req> = chunk.iter().map(|s| Req::Natural { sql: s.to_string() }).collect();
            run_seq(&mut cases, &c, &nat, "natural");
        }
    }

    // ---- bounded-exhaustive: all sequences of length 2 (thorough: 3) over the request alphabet, n = 1..3
    let alphabet: Vec<Req> = vec![q(None), q(Some(0)), Req::ErrQuery { sql: ERR_SQL[0].0.into(), kind: ERR_SQL[0].1 }, Req::Task { fault: true }, Req::Stats,
        Req::Ingest { rows: 2 }, fl(2, true, false, false), fl(2, false, false, true)];
    let exh = |len: usize, ns: &[usize], keep: &dyn Fn(usize, usize) -> bool, cases: &mut Cases| {
        let total = alphabet.len().pow(len as u32);
        for &n in ns {
            for code in 0..total {
                if !keep(code, n) { continue; }
                let mut c = code;
                let mut reqs = vec![];
                for _ in 0..len { reqs.push(alphabet[c % alphabet.len()].clone()); c /= alphabet.len(); }
                run_seq(cases, &Conf { n, ..mem2.clone() }, &reqs, "exh");
            }
        }
    };
    let seed = args.seed as usize;
    if args.thorough() {
        exh(2, &[1, 2, 3], &|_, _| true, &mut cases);                              // all 64 sequences of length 2, n = 1..3
        exh(3, &[2], &|code, _| (code + seed) % 2 == 0, &mut cases);               // half of the 512 sequences of length 3 (the other half with the next seed)
    } else {
        exh(2, &[1, 2, 3], &|code, n| (code + n + seed) % 3 == 0, &mut cases);     // a third of the sequences per n (rotating with n and the seed)
    }

    // ---- random sequences with random configurations
    let nrand = if args.thorough() { 60 } else { 8 };
    for _ in 0..nrand {
        let conf = gen_conf(&mut rng);
        let k = 3 + rng.below(6) as usize;
        let mut reqs: Vec<Req> = (0..k).map(|_| gen_req(&mut rng, true)).collect();
        if rng.chance(1, 3) { reqs.insert(0, fl(3, false, false, false)); reqs.insert(1, Req::Ingest { rows: 5 }); reqs.insert(2, fl(3, false, false, false)); }
        run_seq(&mut cases, &conf, &reqs, "rand");
    }

    // ---- concurrent clients
    let npar = if args.thorough() { 30 } else { 5 };
    for _ in 0..npar {
        let conf = Conf { n: 1 + rng.below(4) as usize, disk: false, flush_threads: 1, io_threads: 1, cf: 1_000_000 };
        let rounds: Vec<Vec<Req>> = (0..3).map(|_| {
            let k = 1 + rng.below(5) as usize;
            (0..k).map(|_| match rng.below(8) {
                0..=2 => Req::Query { sql: rng.pick(OK_SQL).to_string(), fault_at: None },
                3 => { let (sql, kind) = *rng.pick(ERR_SQL); Req::ErrQuery { sql: sql.to_string(), kind } }
                4..=5 => Req::Task { fault: true },
                6 => Req::Task { fault: false },
                _ => if rng.chance(1, 2) { Req::Stats } else { Req::MemTree },
            }).collect()
        }).collect();
        run_par(&mut cases, &conf, &rounds, "par");
    }

    if std::env::var("C11_DEBUG").is_ok() { for (t, m) in PANICS.lock().unwrap().iter() { eprintln!("[panic {:?}] {}", t, m); } }
    let n = cases.n;
    cases.finish();
    eprintln!("[c11] {} cases in {:.1}s", n, t0.elapsed().as_secs_f64());
    std::process::exit(0);
}
