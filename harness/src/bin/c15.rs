//! C15: each column is found in the file it was written to, under any name.
//!
//! Hook level: the real `subpartition`, `PartitionMetadata::subpartition_key` (on a catalogue that went through the
//! real `MetaStore::serialize`/`deserialize`), `partition_filename`, `sanitize_table_name`, `is_filesystem_safe`
//! are enumerated over name sets x size limits x table names and compared with the Lean model (`Disk/Routing.lean`);
//! the `lookup` lines carry the oracle (a name is found exactly if the partition contains it).
//! API level: tables with such columns are written to a temp directory with a tiny `max_partition_size_bytes`,
//! the database is dropped and reopened, every column and some absent names are SELECTed, and the files under
//! `tables/` are compared with the paths the model derives from the catalogue; the keys the catalogue records are
//! compared with the model's `keyOf` (`keys` lines).  Name classes `limit-*` sit on the real limits (64 bytes for a
//! verbatim key; <= 64 characters but up to 256 bytes with 4-byte lower-case letters).
//! Read-state level (`reads`): on the reopened database a random sequence of `SELECT <col>` (stored and absent names,
//! repeated, in any order) and `evict_cache()` calls; per query the answer (stored values / all NULL) and
//! `QueryStats.files_opened` are compared with the Lean read-side machine (`Disk/ReadState.lean`: handles, `empty`
//! markers, `loaded` flags) started on the catalogue and the column lists of the files actually on disk.
use std::collections::{BTreeMap, BTreeSet, HashMap};
use std::path::Path;
use std::sync::Arc;
use vharness::locustdb::verif::mem_store::column_buffer::ColumnBuffer;
use vharness::locustdb::verif::mem_store::Column;
use vharness::locustdb::verif::{
    verif_is_filesystem_safe, verif_metastore_serialize, verif_partition_filename, verif_sanitize_table_name, verif_subpartition, BlobWriter,
    FileBlobWriter, MetaStore, PartitionMetadata, PartitionSegment, VersionedChecksummedBlobWriter,
};
use vharness::locustdb::{LocustDB, Options};
use vharness::*;

/// `n61.62` (dotted hex scalar values; `n` = empty)
fn ntok(s: &str) -> String {
    format!("n{}", s.chars().map(|c| format!("{:x}", c as u32)).collect::<Vec<_>>().join("."))
}
fn ntoks(xs: &[String]) -> String { toks(xs, |s| ntok(s)) }

/// non-ASCII scalars of the given strings that Rust classifies as lowercase && alphanumeric
fn utok(strings: &[&String]) -> String {
    let mut set = BTreeSet::new();
    for s in strings {
        for c in s.chars() {
            if !c.is_ascii() && c.is_alphanumeric() && c.is_lowercase() { set.insert(c as u32); }
        }
    }
    format!("u{}", set.iter().map(|c| format!("{:x}", c)).collect::<Vec<_>>().join("."))
}

/// A column of `n` integers whose width class is chosen by `kind` (sizes differ: 1, 2, 4, 8 bytes per value).
fn make_col(name: &str, n: usize, kind: u64, tag: i64) -> Arc<Column> {
    let mut b = ColumnBuffer::default();
    let vals: Vec<i64> = (0..n as i64).map(|i| match kind % 4 {
        0 => (i * 7 + tag) % 200,
        1 => (i * 977 + tag) % 60000,
        2 => (i * 1_000_003 + tag) % 4_000_000_000,
        _ => (i * 7 + tag) * (1 << 40) * if i % 2 == 0 { 1 } else { -1 },
    }).collect();
    b.push_ints(vals, None);
    b.finalize(name)
}

/// Name classes around the REAL limits: `is_filesystem_safe` admits names of at most 64 BYTES made of lower-case
/// alphanumeric characters (any script) or `_`; a key used verbatim must keep `NNNNN_<key>..INCOMPLETE` (the temporary
/// file of the atomic write, key + 18 bytes) within the 255-byte file-name limit, i.e. key <= 237 bytes.  Names of 60..64
/// lower-case letters of 4 / 3 / 2 bytes have <= 64 characters but 240..256 / 180..192 / 120..128 bytes: they must be hashed.
fn limit_name_sets() -> Vec<(&'static str, Vec<String>)> {
    let d4 = "\u{10428}"; // DESERET SMALL LETTER LONG I, 4 bytes, lower-case
    let e4 = "\u{10429}";
    let d3 = "\u{1e01}";  // LATIN SMALL LETTER A WITH RING BELOW, 3 bytes
    let d2 = "é";
    let r = |s: &str, n: usize| s.repeat(n);
    let mut v4: Vec<String> = (60..=65).map(|n| r(d4, n)).collect();
    v4.push(format!("{}{}", r(d4, 59), e4));
    v4.extend(["a".to_string(), "m".to_string()]);
    let mut v3: Vec<String> = (60..=64).map(|n| r(d3, n)).collect();
    v3.extend([format!("{}a", r(d3, 21)), format!("{}ab", r(d3, 21)), r(d3, 85), "b".to_string()]);
    let mut v2: Vec<String> = (60..=64).map(|n| r(d2, n)).collect();
    v2.extend([r(d2, 32), format!("{}ab", r(d2, 31)), format!("{}a", r(d2, 32)), "c".to_string()]);
    let va: Vec<String> = vec![r("a", 64), r("a", 65), format!("{}b", r("a", 63)), format!("{}_", r("a", 63)), format!("{}_", r("a", 64)), r("b", 237), r("b", 238), "z".to_string()];
    let vm: Vec<String> = vec![r(d4, 16), format!("{}a", r(d4, 16)), format!("{}abcd", r(d4, 60)), format!("{}{}abcd", r(d3, 10), r(d2, 10)),
        format!("{}{}{}abcd", r(d4, 20), r(d3, 20), r(d2, 20)), format!("A{}", r(d4, 59)), format!("{}{}", r("ω", 30), r(d4, 34)), "q".to_string()];
    vec![("limit-4byte", v4), ("limit-3byte", v3), ("limit-2byte", v2), ("limit-ascii", va), ("limit-mixed", vm)]
}

fn name_sets(rng: &mut Rng, thorough: bool) -> Vec<(&'static str, Vec<String>)> {
    let long64 = "a".repeat(64);
    let long65 = "a".repeat(65);
    let long200 = format!("{}z", "b".repeat(199));
    let e32 = "é".repeat(32); // 64 bytes
    let e33 = "é".repeat(33); // 66 bytes
    let s = |v: &[&str]| v.iter().map(|x| x.to_string()).collect::<Vec<String>>();
    let mut sets: Vec<(&'static str, Vec<String>)> = vec![
        ("empty-set", vec![]),
        ("one", s(&["a"])),
        ("ascii", s(&["alpha", "beta", "gamma", "delta", "epsilon", "zeta"])),
        ("underscore", s(&["a_b", "a", "_", "__x", "z_"])),
        ("digits", s(&["col1", "col2", "col10", "c", "1", "0a"])),
        ("case-pairs", s(&["a", "A", "b", "B", "ab", "Ab", "aB", "AB"])),
        ("case-pairs2", s(&["Name", "name", "NAME", "nAME", "z"])),
        ("non-ascii", s(&["é", "e", "f", "ß", "日本", "zz", "😀", "Ω", "ω", "ª"])),
        ("utf8-order", s(&["\u{7f}", "\u{80}", "\u{7ff}", "\u{800}", "\u{ffff}", "\u{10000}", "\u{10ffff}", "\u{e000}", "\u{d7ff}"])),
        ("long", vec![long64.clone(), long65.clone(), long200.clone(), "a".into(), "b".into()]),
        ("long-nonascii", vec![e32.clone(), e33.clone(), "é".into(), "f".into()]),
        ("prefixes", s(&["a", "ab", "abc", "abcd", "abd", "b", "ba"])),
        ("prefix-unsafe", s(&["x", "x1", "x1y", "x/", "x/y", "x ", "x\u{0}", "y"])),
        ("path-like", s(&["..", ".", "/", "a/b", "../../etc", "all", "all2", "part", "-", "--x"])),
        ("empty-name", s(&["", "a", "b"])),
        ("empty-name-only", s(&[""])),
        ("key-all", s(&["all", "alk", "alm"])),
        ("hexlike", s(&["deadbeef", "DEADBEEF", "0123456789abcdef", "abcdef"])),
        ("quotes-spaces", s(&["with space", "tab\tname", "semi;colon", "a'b", "new\nline", "x"])),
    ];
    // the sha256 hex of an unsafe name as a sibling column name (the digest contains digits, so it is itself unsafe)
    {
        use sha2::{Digest, Sha256};
        let mut h = Sha256::new();
        h.update("Foo".as_bytes());
        let hexname = format!("{:x}", h.finalize());
        sets.push(("hash-sibling", vec!["Foo".into(), hexname, "a".into(), "zz".into()]));
    }
    sets.extend(limit_name_sets());
    let pool: Vec<String> = ["a", "b", "c", "d", "A", "B", "é", "col1", "x_y", "Zed", "日", "m", "n", "o", "p", "q", "r", "", "a/b", "all"]
        .iter().map(|x| x.to_string()).collect();
    let nrand = if thorough { 300 } else { 40 };
    for _ in 0..nrand {
        let k = 1 + rng.below(9) as usize;
        let mut set = BTreeSet::new();
        for _ in 0..k {
            let mut name: String = rng.pick(&pool[..]).clone();
            if rng.chance(1, 3) { name.push_str(&rng.pick(&pool[..]).clone()); }
            if rng.chance(1, 8) { name = name.repeat(1 + rng.below(40) as usize); }
            set.insert(name);
        }
        sets.push(("random", set.into_iter().collect()));
    }
    sets
}

/// Queries: every stored name plus absent names before / between / after and near-misses.
fn queries(names: &[String]) -> Vec<String> {
    let mut q: BTreeSet<String> = names.iter().cloned().collect();
    let mut sorted = names.to_vec();
    sorted.sort();
    q.insert("".into());
    q.insert("\u{0}".into());
    q.insert("\u{10ffff}\u{10ffff}".into());
    q.insert("zzzzzzzz".into());
    q.insert("A".into());
    q.insert("all".into());
    for n in &sorted {
        q.insert(format!("{}\u{0}", n));
        q.insert(format!("{}a", n));
        q.insert(n.to_uppercase());
        q.insert(n.to_lowercase());
        if let Some((i, _)) = n.char_indices().last() { q.insert(n[..i].to_string()); }
        let mut cs: Vec<char> = n.chars().collect();
        if let Some(l) = cs.last_mut() {
            if let Some(p) = (*l as u32).checked_sub(1).and_then(char::from_u32) { *l = p; q.insert(cs.iter().collect()); }
        }
    }
    q.into_iter().collect()
}

struct SubOut { metas: String, groups: String, routes: Vec<Option<String>>, lookup: String, note: String }

fn run_sub(cols: &[Arc<Column>], max: u64, qs: &[String]) -> SubOut {
    let opts = Options { max_partition_size_bytes: max, ..base_options() };
    let (metas, groups) = verif_subpartition(&opts, cols.to_vec());
    // catalogue entry as built by the flush path ...
    let mut by_last = BTreeMap::new();
    for (i, sp) in metas.iter().enumerate() { by_last.insert(sp.last_column.clone(), i); }
    let id = 7u64;
    let pm = PartitionMetadata { id, tablename: "t".into(), offset: 0, len: cols.first().map(|c| vharness::locustdb::verif::mem_store::DataSource::len(&**c)).unwrap_or(0),
        subpartitions: metas.clone(), subpartitions_by_last_column: by_last };
    // ... and as it comes back from disk (the second place where the index is built)
    let mut ms = MetaStore::default();
    ms.insert_partition(pm.clone());
    let bytes = verif_metastore_serialize(&ms);
    let ms2 = MetaStore::deserialize(&bytes).expect("catalogue decodes");
    let pm2 = ms2.partitions().next().unwrap().clone();
    let mut note = String::new();
    // files as write_subpartitions would lay them out
    let mut files: HashMap<String, Vec<Arc<Column>>> = HashMap::new();
    for (m, g) in pm.subpartitions.iter().zip(groups.iter()) {
        files.insert(verif_partition_filename(id, &m.subpartition_key), g.clone());
    }
    let mut routes = vec![];
    let mut lookup = vec![];
    for q in qs {
        let r1 = pm.subpartition_key(q);
        let r2 = pm2.subpartition_key(q);
        if r1 != r2 { note = format!("routing differs before/after catalogue round trip for {:?}: {:?} vs {:?}", q, r1, r2); }
        let found = match &r2 {
            None => false,
            Some(k) => files.get(&verif_partition_filename(id, k)).map(|g| g.iter().any(|c| c.name() == q)).unwrap_or(false),
        };
        lookup.push(if found { "f" } else { "a" });
        routes.push(r2);
    }
    let metas_s = if metas.is_empty() { "[]".to_string() } else {
        metas.iter().map(|m| format!("{}|{}|{}", ntok(&m.subpartition_key), m.size_bytes, ntok(&m.last_column))).collect::<Vec<_>>().join(";")
    };
    let groups_s = if groups.is_empty() { "[]".to_string() } else {
        groups.iter().map(|g| toks(g, |c| ntok(c.name()))).collect::<Vec<_>>().join(";")
    };
    SubOut { metas: metas_s, groups: groups_s, routes, lookup: lookup.join(","), note }
}

fn hook_level(rng: &mut Rng, cases: &mut Cases, thorough: bool) {
    for (class, names) in name_sets(rng, thorough) {
        // columns with varied sizes
        let cols: Vec<Arc<Column>> = names.iter().enumerate()
            .map(|(i, n)| make_col(n, *rng.pick(&[1usize, 3, 8, 20]), rng.below(4), i as i64)).collect();
        // present them to `subpartition` in a shuffled order
        let mut shuffled = cols.clone();
        for i in (1..shuffled.len()).rev() { let j = rng.below(i as u64 + 1) as usize; shuffled.swap(i, j); }
        let sizes: Vec<u64> = shuffled.iter().map(|c| c.heap_size_of_children() as u64).collect();
        let total: u64 = sizes.iter().sum();
        let mut sorted_sizes: Vec<(String, u64)> = shuffled.iter().map(|c| (c.name().to_string(), c.heap_size_of_children() as u64)).collect();
        sorted_sizes.sort();
        let first2: u64 = sorted_sizes.iter().take(2).map(|x| x.1).sum();
        let mut limits = vec![0u64, 1, first2.saturating_sub(1), first2, first2 + 1, total / 2, total.saturating_sub(1), total, total + 1, 8 * 1024 * 1024, u64::MAX];
        if !thorough && class == "random" { limits = vec![1, *rng.pick(&[first2, total / 2, total / 3 + 1]), u64::MAX]; }
        limits.dedup();
        let qs = queries(&names);
        let all_strs: Vec<&String> = names.iter().chain(qs.iter()).collect();
        let u = utok(&all_strs);
        let cols_tok = if shuffled.is_empty() { "[]".to_string() } else {
            shuffled.iter().zip(sizes.iter()).map(|(c, s)| format!("{}:{}", ntok(c.name()), s)).collect::<Vec<_>>().join(",")
        };
        for max in limits {
            let out = run_sub(&shuffled, max, &qs);
            let nfiles = out.metas.split(';').count();
            let lim_class = if max <= 1 { "min" } else if max == u64::MAX { "unlimited" } else if nfiles == 1 { "one-file" } else { "several" };
            let tail = format!("{} {} {} {}", max, u, cols_tok, ntoks(&qs));
            let r = toks(&out.routes, |r| match r { Some(k) => ntok(k), None => "_".into() });
            cases.push(&format!("sub:{}:{}", class, lim_class), &format!("sub {}", tail),
                &format!("m={} g={} r={}", out.metas, out.groups, r), &out.note);
            cases.push(&format!("lookup:{}:{}", class, lim_class), &format!("lookup {}", tail), &out.lookup, &out.note);
        }
        // is_filesystem_safe on every name and query
        for n in names.iter().chain(qs.iter()) {
            let u1 = utok(&[n]);
            cases.push(&format!("safe:{}", if n.is_ascii() { "ascii" } else { "non-ascii" }), &format!("safe {} {}", u1, ntok(n)),
                &verif_is_filesystem_safe(n).to_string(), "");
        }
    }
}

fn table_names(thorough: bool) -> Vec<String> {
    let mut v: Vec<String> = ["", ".", "..", "...", "../x", "a/b", "/", "/etc/passwd", "a", "A", "ab", "Ab", "aB", "AB", "-a", ".a", "--", "-.-.a",
        "a.b-c_d", "a..b", "a.", "CON", "t", "T", "tAbLe", "table", "_meta_tables", "x y", "x\ty", "x\u{0}y", "é", "É", "ß", "日本", "😀",
        "\u{212a}", "k", "K", "\u{130}", "i", "i\u{307}", "İstanbul", "istanbul", "ǅ", "Σ", "σ", "ς", "ΑΣ", "0", "00001_all.part", "a\\b", "a:b", "~", "%2e%2e"]
        .iter().map(|x| x.to_string()).collect();
    for n in [188usize, 189, 190, 191, 255, 256, 300] {
        v.push("a".repeat(n));
        v.push("A".repeat(n));
        v.push(format!("{}b", "a".repeat(n - 1)));
        v.push(format!(".{}", "a".repeat(n - 1)));
        v.push("é".repeat(n / 2));
        v.push(format!("{}/{}", "a".repeat(n / 2), "b".repeat(n - n / 2 - 1)));
    }
    // a name that imitates the hash form of another
    {
        use sha2::{Digest, Sha256};
        let mut h = Sha256::new();
        h.update("A".as_bytes());
        v.push(format!("-a-{:x}", h.finalize()));
        let mut h = Sha256::new();
        h.update("..".as_bytes());
        v.push(format!("--{:x}", h.finalize()));
    }
    if thorough {
        for a in ["a", "A", ".", "-", "/", "_", "é", "1"] { for b in ["a", "A", ".", "-", "/", "_", "é", "1"] { for c in ["", "a", "B", "."] { v.push(format!("{}{}{}", a, b, c)); } } }
    }
    v.sort();
    v.dedup();
    v
}

fn names_level(cases: &mut Cases, thorough: bool) {
    let tn = table_names(thorough);
    let mut results = vec![];
    for t in &tn {
        let r = verif_sanitize_table_name(t);
        let class = if r == *t { "unchanged" } else if t.len() > 189 { "long" } else if !t.is_ascii() { "non-ascii" } else { "rewritten" };
        cases.push(&format!("san:{}", class), &format!("san {} {}", ntok(t), ntok(&r)), &ntok(&r), "");
        results.push(r);
    }
    for i in 0..tn.len() {
        for j in (i + 1)..tn.len() {
            // all pairs in thorough; in quick only pairs that are related (same lowercase / same cleaned form / one contains the other)
            let related = tn[i].to_lowercase() == tn[j].to_lowercase() || results[i].contains(&results[j]) || results[j].contains(&results[i])
                || tn[i].len() > 180 && tn[j].len() > 180 && (i + j) % 7 == 0;
            if thorough || related {
                cases.push("sanpair", &format!("sanpair {} {} {} {}", ntok(&tn[i]), ntok(&tn[j]), ntok(&results[i]), ntok(&results[j])),
                    &format!("{},{}", ntok(&results[i]), ntok(&results[j])), "");
            }
        }
    }
    for id in [0u64, 1, 9, 10, 99999, 100000, 123456789, u64::MAX] {
        for key in ["all", "a", "", "a_b", "é", "0f3c", "x.part", "_"] {
            cases.push("fname", &format!("fname {} {}", id, ntok(key)), &ntok(&verif_partition_filename(id, key)), "");
        }
    }
    // Unicode lower-casing followed by the ASCII retain filter, over all scalar values
    let chunk = 0x1000u32;
    let mut a = 0u32;
    while a < 0x110000 {
        let b = a + chunk;
        let mut hits = vec![];
        for c in a..b {
            if let Some(ch) = char::from_u32(c) {
                let kept: String = ch.to_string().to_lowercase().chars().filter(|c| c.is_ascii_alphanumeric() || *c == '_' || *c == '-' || *c == '.').collect();
                if !kept.is_empty() { hits.push(format!("{:x}>{}", c, ntok(&kept))); }
            }
        }
        cases.push(if a == 0 { "lower:ascii" } else { "lower:non-ascii" }, &format!("lower {} {}", a, b), &if hits.is_empty() { "[]".to_string() } else { hits.join(",") }, "");
        a = b;
    }
}

fn quote_ident(t: &str) -> String { format!("\"{}\"", t.replace('"', "\"\"")) }

fn listing(root: &Path) -> Vec<String> {
    fn walk(dir: &Path, root: &Path, out: &mut Vec<String>) {
        if let Ok(rd) = std::fs::read_dir(dir) {
            for e in rd.flatten() {
                let p = e.path();
                if p.is_dir() { walk(&p, root, out); } else { out.push(p.strip_prefix(root).unwrap().to_string_lossy().to_string()); }
            }
        }
    }
    let mut out = vec![];
    walk(root, root, &mut out);
    out.sort();
    out
}

/// `heap_size_of_children` of one 6-row column of the `api` tables (values around 10^6: two bytes per value after offset coding).
const API_COLSZ: u64 = 12;

struct ApiCfg { class: &'static str, table: String, cols: Vec<String>, max: u64, batches: usize }

fn api_level(rng: &mut Rng, cases: &mut Cases, thorough: bool) {
    let s = |v: &[&str]| v.iter().map(|x| x.to_string()).collect::<Vec<String>>();
    let long65 = "c".repeat(65);
    let mut cfgs = vec![
        ApiCfg { class: "ascii", table: "t".into(), cols: s(&["a", "b", "c", "d", "e"]), max: 1, batches: 1 },
        ApiCfg { class: "ascii-2parts", table: "t".into(), cols: s(&["alpha", "beta", "gamma", "delta"]), max: 1, batches: 2 },
        ApiCfg { class: "one-file", table: "t".into(), cols: s(&["a", "b", "c"]), max: u64::MAX, batches: 1 },
        ApiCfg { class: "mid-limit", table: "t".into(), cols: s(&["a", "b", "c", "d", "e", "f", "g"]), max: 100, batches: 1 },
        ApiCfg { class: "case-pairs", table: "Tab".into(), cols: s(&["x", "X", "xy", "Xy", "xY", "XY"]), max: 1, batches: 1 },
        ApiCfg { class: "digits", table: "t1".into(), cols: s(&["col1", "col2", "col10", "c"]), max: 1, batches: 1 },
        ApiCfg { class: "non-ascii", table: "tä".into(), cols: s(&["é", "e", "ß", "日本", "zz", "Ω"]), max: 1, batches: 1 },
        ApiCfg { class: "long", table: "t".into(), cols: vec![long65.clone(), "c".repeat(64), "c".into(), "d".into()], max: 1, batches: 1 },
        ApiCfg { class: "prefixes", table: "t".into(), cols: s(&["a", "ab", "abc", "abd", "b"]), max: 1, batches: 1 },
        ApiCfg { class: "unsafe-chars", table: "t".into(), cols: s(&["a b", "a/b", "..", "a.b", "-", "z"]), max: 1, batches: 1 },
        ApiCfg { class: "table-slash", table: "a/b".into(), cols: s(&["a", "b"]), max: 1, batches: 1 },
        ApiCfg { class: "table-dotdot", table: "..".into(), cols: s(&["a", "b"]), max: 1, batches: 1 },
        ApiCfg { class: "table-dots", table: "a.b".into(), cols: s(&["a", "b"]), max: 1, batches: 1 },
        ApiCfg { class: "table-upper", table: "TABLE".into(), cols: s(&["a", "b"]), max: 1, batches: 1 },
        ApiCfg { class: "table-300", table: "L".repeat(300), cols: s(&["a", "b"]), max: 1, batches: 1 },
        ApiCfg { class: "table-empty", table: "".into(), cols: s(&["a", "b"]), max: 1, batches: 1 },
    ];
    // names around the real limits, each the last column of its own file (max 1) resp. of a file of several columns
    for (class, cols) in limit_name_sets() {
        // table name without cased letters: no case-variant sibling table (halves the number of files / fsyncs)
        cfgs.push(ApiCfg { class, table: "77".into(), cols: cols.clone(), max: 1, batches: 1 });
        if class == "limit-4byte" || class == "limit-mixed" {
            cfgs.push(ApiCfg { class: if class == "limit-4byte" { "limit-4byte-grouped" } else { "limit-mixed-grouped" }, table: "Lim".into(), cols, max: 2 * API_COLSZ, batches: 2 });
        }
    }
    if thorough {
        for _ in 0..20 {
            let pool: [&str; 13] = ["a", "b", "c", "A", "B", "col1", "é", "x_y", "Zed", "m", "n", "long name", "q/r"];
            let k = 2 + rng.below(6) as usize;
            let set: BTreeSet<String> = (0..k).map(|_| { let mut n = rng.pick(&pool[..]).to_string(); if rng.chance(1, 3) { n.push_str(*rng.pick(&pool[..])); } n }).collect();
            cfgs.push(ApiCfg { class: "random", table: rng.pick(&["t", "T", "my table", "x.y"][..]).to_string(), cols: set.into_iter().collect(),
                max: *rng.pick(&[1u64, 50, 200, u64::MAX]), batches: 1 + rng.below(2) as usize });
        }
    }
    let mut t_last = std::time::Instant::now();
    for cfg in cfgs {
        if std::env::var("C15_TIMING").is_ok() { eprintln!("api: {:?} before {}", t_last.elapsed(), cfg.class); t_last = std::time::Instant::now(); }
        let dir = tempfile::tempdir().unwrap();
        let opts = Options { max_partition_size_bytes: cfg.max, partition_combine_factor: 999, ..disk_options(dir.path()) };
        let rows = 6usize;
        let mut expected: BTreeMap<String, Vec<Cell>> = BTreeMap::new();
        let class = format!("api:{}", cfg.class);
        // also a second table with a case-variant name and the same columns: directories must not be shared
        let other = if cfg.table.is_empty() { "other".to_string() } else if cfg.table.to_lowercase() != cfg.table { cfg.table.to_lowercase() } else { cfg.table.to_uppercase() };
        let tables = if other != cfg.table { vec![cfg.table.clone(), other.clone()] } else { vec![cfg.table.clone()] };
        let o2 = opts.clone();
        let opened = with_deadline(30, move || Arc::new(LocustDB::new(&o2)));
        let db = match opened { Some(Ok(db)) => db, _ => { cases.push(&class, "echo open", "open-failed", ""); continue; } };
        let mut failed = String::new();
        for b in 0..cfg.batches {
            let mut batches = vec![];
            for (ti, t) in tables.iter().enumerate() {
                let cols: Vec<(String, ColRep)> = cfg.cols.iter().enumerate().map(|(ci, c)| {
                    let vals: Vec<i64> = (0..rows).map(|r| (ti as i64 + 1) * 1_000_000 + (ci as i64 + 1) * 1000 + (b * rows + r) as i64).collect();
                    if ti == 0 { expected.entry(c.clone()).or_default().extend(vals.iter().map(|v| Cell::Int(*v))); }
                    (c.clone(), ColRep::I64(vals))
                }).collect();
                batches.push(Batch { table: t.clone(), len: rows as u64, cols });
            }
            let db2 = db.clone();
            match with_deadline(30, move || { ingest(&db2, &batches); db2.force_flush(); }) {
                Some(Ok(())) => {}
                Some(Err(p)) => { failed = format!("panic in ingest/flush: {}", p); break; }
                None => { failed = "hang in ingest/flush".into(); break; }
            }
        }
        drop(db);
        if !failed.is_empty() {
            cases.push(&class, &format!("echo written {}", ntok(&cfg.table)), "write-failed", &failed);
            continue;
        }
        // files on disk vs the paths the model derives from the stored catalogue
        let w = VersionedChecksummedBlobWriter::new(Box::new(FileBlobWriter::new()));
        let ms = w.load(&dir.path().join("meta")).ok().and_then(|d| MetaStore::deserialize(&d).ok());
        if let Some(ms) = ms {
            let mut per_table: BTreeMap<String, Vec<(u64, String)>> = BTreeMap::new();
            for p in ms.partitions() {
                for sp in &p.subpartitions { per_table.entry(p.tablename.clone()).or_default().push((p.id, sp.subpartition_key.clone())); }
            }
            // the key the catalogue records for every file vs `keyOf` of the model (verbatim iff filesystem safe, else
            // SHA-256 hex; `all` for a single file), and the oracle: distinct keys whose file names fit
            for p in ms.partitions() {
                let lasts: Vec<String> = p.subpartitions.iter().map(|sp| sp.last_column.clone()).collect();
                let keys: Vec<String> = p.subpartitions.iter().map(|sp| sp.subpartition_key.clone()).collect();
                let u = utok(&lasts.iter().collect::<Vec<_>>());
                let out = ntoks(&keys);
                let longest = keys.iter().map(|k| k.len()).max().unwrap_or(0);
                cases.push(&format!("{}:keys:{}", class, if keys.len() == 1 { "one-file" } else if keys.iter().zip(lasts.iter()).all(|(k, l)| k == l) { "verbatim" } else if keys.iter().zip(lasts.iter()).all(|(k, l)| k != l) { "hashed" } else { "verbatim+hashed" }),
                    &format!("keys {} {} {} :: {}", u, p.id, ntoks(&lasts), out), &out, &format!("table {:?} partition {}: longest key {} bytes, longest last_column {} bytes", p.tablename, p.id, longest, lasts.iter().map(|l| l.len()).max().unwrap_or(0)));
            }
            let files = listing(&dir.path().join("tables"));
            let nfiles: usize = per_table.values().map(|v| v.len()).sum();
            cases.push(&format!("{}:filecount", class), &format!("echo {}", nfiles), &files.len().to_string(), "files under tables/ vs sub-partitions in the catalogue");
            for (t, parts) in &per_table {
                let san = verif_sanitize_table_name(t);
                let prefix = if san.is_empty() { String::new() } else { format!("{}/", san) };
                let mut mine: Vec<String> = files.iter().filter(|f| if san.is_empty() { !f.contains('/') } else { f.starts_with(&prefix) }).cloned().collect();
                mine.sort();
                let impl_tok = toks(&mine, |f| ntok(&if san.is_empty() { format!("/{}", f) } else { f.clone() }));
                let parts_tok = toks(parts, |(i, k)| format!("{}:{}", i, ntok(k)));
                // sort order of the model output is by the rendered token; do the same here
                let mut rendered: Vec<String> = mine.iter().map(|f| ntok(&if san.is_empty() { format!("/{}", f) } else { f.clone() })).collect();
                rendered.sort();
                let _ = impl_tok;
                cases.push(&format!("{}:paths", class), &format!("paths {} {}", ntok(t), parts_tok), &toks(&rendered, |x| x.clone()), "");
            }
        } else {
            cases.push(&format!("{}:paths", class), "echo catalogue-readable", "catalogue-unreadable", "");
        }
        // reopen and read every column back
        let o3 = opts.clone();
        let db = match with_deadline(30, move || Arc::new(LocustDB::new(&o3))) {
            Some(Ok(db)) => db,
            Some(Err(p)) => { cases.push(&class, "echo reopened", "panic", &p); continue; }
            None => { cases.push(&class, "echo reopened", "hang", ""); continue; }
        };
        let qtable = quote_ident(&cfg.table);
        let mut absent: Vec<String> = vec!["".into(), "A".into(), "zzzz".into(), "\u{10ffff}".into(), "all".into()];
        for c in &cfg.cols { absent.push(format!("{}a", c)); absent.push(c.to_uppercase()); if c.len() > 1 { absent.push(c[..c.char_indices().last().unwrap().0].to_string()); } }
        absent.sort(); absent.dedup();
        absent.retain(|a| !cfg.cols.contains(a) && !a.contains('"') && !a.is_empty());
        for c in cfg.cols.iter().chain(absent.iter()) {
            let sql = format!("SELECT {} FROM {}", quote_ident(c), qtable);
            let out = query(&db, &sql);
            let got = match &out {
                QOut::Ok { rows: Some(rows), .. } => { let mut v: Vec<Cell> = rows.iter().map(|r| r.get(0).cloned().unwrap_or(Cell::Null)).collect(); v.sort(); format!("rows:{}", cells_tok(&v)) }
                other => other.tok(),
            };
            let want = match expected.get(c) {
                Some(v) => { let mut v = v.clone(); v.sort(); format!("rows:{}", cells_tok(&v)) }
                None => format!("rows:{}", cells_tok(&vec![Cell::Null; rows * cfg.batches])),
            };
            let kind = if expected.contains_key(c) { "present" } else { "absent" };
            cases.push(&format!("{}:{}", class, kind), &format!("echo {}", want), &got, &format!("{} | {}", sql.replace(['\t', '\n'], " "), out.detail()));
        }
        drop(db);
    }
}

/// `heap_size_of_children` of one 6-row column of the `reads` tables (all columns have the same shape).
const COLSZ: u64 = 12;

/// Read-state level: see the module comment.
fn reads_level(rng: &mut Rng, cases: &mut Cases, thorough: bool) {
    let s = |v: &[&str]| v.iter().map(|x| x.to_string()).collect::<Vec<String>>();
    let long65 = "c".repeat(65);
    let mut cfgs: Vec<(&'static str, String, Vec<String>, u64)> = vec![
        ("one-per-file", "t".into(), s(&["a", "b", "c", "d", "e"]), 1),
        ("one-file", "t".into(), s(&["a", "b", "c"]), u64::MAX),
        ("pairs", "t".into(), s(&["a", "b", "c", "d", "e", "f", "g"]), 2 * COLSZ),
        ("triples", "t".into(), s(&["a", "b", "c", "d", "e", "f", "g", "h"]), 3 * COLSZ),
        ("case-pairs", "Tab".into(), s(&["x", "X", "xy", "Xy", "xY", "XY"]), 2 * COLSZ),
        ("non-ascii", "tä".into(), s(&["é", "e", "ß", "日本", "zz", "Ω"]), 2 * COLSZ),
        ("long", "t".into(), vec![long65.clone(), "c".repeat(64), "c".into(), "d".into()], 1),
        ("prefixes", "t".into(), s(&["a", "ab", "abc", "abd", "b"]), 2 * COLSZ),
        ("unsafe-chars", "a/b".into(), s(&["a b", "a/b", "..", "a.b", "-", "z"]), 2 * COLSZ),
        // names that begin with a quote character (witness of the fixed parser defect: `strip_quotes` on an unquoted name)
        ("quote-lead", "t".into(), s(&["a", "`ab", "`a`", "`", "b", "'x'"]), 2 * COLSZ),
    ];
    for (class, names) in limit_name_sets() {
        if class == "limit-4byte" { cfgs.push(("limit-4byte", "t".into(), names.clone(), 1)); }
        if class == "limit-mixed" { cfgs.push(("limit-mixed", "t".into(), names.clone(), 2 * COLSZ)); }
        if thorough && class != "limit-4byte" && class != "limit-mixed" { cfgs.push((class, "t".into(), names, 3 * COLSZ)); }
    }
    let nrand = if thorough { 40 } else { 6 };
    for _ in 0..nrand {
        let pool: [&str; 14] = ["a", "b", "c", "A", "B", "col1", "é", "x_y", "Zed", "m", "n", "long name", "q/r", "all"];
        let k = 2 + rng.below(7) as usize;
        let set: BTreeSet<String> = (0..k).map(|_| { let mut n = rng.pick(&pool[..]).to_string(); if rng.chance(1, 3) { n.push_str(*rng.pick(&pool[..])); } n }).collect();
        cfgs.push(("random", rng.pick(&["t", "T", "my table", "x.y", ""][..]).to_string(), set.into_iter().collect(), *rng.pick(&[1u64, COLSZ, 2 * COLSZ, 3 * COLSZ, 5 * COLSZ, u64::MAX])));
    }
    for (class, table, cols, max) in cfgs {
        let class = format!("reads:{}", class);
        let dir = tempfile::tempdir().unwrap();
        let opts = Options { max_partition_size_bytes: max, partition_combine_factor: 999, ..disk_options(dir.path()) };
        let rows = 6usize;
        let o2 = opts.clone();
        let db = match with_deadline(30, move || Arc::new(LocustDB::new(&o2))) { Some(Ok(db)) => db, _ => { cases.push(&class, "echo open", "open-failed", ""); continue; } };
        let mut expected: BTreeMap<String, Vec<Cell>> = BTreeMap::new();
        let bcols: Vec<(String, ColRep)> = cols.iter().enumerate().map(|(ci, c)| {
            let vals: Vec<i64> = (0..rows).map(|r| (ci as i64 + 1) * 1000 + r as i64).collect();
            expected.insert(c.clone(), vals.iter().map(|v| Cell::Int(*v)).collect());
            (c.clone(), ColRep::I64(vals))
        }).collect();
        let batches = vec![Batch { table: table.clone(), len: rows as u64, cols: bcols }];
        let db2 = db.clone();
        let written = with_deadline(30, move || { ingest(&db2, &batches); db2.force_flush(); });
        drop(db);
        if !matches!(written, Some(Ok(()))) { cases.push(&class, "echo written", "write-failed", &format!("{:?}", written)); continue; }
        // catalogue + the column names each file really holds
        let w = VersionedChecksummedBlobWriter::new(Box::new(FileBlobWriter::new()));
        let ms = match w.load(&dir.path().join("meta")).ok().and_then(|d| MetaStore::deserialize(&d).ok()) {
            Some(ms) => ms, None => { cases.push(&class, "echo catalogue-readable", "catalogue-unreadable", ""); continue; } };
        let parts: Vec<PartitionMetadata> = ms.partitions().filter(|p| p.tablename == table).cloned().collect();
        if parts.len() != 1 { cases.push(&class, "echo one-partition", &format!("{}-partitions", parts.len()), ""); continue; }
        let pm = &parts[0];
        let mut files_tok = vec![];
        let mut unreadable = false;
        for sp in &pm.subpartitions {
            let path = dir.path().join("tables").join(verif_sanitize_table_name(&table)).join(verif_partition_filename(pm.id, &sp.subpartition_key));
            match w.load(&path).ok().and_then(|d| PartitionSegment::deserialize(&d).ok()) {
                Some(seg) => files_tok.push(format!("{}|{}|{}", ntok(&sp.subpartition_key), ntok(&sp.last_column), toks(&seg.columns, |c| ntok(c.name())))),
                None => unreadable = true,
            }
        }
        if unreadable { cases.push(&class, "echo files-readable", "file-unreadable", ""); continue; }
        let mut pool: Vec<String> = queries(&cols).into_iter().filter(|q| !q.is_empty() && !q.contains('"') && !q.contains('\u{0}') && !q.contains('\n') && !q.contains('\t')).collect();
        pool.sort(); pool.dedup();
        let rounds = if thorough { 4 } else { 2 };
        for round in 0..rounds {
            // every round starts from a freshly reopened database (the model starts from `RState.init`)
            let o3 = opts.clone();
            let db = match with_deadline(30, move || Arc::new(LocustDB::new(&o3))) { Some(Ok(db)) => db, other => { cases.push(&class, "echo reopened", if other.is_none() { "hang" } else { "panic" }, ""); continue; } };
            let nops = 10 + rng.below(14) as usize;
            let mut ops = vec![];
            let mut outs = vec![];
            let mut notes = vec![];
            for _ in 0..nops {
                if rng.chance(1, 7) {
                    db.evict_cache();
                    ops.push("E".to_string()); outs.push("E".to_string());
                    continue;
                }
                let name = if rng.chance(1, 2) { rng.pick(&cols[..]).clone() } else { rng.pick(&pool[..]).clone() };
                let sql = format!("SELECT {} FROM {}", quote_ident(&name), quote_ident(&table));
                let db2 = db.clone(); let sql2 = sql.clone();
                let res = with_deadline(20, move || futures::executor::block_on(db2.run_query(&sql2, false, true, vec![])));
                let out = match res {
                    None => "hang".to_string(),
                    Some(Err(_)) => "panic".to_string(),
                    Some(Ok(Err(e))) => format!("err:{}", err_kind(&e)),
                    Some(Ok(Ok(o))) => {
                        let mut got: Vec<Cell> = o.rows.as_ref().map(|rs| rs.iter().map(|r| r.get(0).map(Cell::from_value).unwrap_or(Cell::Null)).collect()).unwrap_or_default();
                        got.sort();
                        let kind = if got.len() == rows && got.iter().all(|c| *c == Cell::Null) { "a" }
                            else if expected.get(&name).map(|e| { let mut e = e.clone(); e.sort(); e == got }).unwrap_or(false) { "f" } else { "x" };
                        format!("{}{}", kind, o.stats.files_opened)
                    }
                };
                ops.push(format!("g{}", ntok(&name))); outs.push(out); notes.push(sql.replace(['\t', '\n'], " "));
            }
            let out = outs.join(",");
            let files = if files_tok.is_empty() { "[]".to_string() } else { files_tok.join(";") };
            cases.push(&format!("{}:{}", class, if pm.subpartitions.len() == 1 { "one-file" } else { "several-files" }),
                &format!("reads {} {} {} {} :: {}", pm.id, files, ntoks(&cols), ops.join(","), out), &out,
                &format!("round {} table {:?} file sizes {:?}", round, table, pm.subpartitions.iter().map(|sp| sp.size_bytes).collect::<Vec<_>>()));
            drop(db);
        }
    }
}

/// Probe: table "" (files directly under tables/) next to a table whose directory name equals one of those file names.
fn probe_empty_table() {
    let dir = tempfile::tempdir().unwrap();
    let opts = Options { max_partition_size_bytes: 1, partition_combine_factor: 999, ..disk_options(dir.path()) };
    let db = Arc::new(LocustDB::new(&opts));
    let mk = |t: &str, base: i64| Batch { table: t.into(), len: 3, cols: vec![("a".to_string(), ColRep::I64(vec![base, base + 1, base + 2])), ("b".to_string(), ColRep::I64(vec![base + 10, base + 11, base + 12]))] };
    ingest(&db, &[mk("", 100)]);
    let d2 = db.clone();
    println!("flush 1: {:?}", with_deadline(20, move || d2.force_flush()).map(|r| r.map_err(|e| e)));
    println!("files: {:?}", listing(&dir.path().join("tables")));
    ingest(&db, &[mk("00000_a.part", 200)]);
    let d2 = db.clone();
    println!("flush 2: {:?}", with_deadline(20, move || d2.force_flush()));
    println!("files: {:?}", listing(&dir.path().join("tables")));
    println!("q1 {}", query(&db, "SELECT a FROM \"\"").tok());
    println!("q2 {}", query(&db, "SELECT a FROM \"00000_a.part\"").tok());
    drop(db);
    let o3 = opts.clone();
    match with_deadline(30, move || Arc::new(LocustDB::new(&o3))) {
        Some(Ok(db)) => {
            println!("reopened; q1 {}", query(&db, "SELECT a FROM \"\"").tok());
            println!("reopened; q2 {}", query(&db, "SELECT a FROM \"00000_a.part\"").tok());
        }
        other => println!("reopen: {:?}", other.map(|r| r.map(|_| ()))),
    }
}

/// Witness of known finding C15-empty-table-name (runs first): table "" next to a table whose directory name equals
/// one of the files of table "".  `clash` = flushing the second table fails.
fn empty_table_witness(cases: &mut Cases) {
    for (t1, t2) in [("", "00000_a.part"), ("e", "00000_a.part"), ("", "other")] {
        let dir = tempfile::tempdir().unwrap();
        let opts = Options { max_partition_size_bytes: 1, partition_combine_factor: 999, ..disk_options(dir.path()) };
        let db = Arc::new(LocustDB::new(&opts));
        let mk = |t: &str, base: i64| Batch { table: t.into(), len: 3, cols: vec![("a".to_string(), ColRep::I64(vec![base, base + 1, base + 2])), ("b".to_string(), ColRep::I64(vec![base + 10, base + 11, base + 12]))] };
        ingest(&db, &[mk(t1, 100)]);
        let d2 = db.clone();
        let f1 = with_deadline(30, move || d2.force_flush());
        ingest(&db, &[mk(t2, 200)]);
        let d2 = db.clone();
        let f2 = with_deadline(30, move || d2.force_flush());
        let files = listing(&dir.path().join("tables"));
        let outcome = match (&f1, &f2) { (Some(Ok(())), Some(Ok(()))) => "ok", _ => "clash" };
        let note = format!("flush1={:?} flush2={:?} files={:?}", f1, f2, files);
        cases.push(&format!("dirclash:{}", if t1.is_empty() { "empty-table" } else { "control" }),
            &format!("dirclash {} 0:na,0:nb {}", ntok(t1), ntok(t2)).replace("0:na", "0:n61").replace("0:nb", "0:n62"), outcome, &note);
        std::mem::forget(db); // a database whose flush thread died cannot be dropped cleanly
    }
}

fn main() {
    let args = parse_args();
    if args.rest.first().map(|s| s.as_str()) == Some("probe-empty") { probe_empty_table(); return; }
    if std::env::var("LOUD").is_err() { quiet_panics(); }
    let mut rng = Rng::new(args.seed);
    let mut cases = Cases::create(&args.out);
    let only = args.rest.first().cloned();
    if only.as_deref().map_or(true, |o| o == "witness") { empty_table_witness(&mut cases); }
    if only.as_deref().map_or(true, |o| o == "hook") { hook_level(&mut rng, &mut cases, args.thorough()); }
    if only.as_deref().map_or(true, |o| o == "names") { names_level(&mut cases, args.thorough()); }
    if only.as_deref().map_or(true, |o| o == "api") { api_level(&mut rng, &mut cases, args.thorough()); }
    if only.as_deref().map_or(true, |o| o == "reads") { reads_level(&mut rng, &mut cases, args.thorough()); }
    cases.finish();
}
