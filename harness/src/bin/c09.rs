//! C09: recovery after a crash at any point is possible and atomic.
//!
//! Parent mode (`c09 --seed S --tier T --out DIR`): runs small workloads over {ingest, force_flush, restart}
//! against a real on-disk database with the fs-effect callback installed.  At EVERY callback invocation
//! (= before/after each primitive file-system effect of `FileBlobWriter::{store,delete}`) the database
//! directory is copied to a numbered snapshot; for `store:created` additional snapshots are synthesised in
//! which the temp file holds a strict prefix of the bytes (inside the 48-byte header, inside the payload,
//! all but the last byte).  Every snapshot is then opened in a CHILD PROCESS with a deadline (`c09 open …`),
//! dumped canonically, opened again (idempotence), opened + flushed + reopened (the recovered database must
//! be operational), and crashed again *during* recovery (child installs the callback too, second level).
//!
//! Case line (space separated tokens, see Drv/C09.lean):
//!   crash <io> <cf> <ops> <trace> <at> <trunc> <nack> <infl> <mode> <rtrace> <j> <impl1> <impl>
use std::collections::BTreeMap;
use std::path::{Path, PathBuf};
use std::process::{Command, Stdio};
use std::sync::atomic::{AtomicUsize, Ordering};
use std::sync::{Arc, Condvar, Mutex};
use std::time::{Duration, Instant};
use vharness::locustdb::LocustDB;
use vharness::*;

// ------------------------------------------------------------------------------------------------
// shared: options, path tokens, directory copy, effect turnstile

fn db_options(dir: &Path, io: usize, cf: u64) -> locustdb::Options {
    locustdb::Options { io_threads: io, partition_combine_factor: cf, ..disk_options(dir) }
}

/// Token for a database file (relative to the db root): `m` | `w<id>` | `p:<table dir>:<id>:<key>` | `?<path>`.
fn file_token(root: &Path, path: &Path) -> String {
    let rel = path.strip_prefix(root).unwrap_or(path);
    let comps: Vec<String> = rel.components().map(|c| c.as_os_str().to_string_lossy().to_string()).collect();
    let other = || format!("?{}", comps.join("/").replace([' ', ',', '\t'], "_"));
    match comps.as_slice() {
        [m] if m == "meta" => "m".to_string(),
        [w, f] if w == "wal" => match (f.strip_suffix(".wal").and_then(|s| s.parse::<u64>().ok()), f.strip_suffix("..INCOMPLETE").and_then(|s| s.parse::<u64>().ok())) {
            (Some(id), _) => format!("w{}", id),
            (_, Some(id)) => format!("w{}~", id),
            _ => other(),
        },
        [t, table, f] if t == "tables" => match f.strip_suffix(".part").and_then(|s| s.split_once('_')) {
            Some((id, key)) if id.parse::<u64>().is_ok() => format!("p:{}:{}:{}", table, id.parse::<u64>().unwrap(), key),
            _ => other(),
        },
        _ => other(),
    }
}

fn label_letter(label: &str) -> &'static str {
    match label {
        "store:begin" => "b", "store:created" => "c", "store:written" => "w", "store:synced" => "s",
        "store:renamed" => "r", "delete:begin" => "x", "delete:done" => "X", _ => "?",
    }
}

fn copy_dir(src: &Path, dst: &Path) {
    std::fs::create_dir_all(dst).unwrap();
    let rd = match std::fs::read_dir(src) { Ok(r) => r, Err(_) => return };
    for e in rd.flatten() {
        let p = e.path();
        let to = dst.join(e.file_name());
        if p.is_dir() { copy_dir(&p, &to); } else { let _ = std::fs::copy(&p, &to); }
    }
}

/// One thread at a time is "inside an effect"; snapshots are taken while holding the turn, so that a snapshot
/// never sees a half-done primitive effect of another io thread.  Between two of its own callbacks a thread
/// keeps the turn (that is the effect itself); at every callback it gives other threads a chance (interleaving).
struct Turnstile { owner: Mutex<Option<std::thread::ThreadId>>, cv: Condvar }
impl Turnstile {
    fn new() -> Turnstile { Turnstile { owner: Mutex::new(None), cv: Condvar::new() } }
    fn enter(&self, jitter: u64) {
        let me = std::thread::current().id();
        {
            let mut o = self.owner.lock().unwrap();
            if *o == Some(me) { *o = None; self.cv.notify_all(); }
        }
        if jitter > 0 { std::thread::sleep(Duration::from_micros(jitter)); } else { std::thread::yield_now(); }
        let mut o = self.owner.lock().unwrap();
        while o.is_some() { o = self.cv.wait(o).unwrap(); }
        *o = Some(me);
    }
    fn leave(&self) {
        let mut o = self.owner.lock().unwrap();
        *o = None;
        self.cv.notify_all();
    }
}

struct Rec { label: String, file: String, path: PathBuf, data: Vec<u8>, acked: usize, inflight: bool }

struct Recorder {
    root: PathBuf,
    snaps: PathBuf,
    recs: Mutex<Vec<Rec>>,
    turn: Turnstile,
    acked: AtomicUsize,
    inflight: AtomicUsize, // 0/1
    seed: AtomicUsize,
}

impl Recorder {
    fn on_effect(&self, label: &str, path: &Path, data: &[u8]) {
        let j = self.seed.fetch_add(0x9E37, Ordering::SeqCst) as u64;
        self.turn.enter((j >> 3) % 120);
        {
            let mut recs = self.recs.lock().unwrap();
            let n = recs.len() + 1;
            copy_dir(&self.root, &self.snaps.join(n.to_string()));
            recs.push(Rec {
                label: label.to_string(), file: file_token(&self.root, path), path: path.to_path_buf(),
                data: if label == "store:created" { data.to_vec() } else { vec![] },
                acked: self.acked.load(Ordering::SeqCst), inflight: self.inflight.load(Ordering::SeqCst) == 1,
            });
        }
        if label == "store:renamed" || label == "delete:done" { self.turn.leave(); }
    }
}

/// Base deadline (seconds) for one child open: `C09_DEADLINE`, default 30.
fn env_deadline() -> u64 { std::env::var("C09_DEADLINE").ok().and_then(|s| s.parse().ok()).unwrap_or(30) }

fn install(rec: &Arc<Recorder>) {
    let r = rec.clone();
    locustdb::verif::set_fs_callback(Some(Box::new(move |label, path, data| r.on_effect(label, path, data))));
}

// ------------------------------------------------------------------------------------------------
// canonical dump of a database

const USER_TABLES: [&str; 2] = ["t0", "t1"];

fn dump_table(db: &Arc<LocustDB>, table: &str) -> String {
    let sql = if table == "_meta_tables" { "SELECT name FROM _meta_tables".to_string() }
        else if table.starts_with("_meta_columns_") { format!("SELECT column_name FROM {}", table) }
        else { format!("SELECT * FROM {}", table) };
    match query_full(db, &sql, false, (env_deadline() / 2).max(15)) {
        QOut::Ok { cols, .. } => {
            let mut cols: Vec<(String, Vec<Cell>)> = cols;
            cols.sort_by(|a, b| a.0.cmp(&b.0));
            let n = cols.iter().map(|c| c.1.len()).max().unwrap_or(0);
            let mut rows: Vec<String> = (0..n).map(|i| {
                let cell = |name: &str| cols.iter().find(|c| c.0 == name).and_then(|c| c.1.get(i).cloned());
                if table.starts_with("_meta_") {
                    match cols.first().and_then(|c| c.1.get(i)) { Some(Cell::Str(s)) => s.clone(), other => format!("!{:?}", other).replace([' ', ',', ';', '='], "") }
                } else {
                    match (cell("id"), cell("v")) {
                        (Some(Cell::Int(id)), Some(Cell::Int(v))) if v == id * 10 && cols.len() == 2 => id.to_string(),
                        _ => format!("!{}", cols.iter().map(|c| format!("{}{}", c.0, c.1.get(i).map(|x| x.tok()).unwrap_or("?".into()))).collect::<Vec<_>>().join("/")),
                    }
                }
            }).collect();
            // rows of different partitions come back in HashMap order: compare as multisets
            rows.sort_by(|a, b| match (a.parse::<i64>(), b.parse::<i64>()) { (Ok(x), Ok(y)) => x.cmp(&y), _ => a.cmp(b) });
            if rows.is_empty() { "-".to_string() } else { rows.join(",") }
        }
        QOut::Err(k) => if k == "fatal" || k == "notimpl" { "-".to_string() } else { format!("!err:{}", k) },
        QOut::Panic(_) => "!panic".to_string(),
        QOut::Hang => "!hang".to_string(),
    }
}

/// `t=rows;…` for the tables that have rows, sorted by table name; `empty` if there is none.
fn dump(db: &Arc<LocustDB>) -> String {
    let mut names: Vec<String> = vec!["_meta_tables".to_string()];
    for t in USER_TABLES { names.push(t.to_string()); names.push(format!("_meta_columns_{}", t)); }
    names.sort();
    let parts: Vec<String> = names.iter().filter_map(|t| { let d = dump_table(db, t); if d == "-" { None } else { Some(format!("{}={}", t, d)) } }).collect();
    if parts.is_empty() { "empty".to_string() } else { parts.join(";") }
}

// ------------------------------------------------------------------------------------------------
// child mode: c09 open <dir> <io> <cf> [flush]      env C09_SNAP=<dir>: snapshot at each effect of recovery

fn child_open(a: &[String]) -> ! {
    let dir = PathBuf::from(&a[0]);
    let io: usize = a[1].parse().unwrap();
    let cf: u64 = a[2].parse().unwrap();
    let flush = a.get(3).map(|s| s == "flush").unwrap_or(false);
    let rec = std::env::var("C09_SNAP").ok().map(|s| Arc::new(Recorder {
        root: dir.clone(), snaps: PathBuf::from(s), recs: Mutex::new(vec![]), turn: Turnstile::new(),
        acked: AtomicUsize::new(0), inflight: AtomicUsize::new(0), seed: AtomicUsize::new(7),
    }));
    if let Some(r) = &rec { install(r); }
    let db = Arc::new(LocustDB::new(&db_options(&dir, io, cf)));
    locustdb::verif::set_fs_callback(None);
    if let Some(r) = &rec {
        let recs = r.recs.lock().unwrap();
        println!("TRACE {}", toks(&recs[..], |x| format!("{}.{}", label_letter(&x.label), x.file)));
    }
    println!("DUMP {}", dump(&db));
    if flush {
        let base: u64 = env_deadline();
        match with_deadline(base * 3 / 4, { let db = db.clone(); move || db.force_flush() }) {
            Some(Ok(())) => println!("FLUSH ok"),
            Some(Err(_)) => println!("FLUSH panic"),
            None => println!("FLUSH hang"),
        }
        println!("DUMP2 {}", dump(&db));
    }
    use std::io::Write;
    std::io::stdout().flush().unwrap();
    std::process::exit(0);
}

#[derive(Clone, Debug, Default)]
struct ChildOut { status: String, trace: String, dump: String, flush: String, dump2: String }

impl ChildOut {
    /// canonical implementation output of one open: the dump, or `hang` / `panic`
    fn out(&self) -> String { if self.status == "ok" { self.dump.clone() } else { self.status.clone() } }
}

fn run_child_once(dir: &Path, io: usize, cf: u64, flush: bool, snap: Option<&Path>, deadline: Option<u64>) -> ChildOut {
    let exe = std::env::current_exe().unwrap();
    let mut cmd = Command::new(exe);
    cmd.arg("open").arg(dir).arg(io.to_string()).arg(cf.to_string());
    if flush { cmd.arg("flush"); }
    cmd.env_remove("C09_SNAP");
    if let Some(d) = deadline { cmd.env("C09_DEADLINE", d.to_string()); }
    if let Some(s) = snap { cmd.env("C09_SNAP", s); }
    cmd.stdin(Stdio::null()).stdout(Stdio::piped()).stderr(Stdio::null());
    let mut child = cmd.spawn().expect("spawn child");
    let t0 = Instant::now();
    // a normal open takes ~0.1 s; C09_DEADLINE (seconds) overrides the 30 s deadline
    let base: u64 = deadline.unwrap_or_else(env_deadline);
    // the child runs up to 5 dump queries (deadline base/2 each) after the open; a flush child also flushes and dumps again
    let limit = Duration::from_secs(if flush { base * 3 } else { base * 2 });
    let status = loop {
        match child.try_wait().unwrap() {
            Some(st) => break if st.success() { "ok" } else { "panic" },
            None => {
                if t0.elapsed() > limit { let _ = child.kill(); let _ = child.wait(); break "hang"; }
                std::thread::sleep(Duration::from_millis(4));
            }
        }
    };
    let mut out = String::new();
    use std::io::Read;
    if let Some(mut so) = child.stdout.take() { let _ = so.read_to_string(&mut out); }
    let mut r = ChildOut { status: status.to_string(), ..Default::default() };
    for l in out.lines() {
        if let Some(x) = l.strip_prefix("TRACE ") { r.trace = x.to_string(); }
        else if let Some(x) = l.strip_prefix("DUMP2 ") { r.dump2 = x.to_string(); }
        else if let Some(x) = l.strip_prefix("DUMP ") { r.dump = x.to_string(); }
        else if let Some(x) = l.strip_prefix("FLUSH ") { r.flush = x.to_string(); }
    }
    if r.status == "ok" && r.dump.is_empty() { r.status = "panic".into(); }
    r
}

static FLAKY: AtomicUsize = AtomicUsize::new(0);
/// after this instant no re-verification is started any more (see the wall-clock budgets in `main`)
static HARD_STOP: std::sync::OnceLock<Instant> = std::sync::OnceLock::new();

/// Open `dir` in a child.  Deadline: `C09_DEADLINE` seconds (set by the parent from a calibration run: 30 s, more on a
/// loaded machine; a normal open takes ~0.1 s).  An abnormal outcome (hang / panic / a failed dump query / a failed flush) is
/// re-verified up to twice on a pristine copy of the same state with the deadline doubled each time, so that a load spike
/// on a shared machine is not reported as a hang; only an outcome that persists through all three attempts is reported.
fn run_child(dir: &Path, io: usize, cf: u64, flush: bool, snap: Option<&Path>) -> ChildOut {
    let base = env_deadline();
    let backup = dir.with_extension("retry");
    let _ = std::fs::remove_dir_all(&backup);
    copy_dir(dir, &backup);
    let mut r = run_child_once(dir, io, cf, flush, snap, Some(base));
    let abnormal = |r: &ChildOut| r.status != "ok" || r.dump.contains('!') || r.dump2.contains('!') || (flush && r.flush != "ok");
    let mut d = base;
    for _ in 0..2 {
        if !abnormal(&r) { break; }
        if HARD_STOP.get().map(|t| Instant::now() > *t).unwrap_or(false) { break; }
        d *= 2;
        let _ = std::fs::remove_dir_all(dir);
        copy_dir(&backup, dir);
        if let Some(s) = snap { let _ = std::fs::remove_dir_all(s); std::fs::create_dir_all(s).unwrap(); }
        let r2 = run_child_once(dir, io, cf, flush, snap, Some(d));
        if !abnormal(&r2) { FLAKY.fetch_add(1, Ordering::SeqCst); eprintln!("[c09] flaky open of {:?}: earlier attempt {:?}, re-verification with {} s ok", dir, r.status, d); }
        r = r2;
    }
    let _ = std::fs::remove_dir_all(&backup);
    r
}

// ------------------------------------------------------------------------------------------------
// workloads

#[derive(Clone, Debug)]
enum Op { Ingest(Vec<(String, Vec<i64>)>), Flush, Restart }

#[derive(Clone, Debug)]
struct Workload { io: usize, cf: u64, ops: Vec<Op>, name: String, all_modes: bool }

fn batches(shares: &[(String, Vec<i64>)]) -> Vec<Batch> {
    shares.iter().map(|(t, ids)| Batch {
        table: t.clone(), len: ids.len() as u64,
        cols: vec![("id".to_string(), ColRep::I64(ids.clone())), ("v".to_string(), ColRep::I64(ids.iter().map(|i| i * 10).collect()))],
    }).collect()
}

/// shape: string over `a` (ingest t0), `b` (ingest t1), `c` (ingest t0+t1), `F`, `R`
fn workload(shape: &str, io: usize, cf: u64, rng: &mut Rng) -> Workload {
    let mut next = 1i64;
    let mut ops = vec![];
    for ch in shape.chars() {
        let mut rows = |rng: &mut Rng| { let n = 1 + rng.below(2) as i64; let v: Vec<i64> = (next..next + n).collect(); next += n; v };
        ops.push(match ch {
            'a' => Op::Ingest(vec![("t0".into(), rows(rng))]),
            'b' => Op::Ingest(vec![("t1".into(), rows(rng))]),
            'c' => { let r0 = rows(rng); let r1 = rows(rng); Op::Ingest(vec![("t0".into(), r0), ("t1".into(), r1)]) }
            'F' => Op::Flush,
            _ => Op::Restart,
        });
    }
    Workload { io, cf, ops, name: format!("{}/io{}/cf{}", shape, io, cf), all_modes: true }
}

/// Inverse of `ops_token` (compaction decisions are dropped: they are observed again).
fn ops_from_token(tok: &str) -> Vec<Op> {
    tok.split(';').map(|o| {
        let f: Vec<&str> = o.split(':').collect();
        match f[0] {
            "I" => Op::Ingest(f[1..].iter().map(|sh| { let (t, ids) = sh.split_once('=').unwrap(); (t.to_string(), ids.split('.').filter(|x| !x.is_empty()).map(|x| x.parse().unwrap()).collect()) }).collect()),
            "F" => Op::Flush,
            _ => Op::Restart,
        }
    }).collect()
}

/// `--replay <file>`: a replay written by `check` (JSON, `first.model_line`) or a file whose first line is a model line.
/// The workload of that line (same tables, rows, io_threads, combine factor) is run again with EVERY crash point,
/// truncation class and mode (pool interleavings may differ from the recorded run, so a single index would not be faithful).
fn replay_workload(path: &Path) -> Workload {
    // `check` starts the harness in its output directory: a relative path is relative to /verif
    let alt = Path::new(env!("CARGO_MANIFEST_DIR")).parent().unwrap().join(path);
    let txt = std::fs::read_to_string(path).or_else(|_| std::fs::read_to_string(&alt)).unwrap_or_else(|e| { eprintln!("[c09] cannot read replay file {:?}: {}", path, e); std::process::exit(2) });
    let line = if txt.trim_start().starts_with('{') {
        let j: serde_json::Value = serde_json::from_str(&txt).expect("replay json");
        let f = if j.get("first").is_some() { j["first"].clone() } else { j.clone() };
        f["model_line"].as_str().expect("model_line").to_string()
    } else { txt.lines().next().unwrap_or("").to_string() };
    let t: Vec<&str> = line.split(' ').collect();
    assert!(t.len() >= 4 && t[0] == "crash", "not a C09 model line");
    Workload { io: t[1].parse().unwrap(), cf: t[2].parse().unwrap(), ops: ops_from_token(t[3]), name: format!("replay/io{}/cf{}", t[1], t[2]), all_modes: true }
}

fn ops_token(ops: &[Op], compactions: &[String]) -> String {
    let mut fi = 0;
    ops.iter().map(|op| match op {
        Op::Ingest(sh) => format!("I:{}", sh.iter().map(|(t, ids)| format!("{}={}", t, ids.iter().map(|i| i.to_string()).collect::<Vec<_>>().join("."))).collect::<Vec<_>>().join(":")),
        Op::Flush => { let c = compactions.get(fi).cloned().unwrap_or_default(); fi += 1; if c.is_empty() { "F".to_string() } else { format!("F:{}", c) } }
        Op::Restart => "R".to_string(),
    }).collect::<Vec<_>>().join(";")
}

/// Which partitions did a flush merge?  Derived from the flush's own effects: the deleted partition files are the
/// merged-away ones, the target is the largest partition id stored for that table during the flush.
/// (Compaction *planning* depends on heap byte sizes, which the model does not have: the decision is an input of the
/// model, which checks that it is well formed — a suffix, by offset, of the table's partitions.)
fn compaction_token(recs: &[Rec]) -> String {
    let mut deleted: BTreeMap<String, Vec<u64>> = BTreeMap::new();
    let mut stored: BTreeMap<String, u64> = BTreeMap::new();
    for r in recs {
        let f: Vec<&str> = r.file.split(':').collect();
        if f.len() == 4 && f[0] == "p" {
            let id: u64 = f[2].parse().unwrap();
            if r.label == "delete:begin" { deleted.entry(f[1].to_string()).or_default().push(id); }
            if r.label == "store:begin" { let e = stored.entry(f[1].to_string()).or_insert(id); if id > *e { *e = id; } }
        }
    }
    deleted.iter().map(|(t, ids)| {
        let mut ids = ids.clone(); ids.sort(); ids.dedup();
        format!("{}={}>{}", t, ids.iter().map(|i| i.to_string()).collect::<Vec<_>>().join("."), stored.get(t).map(|i| i.to_string()).unwrap_or("?".into()))
    }).collect::<Vec<_>>().join(":")
}

struct Ctx { cases: Mutex<Cases>, crash_points: AtomicUsize, opens: AtomicUsize, thorough: bool, hard_stop: Instant, dropped: AtomicUsize }

fn run_workload(ctx: &Ctx, w: &Workload, seed: u64, work: &Path, budget_points: usize, rng: &mut Rng) {
    let root = work.join("db");
    let snaps = work.join("snaps");
    let _ = std::fs::remove_dir_all(work);
    std::fs::create_dir_all(&root).unwrap();
    std::fs::create_dir_all(&snaps).unwrap();
    let rec = Arc::new(Recorder { root: root.clone(), snaps: snaps.clone(), recs: Mutex::new(vec![]), turn: Turnstile::new(),
        acked: AtomicUsize::new(0), inflight: AtomicUsize::new(0), seed: AtomicUsize::new(seed as usize & 0xffff) });
    install(&rec);
    let opts = db_options(&root, w.io, w.cf);
    let mut db: Option<Arc<LocustDB>> = None;
    let mut compactions: Vec<String> = vec![];
    let mut aborted: Option<String> = None;
    let live_dl = env_deadline() * 2;
    match with_deadline(live_dl, { let o = opts.clone(); move || Arc::new(LocustDB::new(&o)) }) {
        Some(Ok(d)) => db = Some(d),
        Some(Err(_)) => aborted = Some("panic".into()),
        None => aborted = Some("hang".into()),
    }
    let mut done_ops = 0;
    for op in &w.ops {
        if aborted.is_some() { break; }
        let d = db.clone().unwrap();
        let res = match op {
            Op::Ingest(sh) => {
                let b = batches(sh);
                rec.inflight.store(1, Ordering::SeqCst);
                let r = with_deadline(live_dl, move || ingest(&d, &b));
                if matches!(r, Some(Ok(()))) { rec.acked.fetch_add(1, Ordering::SeqCst); rec.inflight.store(0, Ordering::SeqCst); }
                r
            }
            Op::Flush => {
                let before = rec.recs.lock().unwrap().len();
                let r = with_deadline(live_dl, move || d.force_flush());
                let recs = rec.recs.lock().unwrap();
                compactions.push(compaction_token(&recs[before..]));
                r
            }
            Op::Restart => {
                drop(d);
                db = None;
                // let the old instance's background threads observe `running = false`
                std::thread::sleep(Duration::from_millis(30));
                match with_deadline(live_dl, { let o = opts.clone(); move || Arc::new(LocustDB::new(&o)) }) {
                    Some(Ok(nd)) => { db = Some(nd); Some(Ok(())) }
                    Some(Err(e)) => Some(Err(e)),
                    None => None,
                }
            }
        };
        match res {
            Some(Ok(())) => done_ops += 1,
            Some(Err(_)) => aborted = Some("panic".into()),
            None => aborted = Some("hang".into()),
        }
    }
    let final_dump = match (&db, &aborted) { (Some(d), None) => dump(d), _ => String::new() };
    drop(db);
    locustdb::verif::set_fs_callback(None);
    rec.turn.leave();
    let recs = std::mem::take(&mut *rec.recs.lock().unwrap());
    let ops_tok = ops_token(&w.ops, &compactions);
    let trace_tok = toks(&recs[..], |x| format!("{}.{}", label_letter(&x.label), x.file));
    let head = format!("crash {} {} {} {}", w.io, w.cf, ops_tok, trace_tok);
    let nack_end = rec.acked.load(Ordering::SeqCst);

    // the uncrashed run itself: every operation completes, and the live content is the acknowledged content
    {
        let impl_out = match &aborted { Some(k) => format!("{}@op{}", k, done_ops), None => final_dump.clone() };
        let line = format!("{} {} - {} 0 live [] 0 {} {}", head, recs.len(), nack_end, impl_out, impl_out);
        ctx.cases.lock().unwrap().push("live", &line, &impl_out, &w.name);
    }

    // crash points: (snapshot index, truncation class)
    let mut points: Vec<(usize, &'static str)> = vec![];
    for (i, r) in recs.iter().enumerate() {
        points.push((i + 1, "-"));
        if r.label == "store:created" && r.data.len() > 50 {
            for t in ["h", "p", "l"] { points.push((i + 1, t)); }
        }
    }
    if std::env::var("C09_NOPOINTS").is_ok() { points.clear(); }
    if points.len() > budget_points {
        // keep every state-changing effect on wal/meta files and all truncations of wal segments; sample the rest
        let mut keep: Vec<(usize, &'static str)> = vec![];
        let mut rest: Vec<(usize, &'static str)> = vec![];
        for p in points {
            let r = &recs[p.0 - 1];
            let important = (r.file.starts_with('w') && (p.1 == "-" && matches!(r.label.as_str(), "store:created" | "store:written" | "store:renamed" | "delete:done") || p.1 == "p"))
                || (r.file == "m" && p.1 == "-" && matches!(r.label.as_str(), "store:synced" | "store:renamed"));
            if important { keep.push(p) } else { rest.push(p) }
        }
        while keep.len() < budget_points && !rest.is_empty() { let k = rng.below(rest.len() as u64) as usize; keep.push(rest.swap_remove(k)); }
        keep.truncate(budget_points.max(1));
        keep.sort();
        points = keep;
    }

    let next = AtomicUsize::new(0);
    let nworkers = 8;
    let l2_seed = seed;
    std::thread::scope(|s| {
        for wk in 0..nworkers {
            let (points, recs, next, head, snaps, work, w, root) = (&points, &recs, &next, &head, &snaps, work, w, &root);
            s.spawn(move || {
                loop {
                    let k = next.fetch_add(1, Ordering::SeqCst);
                    if k >= points.len() { break; }
                    if Instant::now() > ctx.hard_stop { ctx.dropped.fetch_add(1, Ordering::SeqCst); continue; }
                    let (at, trunc) = points[k];
                    let r = &recs[at - 1];
                    let class_base = format!("{}.{}{}", label_letter(&r.label), &r.file[..1], if trunc == "-" { String::new() } else { format!("/{}", trunc) });
                    let pristine = work.join(format!("case-{}-{}", wk, k));
                    let _ = std::fs::remove_dir_all(&pristine);
                    copy_dir(&snaps.join(at.to_string()), &pristine);
                    if trunc != "-" {
                        let n = r.data.len();
                        let cut = match trunc { "h" => 20, "p" => 48 + (n - 48) / 2, _ => n - 1 };
                        let tmp = pristine.join(r.path.strip_prefix(root).unwrap()).with_extension(".INCOMPLETE");
                        std::fs::write(&tmp, &r.data[..cut]).unwrap();
                    }
                    let common = format!("{} {} {} {} {}", head, at, trunc, r.acked, if r.inflight { 1 } else { 0 });
                    let pick = (l2_seed as usize + k * 7 + at) % 4;
                    let do_flush = (ctx.thorough && w.all_modes) || pick == 0 || (r.file.starts_with('w') && r.label != "store:begin");
                    let do_l2 = (ctx.thorough && w.all_modes) || pick == 1 || r.label == "delete:begin" || (r.file == "m" && r.label == "store:renamed");
                    // first and second open on one copy
                    let a = work.join(format!("open-{}-{}", wk, k));
                    let _ = std::fs::remove_dir_all(&a);
                    copy_dir(&pristine, &a);
                    let o1 = run_child(&a, w.io, w.cf, false, None);
                    let o2 = if o1.status == "ok" { Some(run_child(&a, w.io, w.cf, false, None)) } else { None };
                    ctx.opens.fetch_add(1 + o2.is_some() as usize, Ordering::SeqCst);
                    let mut out: Vec<(String, String, String)> = vec![];
                    out.push((format!("open:{}", class_base), format!("{} open [] 0 {} {}", common, o1.out(), o1.out()), o1.out()));
                    if let Some(o2) = &o2 {
                        out.push((format!("reopen:{}", class_base), format!("{} reopen [] 0 {} {}", common, o1.out(), o2.out()), o2.out()));
                    }
                    let _ = std::fs::remove_dir_all(&a);
                    if o1.status == "ok" && do_flush {
                        // the recovered database must be operational: flush, then reopen
                        copy_dir(&pristine, &a);
                        let f = run_child(&a, w.io, w.cf, true, None);
                        let g = run_child(&a, w.io, w.cf, false, None);
                        ctx.opens.fetch_add(2, Ordering::SeqCst);
                        let impl_out = if f.status != "ok" { f.status.clone() } else { format!("{}|{}|{}|{}", f.dump, f.flush, f.dump2, g.out()) };
                        out.push((format!("flush:{}", class_base), format!("{} flush [] 0 {} {}", common, o1.out(), impl_out), impl_out));
                        let _ = std::fs::remove_dir_all(&a);
                    }
                    if o1.status == "ok" && do_l2 {
                        // crash again during recovery: snapshot at every effect of the recovery, reopen each
                        copy_dir(&pristine, &a);
                        let sn = work.join(format!("l2-{}-{}", wk, k));
                        let _ = std::fs::remove_dir_all(&sn);
                        std::fs::create_dir_all(&sn).unwrap();
                        let f = run_child(&a, w.io, w.cf, false, Some(&sn));
                        ctx.opens.fetch_add(1, Ordering::SeqCst);
                        let rtrace = if f.trace.is_empty() { "[]".to_string() } else { f.trace.clone() };
                        let n2 = if rtrace == "[]" { 0 } else { rtrace.split(',').count() };
                        out.push((format!("l2run:{}:{}", class_base, n2.min(9)), format!("{} l2 {} 0 {} {}", common, rtrace, o1.out(), f.out()), f.out()));
                        for j in 1..=n2 {
                            let g = run_child(&sn.join(j.to_string()), w.io, w.cf, false, None);
                            ctx.opens.fetch_add(1, Ordering::SeqCst);
                            out.push((format!("l2:{}", class_base), format!("{} l2 {} {} {} {}", common, rtrace, j, o1.out(), g.out()), g.out()));
                        }
                        let _ = std::fs::remove_dir_all(&sn);
                        let _ = std::fs::remove_dir_all(&a);
                    }
                    let _ = std::fs::remove_dir_all(&pristine);
                    let mut cases = ctx.cases.lock().unwrap();
                    for (class, line, impl_out) in out { cases.push(&class, &line, &impl_out, &format!("{} at={} {} {}", w.name, at, r.label, r.file)); }
                    ctx.crash_points.fetch_add(1, Ordering::SeqCst);
                }
            });
        }
    });
    let _ = std::fs::remove_dir_all(work);
}

fn main() {
    let argv: Vec<String> = std::env::args().collect();
    if argv.len() > 1 && argv[1] == "open" { child_open(&argv[2..]); }
    let args = parse_args();
    if std::env::var("C09_LOUD").is_err() { quiet_panics(); }
    let mut rng = Rng::new(args.seed);
    let t0 = Instant::now();
    // calibration: how long does opening an empty database in a child take right now?  (~0.1-0.3 s on an idle machine)
    if std::env::var("C09_DEADLINE").is_err() {
        let cal = tempfile::tempdir().unwrap();
        let c0 = Instant::now();
        let r = run_child_once(&cal.path().join("db"), 1, 4, false, None, Some(150));
        let t_cal = c0.elapsed().as_secs_f64();
        let base = ((t_cal * 20.0) as u64).clamp(30, 90);
        eprintln!("[c09] calibration: empty open {:?} in {:.1} s => deadline {} s (re-verification {} s, {} s)", r.status, t_cal, base, base * 2, base * 4);
        std::env::set_var("C09_DEADLINE", base.to_string());
    }
    // wall-clock budgets (the generic runner kills a harness after 3000 s and reports that as a failure): after the soft
    // budget no new workload is started, after the hard one no new crash point; both are reported on stderr
    let soft_s: u64 = std::env::var("C09_BUDGET_S").ok().and_then(|s| s.parse().ok()).unwrap_or(if args.thorough() { 1500 } else { 1200 });
    let hard_s: u64 = (soft_s + 600).min(2100).max(soft_s);
    let _ = HARD_STOP.set(t0 + Duration::from_secs(hard_s));
    let ctx = Ctx { cases: Mutex::new(Cases::create(&args.out)), crash_points: AtomicUsize::new(0), opens: AtomicUsize::new(0), thorough: args.thorough() || args.replay.is_some(),
        hard_stop: t0 + Duration::from_secs(hard_s), dropped: AtomicUsize::new(0) };
    let tmp = tempfile::tempdir().unwrap();
    let work = tmp.path().join("w");
    if let Some(p) = &args.replay {
        let w = replay_workload(p);
        run_workload(&ctx, &w, args.seed, &work, usize::MAX, &mut rng);
        eprintln!("[c09] replay {} done: crash points {} opens {} wall {:.1}s", w.name, ctx.crash_points.load(Ordering::SeqCst), ctx.opens.load(Ordering::SeqCst), t0.elapsed().as_secs_f64());
        let Ctx { cases, .. } = ctx;
        cases.into_inner().unwrap().finish();
        return;
    }

    // designed workloads: (shape, io, cf)
    let mut plan: Vec<(String, usize, u64, usize)> = vec![];
    let quick: [(&str, usize, u64); 8] = [
        ("a", 1, 4), ("cF", 1, 999), ("aFaF", 1, 1), ("cFcF", 4, 0), ("aRaF", 1, 4), ("cFRbF", 4, 1), ("aaFaR", 1, 0), ("abFcFaF", 1, 1),
    ];
    let single: Vec<&String> = args.rest.iter().filter(|a| a.starts_with("shape=")).collect();
    if !single.is_empty() {
        // debugging / replay: c09 --out DIR shape=<shape>,<io>,<cf> …
        for a in single { let f: Vec<&str> = a[6..].split(',').collect(); plan.push((f[0].to_string(), f[1].parse().unwrap(), f[2].parse().unwrap(), usize::MAX)); }
    } else if !args.thorough() {
        // past-failure corpus first: the witnesses of finding C09-wal-temp (fixed) — one ingestion, crash between
        // File::create and rename of wal/0.wal (torn and complete temp file), io_threads 1 (panic path) and 4 (hang path);
        // every crash point, every truncation class, every mode
        plan.push(("a".to_string(), 4, 4, usize::MAX));
        for (s, io, cf) in quick { plan.push((s.to_string(), io, cf, if s == "a" { usize::MAX } else { 22 })); }
    } else {
        plan.push(("a".to_string(), 4, 4, usize::MAX));
        for (s, io, cf) in quick { plan.push((s.to_string(), io, cf, usize::MAX)); }
        // bounded-exhaustive: every shape up to length 3 over {a, c, F, R}, then seeded random shapes up to length 6
        let alpha = ['a', 'c', 'F', 'R'];
        let mut shapes: Vec<String> = vec![String::new()];
        let mut all: Vec<String> = vec![];
        for _ in 0..3 {
            shapes = shapes.iter().flat_map(|s| alpha.iter().map(move |c| format!("{}{}", s, c))).collect();
            all.extend(shapes.iter().cloned());
        }
        for (i, s) in all.iter().enumerate() {
            if !s.contains('a') && !s.contains('c') { continue; }
            let cf = [0u64, 1, 4, 999][(i + args.seed as usize) % 4];
            let io = if (i / 4 + args.seed as usize) % 3 == 0 { 4 } else { 1 };
            plan.push((s.clone(), io, cf, usize::MAX - 1)); // enumerated shape: every crash point, modes sampled
        }
        for _ in 0..14 {
            let len = 4 + rng.below(3) as usize;
            let s: String = (0..len).map(|_| *rng.pick(&['a', 'b', 'c', 'c', 'F', 'F', 'R'])).collect();
            plan.push((s, *rng.pick(&[1usize, 4]), *rng.pick(&[0u64, 1, 4, 999]), usize::MAX));
        }
    }
    let budget_s = soft_s;
    let mut skipped = 0;
    for (i, (shape, io, cf, budget)) in plan.iter().enumerate() {
        let mut w = workload(shape, *io, *cf, &mut rng);
        w.all_modes = *budget != usize::MAX - 1;
        if t0.elapsed().as_secs() > budget_s { skipped += 1; continue; }
        run_workload(&ctx, &w, args.seed.wrapping_add(i as u64 * 31), &work, *budget, &mut rng);
        eprintln!("[c09] {} done: crash points {} opens {} t={:.0}s", w.name, ctx.crash_points.load(Ordering::SeqCst), ctx.opens.load(Ordering::SeqCst), t0.elapsed().as_secs_f64());
    }
    if skipped > 0 { eprintln!("[c09] time budget of {} s exhausted: {} of {} workloads skipped", budget_s, skipped, plan.len()); }
    if ctx.dropped.load(Ordering::SeqCst) > 0 { eprintln!("[c09] hard time budget of {} s exhausted: {} crash points dropped", hard_s, ctx.dropped.load(Ordering::SeqCst)); }
    eprintln!("[c09] flaky opens (abnormal first attempt, normal retry): {}", FLAKY.load(Ordering::SeqCst));
    eprintln!("[c09] crash points {} child opens {} wall {:.1}s", ctx.crash_points.load(Ordering::SeqCst), ctx.opens.load(Ordering::SeqCst), t0.elapsed().as_secs_f64());
    let Ctx { cases, .. } = ctx;
    cases.into_inner().unwrap().finish();
}
