//! C04: aggregates are computed per distinct group, once, over all rows.
//!
//! Two streams.
//!  unit: the pure merge step functions (merge_deduplicate, merge_aggregate, merge_drop, partition, subpartition,
//!        merge_deduplicate_partitioned) through the `verif` hook wrappers on generated strictly sorted key vectors
//!        and aggregate vectors, folded along explicit merge trees; the Lean model (Query/Merge.lean,
//!        Query/GroupMerge.lean) must reproduce every output, the Lean specification judges it.
//!  api:  `SELECT g.., agg.. FROM t [WHERE ..]` on generated tables in several physical realisations (1..4 partitions,
//!        never compacted), result rows in engine order; the Lean driver computes specGroupBy and compares as a
//!        multiset, and predicts the exact ordered output for the modelled planner paths.
use std::collections::HashSet;
use std::sync::Arc;
use vharness::locustdb::verif::engine::operators::verif_ops::*;
use vharness::locustdb::verif::engine::{Aggregator, MergeOp, Premerge};
use vharness::locustdb::LocustDB;
use vharness::qcommon::*;
use vharness::*;

// ------------------------------------------------------------------------------------------------
// helpers

fn ints_tok(xs: &[i64]) -> String { fmt_list(xs) }

fn ops_tok(ops: &[MergeOp]) -> String {
    if ops.is_empty() { return "-".into(); }
    ops.iter().map(|o| match o { MergeOp::TakeLeft => 'L', MergeOp::TakeRight => 'R', MergeOp::MergeRight => 'M' }).collect()
}

fn pre_tok(p: &[Premerge]) -> String {
    if p.is_empty() { return "[]".into(); }
    p.iter().map(|x| format!("{}/{}", x.left, x.right)).collect::<Vec<_>>().join(",")
}

fn guard<T, F: FnOnce() -> T + std::panic::UnwindSafe>(f: F) -> Result<T, String> {
    std::panic::catch_unwind(f).map_err(panic_msg)
}

fn agg_of(op: &str) -> Aggregator {
    match op { "sum" => Aggregator::SumI64, "count" => Aggregator::Count, "max" => Aggregator::MaxI64, _ => Aggregator::MinI64 }
}

/// strictly ascending subset of a universe
fn subset(rng: &mut Rng, uni: &[i64], num: u64, den: u64) -> Vec<i64> {
    uni.iter().cloned().filter(|_| rng.chance(num, den)).collect()
}

fn universe(rng: &mut Rng, class: &str) -> Vec<i64> {
    let mut v: Vec<i64> = match class {
        "dense" => (0..rng.range(1, 12)).collect(),
        "sparse" => (0..rng.range(1, 10)).map(|_| rng.range(-50, 50)).collect(),
        "neg" => (0..rng.range(1, 8)).map(|_| -rng.range(1, 1000)).collect(),
        "edge" => { let e = [i64::MIN, i64::MIN + 1, -1, 0, 1, 255, 256, 65535, 65536, i64::MAX - 2, i64::MAX - 1, i64::MAX];
            (0..rng.range(1, 9)).map(|_| *rng.pick(&e)).collect() }
        _ => (0..rng.range(1, 10)).map(|_| rng.next() as i64).collect(),
    };
    v.sort(); v.dedup();
    v
}

fn gen_vals(rng: &mut Rng, n: usize, op: &str, class: &str) -> Vec<i64> {
    (0..n).map(|_| match (op, class) {
        (_, "null") => if rng.chance(1, 3) { i64::MAX } else { rng.range(-9, 9) },
        ("count", _) => rng.range(0, 40),
        ("sum", "big") => *rng.pick(&[i64::MAX - 1, i64::MAX - 2, 1, 2, -1, 0, i64::MIN, i64::MIN + 1, 1 << 62, -(1 << 62), 3]),
        (_, "big") => *rng.pick(&[i64::MAX - 1, i64::MIN, i64::MIN + 1, 0, -1, 1, i64::MAX]),
        _ => rng.range(-20, 20),
    }).collect()
}

type Part = (Vec<Vec<i64>>, Vec<i64>); // key columns, partial aggregates

/// merge two partial results exactly the way batch_merging::combine wires the operators (i64 keys, ascending).
fn merge_parts(a: &Part, b: &Part, op: &str) -> Result<Part, String> {
    let nk = a.0.len();
    let (a, b, op) = (a.clone(), b.clone(), op.to_string());
    let r = guard(move || -> Result<Part, String> {
        let (keys, ops): (Vec<Vec<i64>>, Vec<MergeOp>) = if nk == 1 {
            let (m, ops) = verif_merge_deduplicate_i64(&a.0[0], &b.0[0]);
            (vec![m], ops)
        } else {
            let mut p = verif_partition_i64(&a.0[0], &b.0[0], usize::MAX, false);
            for i in 1..nk - 1 { p = verif_subpartition_i64(&p, &a.0[i], &b.0[i], false); }
            let (last, ops) = verif_merge_deduplicate_partitioned_i64(&p, &a.0[nk - 1], &b.0[nk - 1]);
            let mut cols = vec![];
            for i in 0..nk - 1 { cols.push(verif_merge_drop_i64(&ops, &a.0[i], &b.0[i])); }
            cols.push(last);
            (cols, ops)
        };
        match verif_merge_aggregate_i64(&ops, &a.1, &b.1, agg_of(&op)) {
            Ok(v) => Ok((keys, v)),
            Err(e) => Err(format!("err:{}", err_kind(&e))),
        }
    });
    match r { Ok(x) => x, Err(_) => Err("panic".into()) }
}

#[derive(Clone, Debug)]
enum Tree { Leaf(usize), Node(Box<Tree>, Box<Tree>) }
impl Tree {
    fn tok(&self) -> String { match self { Tree::Leaf(i) => i.to_string(), Tree::Node(l, r) => format!("({}{})", l.tok(), r.tok()) } }
    fn eval(&self, parts: &[Part], op: &str) -> Result<Part, String> {
        match self { Tree::Leaf(i) => Ok(parts[*i].clone()), Tree::Node(l, r) => merge_parts(&l.eval(parts, op)?, &r.eval(parts, op)?, op) }
    }
}
fn all_trees(lo: usize, hi: usize) -> Vec<Tree> {
    if hi - lo == 1 { return vec![Tree::Leaf(lo)]; }
    let mut out = vec![];
    for m in lo + 1..hi { for l in all_trees(lo, m) { for r in all_trees(m, hi) { out.push(Tree::Node(Box::new(l.clone()), Box::new(r))); } } }
    out
}

fn part_tok(p: &Part) -> String {
    format!("k:{} v:{}", p.0.iter().map(|c| ints_tok(c)).collect::<Vec<_>>().join("|"), ints_tok(&p.1))
}

// ------------------------------------------------------------------------------------------------
// unit stream

fn unit_stream(rng: &mut Rng, cases: &mut Cases, thorough: bool) {
    let classes = ["dense", "sparse", "neg", "edge", "rand"];
    let ops = ["sum", "count", "max", "min"];
    let rounds = if thorough { 2500 } else { 500 };
    // 1. merge_deduplicate / merge_drop on arbitrary (also unsorted / duplicate-carrying) vectors: model must agree everywhere
    for i in 0..rounds {
        let class = classes[i % classes.len()];
        let uni = universe(rng, class);
        let (mut l, mut r) = (subset(rng, &uni, 2, 3), subset(rng, &uni, 2, 3));
        let sorted = !rng.chance(1, 6);
        if !sorted {
            // outside the domain of the theorems: duplicates / disorder (the model still has to mirror the code)
            if !l.is_empty() && rng.chance(1, 2) { let x = l[rng.below(l.len() as u64) as usize]; l.push(x); }
            if !r.is_empty() { let k = rng.below(r.len() as u64) as usize; r.swap(0, k); }
        }
        let (l2, r2) = (l.clone(), r.clone());
        let out = guard(move || verif_merge_deduplicate_i64(&l2, &r2));
        let imp = match &out { Ok((k, o)) => format!("k:{} o:{}", ints_tok(k), ops_tok(o)), Err(_) => "panic".into() };
        cases.push(&format!("unit:dedup:{}:{}", class, if sorted { "strict" } else { "any" }), &format!("dedup {} {} {}", ints_tok(&l), ints_tok(&r), imp), &imp, "");
        if let Ok((_, o)) = &out {
            // replay on a second column
            let cl: Vec<i64> = (0..l.len()).map(|_| rng.range(-5, 5)).collect();
            let cr: Vec<i64> = (0..r.len()).map(|_| rng.range(-5, 5)).collect();
            let (o2, cl2, cr2) = (o.clone(), cl.clone(), cr.clone());
            let d = guard(move || verif_merge_drop_i64(&o2, &cl2, &cr2));
            let imp = match d { Ok(c) => format!("c:{}", ints_tok(&c)), Err(_) => "panic".into() };
            cases.push(&format!("unit:drop:{}", class), &format!("mdrop {} {} {} {}", ints_tok(&l), ints_tok(&r), ints_tok(&cl), ints_tok(&cr)), &imp, "");
        }
    }
    if thorough {
        // bounded-exhaustive: every pair of strictly ascending subsets of {0,1,2,3,MAX} (dedup), and every bracketing of every
        // triple of subsets of {0,1,2} with sum values at the overflow / sentinel edges
        let base = [0i64, 1, 2, 3, i64::MAX];
        for a in 0u32..32 { for b in 0u32..32 {
            let l: Vec<i64> = (0..5).filter(|i| a >> i & 1 == 1).map(|i| base[i]).collect();
            let r: Vec<i64> = (0..5).filter(|i| b >> i & 1 == 1).map(|i| base[i]).collect();
            let (l2, r2) = (l.clone(), r.clone());
            let out = guard(move || verif_merge_deduplicate_i64(&l2, &r2));
            let imp = match &out { Ok((k, o)) => format!("k:{} o:{}", ints_tok(k), ops_tok(o)), Err(_) => "panic".into() };
            cases.push("unit:dedup:exhaustive", &format!("dedup {} {} {}", ints_tok(&l), ints_tok(&r), imp), &imp, "");
        } }
        for op in ops {
          // partial counts are small and non-negative (a count near i64::MAX cannot arise); the others probe the overflow / sentinel edge
          let vals = if op == "count" { [1i64, 2, 0] } else { [1i64, i64::MAX - 1, -5] };
          for a in 1u32..8 { for b in 1u32..8 { for c in 1u32..8 {
            let mk = |m: u32, shift: usize| -> Part { let ks: Vec<i64> = (0..3).filter(|i| m >> i & 1 == 1).map(|i| i as i64).collect();
                let vs = ks.iter().map(|k| vals[(*k as usize + shift) % 3]).collect(); (vec![ks], vs) };
            let parts = vec![mk(a, 0), mk(b, 1), mk(c, 2)];
            for t in all_trees(0, 3) { push_tree_case(cases, &format!("unit:tree:exhaustive:{}", op), 1, op, &parts, &t); }
        } } } }
    }
    // 2. partition / subpartition / merge_deduplicate_partitioned step functions on two- and three-column keys
    for i in 0..rounds {
        let nk = 2 + (i % 2);
        let (a, b) = (gen_part(rng, nk, "count", "small"), gen_part(rng, nk, "count", "small"));
        let (a0, b0) = (a.0[0].clone(), b.0[0].clone());
        let limit = if rng.chance(1, 5) { rng.below(6) as usize } else { usize::MAX };
        let p = guard(move || verif_partition_i64(&a0, &b0, limit, false));
        let imp = match &p { Ok(p) => format!("p:{}", pre_tok(p)), Err(_) => "panic".into() };
        cases.push(&format!("unit:partition:{}", if limit == usize::MAX { "nolimit" } else { "limit" }), &format!("part {} {} {} {}", if limit == usize::MAX { "_".to_string() } else { limit.to_string() }, ints_tok(&a.0[0]), ints_tok(&b.0[0]), imp), &imp, "");
        if limit != usize::MAX { continue; }
        if let Ok(p) = p {
            let (p2, a1, b1) = (p.clone(), a.0[1].clone(), b.0[1].clone());
            if nk == 3 {
                let sp = guard(move || verif_subpartition_i64(&p2, &a1, &b1, false));
                let imp = match &sp { Ok(p) => format!("p:{}", pre_tok(p)), Err(_) => "panic".into() };
                cases.push("unit:subpartition", &format!("subpart {} {} {}", pre_tok(&p), ints_tok(&a.0[1]), ints_tok(&b.0[1])), &imp, "");
                if let Ok(sp) = sp {
                    let (sp2, a2, b2) = (sp.clone(), a.0[2].clone(), b.0[2].clone());
                    let m = guard(move || verif_merge_deduplicate_partitioned_i64(&sp2, &a2, &b2));
                    let imp = match &m { Ok((k, o)) => format!("k:{} o:{}", ints_tok(k), ops_tok(o)), Err(_) => "panic".into() };
                    cases.push("unit:dedup-partitioned:3", &format!("mdp {} {} {}", pre_tok(&sp), ints_tok(&a.0[2]), ints_tok(&b.0[2])), &imp, "");
                }
            } else {
                let m = guard(move || verif_merge_deduplicate_partitioned_i64(&p2, &a1, &b1));
                let imp = match &m { Ok((k, o)) => format!("k:{} o:{}", ints_tok(k), ops_tok(o)), Err(_) => "panic".into() };
                cases.push("unit:dedup-partitioned:2", &format!("mdp {} {} {}", pre_tok(&p), ints_tok(&a.0[1]), ints_tok(&b.0[1])), &imp, "");
            }
        }
    }
    // 3. whole merges along explicit trees: 2..4 partial results, 1..3 key columns, every aggregator
    let witness: Vec<(usize, &str, &str, Vec<Part>)> = vec![
        // sum-sentinel (DESIGN §8 #16): partial SUM = i64::MAX is taken for NULL by the next merge
        (1, "sum", "corpus:sum-sentinel", vec![(vec![vec![0]], vec![i64::MAX - 1]), (vec![vec![0]], vec![1]), (vec![vec![0]], vec![0])]),
        (1, "sum", "corpus:sum-sentinel", vec![(vec![vec![3, 7]], vec![5, i64::MAX - 3]), (vec![vec![7]], vec![3]), (vec![vec![1, 7]], vec![2, -4])]),
    ];
    for (nk, op, class, parts) in witness {
        for t in all_trees(0, parts.len()) { push_tree_case(cases, class, nk, op, &parts, &t); }
    }
    for i in 0..rounds {
        let nk = 1 + (i % 3);
        let op = ops[(i / 3) % 4];
        let np = 2 + rng.below(3) as usize;
        let vclass = *rng.pick(&["small", "small", "big", "null"]);
        let parts: Vec<Part> = (0..np).map(|_| gen_part(rng, nk, op, vclass)).collect();
        let trees = all_trees(0, np);
        let t = rng.pick(&trees).clone();
        push_tree_case(cases, &format!("unit:tree:k{}:{}:{}:p{}", nk, op, vclass, np), nk, op, &parts, &t);
    }
}

fn push_tree_case(cases: &mut Cases, class: &str, nk: usize, op: &str, parts: &[Part], t: &Tree) {
    let imp = match t.eval(parts, op) { Ok(p) => part_tok(&p), Err(e) => e };
    let ptoks: Vec<String> = parts.iter().map(|p| format!("{} {}", p.0.iter().map(|c| ints_tok(c)).collect::<Vec<_>>().join("|"), ints_tok(&p.1))).collect();
    cases.push(class, &format!("mtree {} {} {} {} {} | {}", op, nk, t.tok(), parts.len(), ptoks.join(" "), imp), &imp, "");
}

/// a partial result: lexicographically strictly ascending key rows (nk columns) + one partial aggregate per row
fn gen_part(rng: &mut Rng, nk: usize, op: &str, vclass: &str) -> Part {
    let n = rng.below(7) as usize;
    let mut rows: Vec<Vec<i64>> = (0..n).map(|_| (0..nk).map(|c| if nk == 1 && rng.chance(1, 10) { *rng.pick(&[i64::MIN, i64::MAX - 1, 1 << 40]) } else { rng.range(0, if c == 0 { 3 } else { 2 }) * if rng.chance(1, 8) { -1 } else { 1 } }).collect()).collect();
    rows.sort(); rows.dedup();
    let cols: Vec<Vec<i64>> = (0..nk).map(|c| rows.iter().map(|r| r[c]).collect()).collect();
    let vals = gen_vals(rng, rows.len(), op, vclass);
    (cols, vals)
}

// ------------------------------------------------------------------------------------------------
// api stream

#[derive(Clone, Debug)]
enum Sel { Key(usize), Count1, Agg(char, usize) } // c count, s sum, m min, M max, a avg

impl Sel {
    fn sql(&self, names: &[String]) -> String {
        match self {
            Sel::Key(i) => names[*i].clone(),
            Sel::Count1 => "COUNT(1)".into(),
            Sel::Agg(f, i) => format!("{}({})", match f { 'c' => "COUNT", 's' => "SUM", 'm' => "MIN", 'M' => "MAX", _ => "AVG" }, names[*i]),
        }
    }
    fn tok(&self) -> String {
        match self { Sel::Key(i) => format!("g{}", i), Sel::Count1 => "n".into(), Sel::Agg(f, i) => format!("{}{}", f, i) }
    }
}

struct KeyCol { class: &'static str, cells: Vec<Cell> }

fn gen_key_col(rng: &mut Rng, n: usize) -> (ColType, KeyCol) {
    let pick = rng.below(24);
    let (t, class, mut cells): (ColType, &'static str, Vec<Cell>) = match pick {
        0..=3 | 10 | 20..=23 => { let lo = *rng.pick(&[0i64, 0, 1, -3, 250, 1000, -70000, 1 << 33]); let k = rng.range(1, 6);
            (ColType::Int("small"), "int:small", (0..n).map(|_| Cell::Int(lo + rng.range(0, k))).collect()) }
        4 => { // encoded range exactly around the 2^16 switch between array and hash aggregation
            let hi = *rng.pick(&[65534i64, 65535, 65536, 65537]); let lo = *rng.pick(&[0i64, 0, 1, -1]);
            (ColType::Int("edge16"), "int:edge16", (0..n).map(|i| Cell::Int(match i { 0 => lo, 1 => lo + hi, _ => lo + *rng.pick(&[0, 1, 2, hi - 1, hi]) })).collect()) }
        5 => { let lo = rng.range(-1_000_000, 1_000_000); let k = rng.range(2, 5);
            (ColType::Int("wide"), "int:wide", (0..n).map(|_| Cell::Int(lo + rng.range(0, k) * 100_000)).collect()) }
        6 => (ColType::Int("big"), "int:big", (0..n).map(|_| Cell::Int(*rng.pick(&[i64::MIN + 1, -1, 0, 1, 5, i64::MAX - 1, 1 << 62]))).collect()),
        7 => (ColType::Int("half"), "int:half", (0..n).map(|_| Cell::Int(*rng.pick(&[0i64, 1, 1 << 62, (1 << 62) + 1]))).collect()),
        8 => (ColType::Int("const"), "int:const", { let c = rng.range(-2, 300); vec![Cell::Int(c); n] }),
        9 => { let mut x = rng.range(-5, 5); (ColType::Int("mono"), "int:mono", (0..n).map(|_| { x += rng.range(0, 2); Cell::Int(x) }).collect()) }
        11..=14 => { let k = 1 + rng.below(4) as usize; let pool: Vec<&str> = (0..k).map(|_| *rng.pick(STR_POOL)).collect();
            (ColType::Str("lowcard"), "str:lowcard", (0..n).map(|_| Cell::Str(rng.pick(&pool).to_string())).collect()) }
        15 => (ColType::Str("highcard"), "str:highcard", gen_strs(rng, n, "highcard").into_iter().map(Cell::Str).collect()),
        16 => (ColType::Str("hex"), "str:hex", { let pool: Vec<String> = (0..3).map(|_| format!("{:016x}", rng.next())).collect(); (0..n).map(|_| Cell::Str(rng.pick(&pool).clone())).collect() }),
        _ => { let k = rng.range(1, 5); (ColType::Float("dyadic"), "float:dyadic", (0..n).map(|_| Cell::f(rng.range(0, k) as f64 * 0.25 - 0.5)).collect()) }
    };
    // nullable keys: one column in four (float keys one in ten: they only reach the nullable-float-key error value)
    let p = if matches!(t, ColType::Float(_)) { 10 } else { 4 };
    if rng.chance(1, p) { let mask = gen_null_mask(rng, n); cells = apply_nulls(cells, &mask); }
    (t, KeyCol { class, cells })
}

fn gen_val_col(rng: &mut Rng, n: usize) -> (ColType, &'static str, Vec<Cell>) {
    let (t, class, mut cells): (ColType, &'static str, Vec<Cell>) = match rng.below(12) {
        0..=3 => (ColType::Int("small"), "int:small", (0..n).map(|_| Cell::Int(rng.range(-9, 9))).collect()),
        4 => (ColType::Int("u8"), "int:u8", (0..n).map(|_| Cell::Int(rng.range(0, 255))).collect()),
        5 => (ColType::Int("u32off"), "int:u32off", { let o = -rng.range(1, 1_000_000_000); (0..n).map(|_| Cell::Int(o + rng.range(0, u32::MAX as i64))).collect() }),
        6 => (ColType::Int("i64"), "int:i64", (0..n).map(|_| Cell::Int((rng.next() as i64) >> 2)).collect()),
        7 => (ColType::Int("huge"), "int:huge", (0..n).map(|_| Cell::Int(*rng.pick(&[i64::MAX - 1, i64::MAX - 2, 1, 0, -1, i64::MIN + 2, i64::MIN + 1, 1 << 62, -(1 << 62)]))).collect()),
        8 => { let mut x = rng.range(-100, 100); (ColType::Int("mono"), "int:mono", (0..n).map(|_| { x += rng.range(0, 30); Cell::Int(x) }).collect()) }
        9 => (ColType::Float("inf"), "float:inf", (0..n).map(|_| Cell::f(*rng.pick(&[f64::INFINITY, f64::NEG_INFINITY, 0.5, -2.25, 1e300]))).collect()),
        _ => (ColType::Float("dyadic"), "float:dyadic", gen_floats(rng, n, "dyadic").into_iter().map(Cell::f).collect()),
    };
    if rng.chance(1, 2) { let mask = gen_null_mask(rng, n); cells = apply_nulls(cells, &mask); }
    (t, class, cells)
}

/// What the planner sees of a column in a partition: `A` (absent) or encoding type / range / codec.
fn partition_meta(db: &Arc<LocustDB>, names: &[String]) -> Vec<(usize, usize, Vec<String>)> {
    let inner = db.verif_inner();
    let mut parts = inner.snapshot("t", None).unwrap_or_default();
    parts.sort_by_key(|p| p.range().start);
    let referenced: HashSet<String> = names.iter().cloned().collect();
    let pc = vharness::locustdb::observability::QueryPerfCounter::default();
    parts.iter().map(|p| {
        let cols = p.get_cols(&referenced, inner.disk_read_scheduler(), &pc);
        let metas = names.iter().map(|n| match cols.get(n) {
            None => "A".to_string(),
            Some(c) => {
                let codec = c.codec();
                let ops: Vec<String> = codec.ops().iter().map(|o| format!("{:?}", o).replace(' ', "")).collect();
                format!("{:?}/{}/{}/{}", c.encoding_type(), match c.range() { Some((a, b)) => format!("{}:{}", a, b), None => "-".into() },
                    if ops.is_empty() { "id".to_string() } else { ops.join("+") }, if c.full_type().is_nullable() { 1 } else { 0 })
            }
        }).collect();
        (p.range().start, p.range().end, metas)
    }).collect()
}

/// Run `queries` against table `t` in realisation `r` and emit one case per query.
fn run_table(rng: &mut Rng, cases: &mut Cases, tag: &str, t: &LTable, r: &Realisation, queries: &[(Vec<Sel>, Option<Ex>)]) {
    // ingestion itself can panic on the caller's thread for some integer data (open C01 findings F-C01-*): not C04's subject
    let mut db = match guard(std::panic::AssertUnwindSafe(|| realise(t, r))) { Ok(db) => db, Err(_) => { cases.push("api:skip:ingest-panic", "skip", "skip", &t.type_tag()); return; } };
    let meta = partition_meta(&db, &t.names);
    let bounds_tok = if meta.is_empty() { "[]".to_string() } else { meta.iter().map(|m| format!("{}-{}", m.0, m.1)).collect::<Vec<_>>().join(",") };
    let meta_tok = if meta.is_empty() { "[]".to_string() } else { meta.iter().map(|m| m.2.join("|")).collect::<Vec<_>>().join(";") };
    let ttok = t.tok();
    let _ = rng;
    for (sel, pred) in queries {
        let q = format!("SELECT {} FROM t{}", sel.iter().map(|s| s.sql(&t.names)).collect::<Vec<_>>().join(", "),
            match pred { Some(p) => format!(" WHERE {}", p.sql(&t.names)), None => String::new() });
        let (out, detail) = run_q(&db, &q);
        let imp = out.tok();
        // a worker that panicked is gone for good (C11): continue on a fresh copy of the same physical table
        if matches!(out, QOut::Panic(_) | QOut::Hang) || imp == "err:canceled" { db = realise(t, r); }
        let keys: Vec<usize> = sel.iter().filter_map(|s| if let Sel::Key(k) = s { Some(*k) } else { None }).collect();
        let kclass = if keys.is_empty() { "nokey".to_string() } else { keys.iter().map(|k| match &t.types[*k] {
            ColType::Id => "id".to_string(), ColType::Int(c) => format!("int:{}", c), ColType::Float(c) => format!("float:{}", c), ColType::Str(c) => format!("str:{}", c) }).collect::<Vec<_>>().join("+") };
        let nullable_key = keys.iter().any(|k| t.cols[*k].iter().any(|c| *c == Cell::Null));
        let mut fns: Vec<char> = sel.iter().filter(|s| !matches!(s, Sel::Key(_))).map(|s| s.tok().chars().next().unwrap()).collect();
        fns.sort(); fns.dedup();
        let class = format!("{}:{}{}|{}|p{}{}", tag, kclass, if nullable_key { "?" } else { "" }, fns.iter().collect::<String>(), meta.len(), if pred.is_some() { "|w" } else { "" });
        // signature of a worker panic (part of the observed outcome; two executor defects are classified by it)
        let sig = if detail.contains("Trying to mutably borrow pinned buffer") { "pinned" } else if detail.contains("EmptyVector.cast_ref") { "emptyvec" } else if detail.contains("panicked at") { "other" } else { "-" };
        let line = format!("grp {} {} {} {} {} {}/{} {}", sel.iter().map(|s| s.tok()).collect::<Vec<_>>().join(","),
            match pred { Some(p) => p.rpn(), None => "-".into() }, imp, bounds_tok, meta_tok, phys_tok(r), sig, ttok);
        cases.push(&class, &line, &imp, &format!("{} | {} | {} | {}", q, t.type_tag(), r.tag(), detail));
    }
}

fn fixed_realisation(bounds: Vec<usize>, pref: u64) -> Realisation {
    let nb = bounds.len() - 1;
    Realisation { bounds, flush: vec![true; nb], omit_null_cols: true, combine_factor: 1_000_000_000, mem_lz4: false, batch_size: 1024, threads: 1, pref }
}

fn ints(xs: &[i64]) -> Vec<Cell> { xs.iter().map(|x| Cell::Int(*x)).collect() }
fn opt_ints(xs: &[Option<i64>]) -> Vec<Cell> { xs.iter().map(|x| match x { Some(i) => Cell::Int(*i), None => Cell::Null }).collect() }

/// Past failures: witnesses of the open findings (they must keep failing exactly as classified) and of the defects
/// fixed in /repo (they must keep passing).  Runs first on every check.
fn corpus(rng: &mut Rng, cases: &mut Cases) {
    let table = |cols: Vec<(&str, ColType, Vec<Cell>)>| -> LTable {
        let n = cols[0].2.len();
        LTable { n, names: cols.iter().map(|c| c.0.to_string()).collect(), types: cols.iter().map(|c| c.1.clone()).collect(), cols: cols.into_iter().map(|c| c.2).collect() }
    };
    let key = |i| Sel::Key(i);
    // open: groupby-null-key-order
    let t = table(vec![("id", ColType::Id, ints(&[0, 1, 2, 3])), ("k0", ColType::Int("small"), opt_ints(&[Some(1), None, Some(1), Some(2)]))]);
    run_table(rng, cases, "corpus:groupby-null-key-order", &t, &fixed_realisation(vec![0, 2, 4], 0), &[(vec![key(1), Sel::Count1], None)]);
    let t = table(vec![("id", ColType::Id, ints(&[0, 1, 2, 3, 4])), ("k0", ColType::Int("small"), opt_ints(&[None, Some(5), Some(5), Some(4), None])), ("k1", ColType::Int("small"), ints(&[1, 1, 1, 1, 1])), ("v0", ColType::Int("small"), ints(&[1, 2, 3, 4, 5]))]);
    run_table(rng, cases, "corpus:groupby-null-key-order", &t, &fixed_realisation(vec![0, 2, 5], 0), &[(vec![key(1), key(2), Sel::Agg('s', 3)], None)]);
    // open: sum-sentinel (DESIGN §8 #16)
    let t = table(vec![("id", ColType::Id, ints(&[0, 1, 2])), ("v0", ColType::Int("huge"), ints(&[i64::MAX - 1, 1, -5]))]);
    run_table(rng, cases, "corpus:sum-sentinel", &t, &fixed_realisation(vec![0, 2, 3], 0), &[(vec![Sel::Agg('s', 1)], None), (vec![Sel::Agg('s', 1), Sel::Count1], None)]);
    let t = table(vec![("id", ColType::Id, ints(&[0, 1, 2])), ("v0", ColType::Int("huge"), ints(&[i64::MAX - 1, 1, 0]))]);
    run_table(rng, cases, "corpus:sum-sentinel", &t, &fixed_realisation(vec![0, 2, 3], 0), &[(vec![Sel::Agg('s', 1)], None)]);
    // open: count-null-group
    let t = table(vec![("id", ColType::Id, ints(&[0, 1, 2, 3])), ("k0", ColType::Int("small"), ints(&[1, 1, 2, 3])), ("v0", ColType::Int("small"), opt_ints(&[Some(10), None, None, Some(7)]))]);
    run_table(rng, cases, "corpus:count-null-group", &t, &fixed_realisation(vec![0, 4], 0), &[(vec![key(1), Sel::Agg('c', 2)], None), (vec![key(1), Sel::Agg('a', 2)], None), (vec![key(1), Sel::Agg('s', 2), Sel::Agg('c', 2), Sel::Count1], None)]);
    // open: groupby-absent-column (sub-shape W1: COUNT(c) of an input without data in a partition that keeps rows)
    let t = table(vec![("id", ColType::Id, ints(&[0, 1, 2, 3, 4])), ("k0", ColType::Int("small"), ints(&[1, 2, 1, 3, 4])), ("v0", ColType::Int("small"), opt_ints(&[None, None, None, Some(5), Some(6)]))]);
    run_table(rng, cases, "corpus:groupby-absent-column", &t, &fixed_realisation(vec![0, 3, 5], 0), &[(vec![key(1), Sel::Agg('c', 2)], None), (vec![key(1), Sel::Agg('s', 2)], None), (vec![key(1), Sel::Count1, Sel::Agg('s', 2), Sel::Agg('c', 2)], None)]);
    // open: groupby-nullable-float-key
    let t = table(vec![("id", ColType::Id, ints(&[0, 1, 2])), ("k0", ColType::Float("dyadic"), vec![Cell::f(1.5), Cell::Null, Cell::f(1.5)])]);
    run_table(rng, cases, "corpus:groupby-nullable-float-key", &t, &fixed_realisation(vec![0, 3], 0), &[(vec![key(1), Sel::Count1], None)]);
    // open: groupby-compressed-key-type (pco-compressed u32 key among several grouping columns)
    let wide: Vec<i64> = (0..16).map(|i| 133191 + 100000 * ((i * 7 + 3) % 4)).collect();
    let t = table(vec![("id", ColType::Id, ints(&(0..16).collect::<Vec<i64>>())), ("k0", ColType::Int("wide"), ints(&wide)), ("k1", ColType::Int("small"), ints(&(0..16).map(|i| i % 3).collect::<Vec<i64>>()))]);
    let mut r = fixed_realisation(vec![0, 16], 0); r.mem_lz4 = true;
    run_table(rng, cases, "corpus:groupby-compressed-key-type", &t, &r, &[(vec![key(1), key(2), Sel::Count1], None)]);
    // fixed (186ef0c, by C02): worker panic `Trying to mutably borrow pinned buffer` (stage membership propagated through a shared scalar)
    let t = table(vec![("id", ColType::Id, ints(&[0, 1])), ("k0", ColType::Int("small"), ints(&[0, -1])), ("v0", ColType::Int("small"), opt_ints(&[Some(2), None]))]);
    run_table(rng, cases, "corpus:fixed:executor-pinned-buffer", &t, &fixed_realisation(vec![0, 2], 0), &[(vec![Sel::Agg('M', 2), key(1), Sel::Agg('m', 1), Sel::Count1], None)]);
    let t = table(vec![("id", ColType::Id, ints(&(0..8).collect::<Vec<i64>>())), ("k0", ColType::Int("small"), ints(&[0, -1, -1, -3, 0, -1, 0, -2])), ("v0", ColType::Int("small"), opt_ints(&[Some(2), Some(2), Some(-3), Some(-3), Some(1), Some(9), Some(2), None]))]);
    run_table(rng, cases, "corpus:fixed:executor-pinned-buffer", &t, &fixed_realisation(vec![0, 8], 0), &[(vec![Sel::Agg('M', 2), key(1), Sel::Count1], None)]);
    let t = table(vec![("id", ColType::Id, ints(&[0, 1, 2])), ("k0", ColType::Int("u8off"), ints(&[1000000000000, 1000000000007, 1000000000005]))]);
    run_table(rng, cases, "corpus:fixed:executor-pinned-buffer", &t, &fixed_realisation(vec![0, 3], 0), &[(vec![key(1), Sel::Agg('M', 1)], None)]);
    // fixed in /repo (must pass): range wider than i64 (DESIGN §8 #9), WHERE + several grouping columns (filter applied twice),
    // key = 2^62 (float log2 width), nullable u8 / u16 key containing the type maximum, more than 63 bits of keys
    let t = table(vec![("id", ColType::Id, ints(&[0, 1, 2, 3, 4, 5, 6, 7])), ("k0", ColType::Int("big"), ints(&[i64::MIN + 1, -1, 0, 1, 5, 6, 7, i64::MAX - 1])), ("k1", ColType::Int("small"), ints(&[1, 1, 1, 2, 2, 2, 2, 2]))]);
    run_table(rng, cases, "corpus:fixed:i64-span", &t, &fixed_realisation(vec![0, 8], 0), &[(vec![key(1), Sel::Count1], None), (vec![key(1), key(2), Sel::Count1], None), (vec![key(2), key(1), Sel::Agg('s', 0)], None)]);
    let t = table(vec![("id", ColType::Id, ints(&[0, 1, 2, 3, 4])), ("k0", ColType::Int("small"), ints(&[-4, -2, 0, 0, 1])), ("k1", ColType::Int("small"), ints(&[0, 3, 0, 3, 3])), ("v0", ColType::Int("small"), ints(&[3, -3, 1, -9, -5]))]);
    run_table(rng, cases, "corpus:fixed:filter-twice", &t, &fixed_realisation(vec![0, 5], 0), &[(vec![key(1), key(2), Sel::Agg('M', 3), Sel::Agg('s', 3)], Some(Ex::Cmp(">", Box::new(Ex::Col(1)), Box::new(Ex::Lit(Cell::Int(-4))))))]);
    let t = table(vec![("id", ColType::Id, ints(&[0, 1, 2, 3])), ("k0", ColType::Int("half"), ints(&[1 << 62, 1, 0, (1 << 62) + 1])), ("k1", ColType::Int("small"), ints(&[7, 7, 8, 8]))]);
    run_table(rng, cases, "corpus:fixed:bits-2pow62", &t, &fixed_realisation(vec![0, 4], 0), &[(vec![key(1), key(2), Sel::Count1], None), (vec![key(2), key(1), Sel::Count1], None)]);
    let t = table(vec![("id", ColType::Id, ints(&[0, 1, 2, 3])), ("k0", ColType::Int("u8"), opt_ints(&[Some(0), Some(255), None, Some(254)])), ("k1", ColType::Int("u16"), opt_ints(&[Some(0), Some(65535), None, Some(3)])), ("v0", ColType::Int("small"), ints(&[1, 1, 2, 1]))]);
    run_table(rng, cases, "corpus:fixed:fuse-narrow", &t, &fixed_realisation(vec![0, 4], 0), &[(vec![key(1), Sel::Count1], None), (vec![key(2), Sel::Agg('s', 3)], None), (vec![key(1), key(3), Sel::Count1], None)]);
    // fixed (7c18757): MIN / MAX of a group whose float inputs are all +inf / -inf
    let t = table(vec![("id", ColType::Id, ints(&[0, 1, 2])), ("k0", ColType::Int("small"), ints(&[1, 2, 2])), ("v0", ColType::Float("inf"), vec![Cell::f(f64::INFINITY), Cell::f(f64::NEG_INFINITY), Cell::f(f64::NEG_INFINITY)])]);
    run_table(rng, cases, "corpus:fixed:minmax-float-infinity", &t, &fixed_realisation(vec![0, 3], 0), &[(vec![key(1), Sel::Agg('m', 2), Sel::Agg('M', 2)], None)]);
    // fixed (9a727c6): final pass over two grouping columns that share one result column (both constant 0)
    let t = table(vec![("id", ColType::Id, ints(&[0])), ("k0", ColType::Int("small"), ints(&[0])), ("k1", ColType::Int("small"), ints(&[0])), ("v0", ColType::Int("small"), ints(&[-1]))]);
    run_table(rng, cases, "corpus:fixed:finalpass-alias", &t, &fixed_realisation(vec![0, 1], 0), &[(vec![key(1), key(2), Sel::Agg('a', 3), Sel::Agg('s', 3), Sel::Agg('m', 3)], None)]);
    let t = table(vec![("id", ColType::Id, ints(&[0, 1, 2])), ("k0", ColType::Int("half"), ints(&[1 << 40, 0, 5])), ("k1", ColType::Int("half"), ints(&[1 << 41, 0, 5])), ("k2", ColType::Int("small"), ints(&[1, 0, 5]))]);
    run_table(rng, cases, "corpus:fixed:wide-pack", &t, &fixed_realisation(vec![0, 3], 0), &[(vec![key(1), key(2), key(3), Sel::Count1], None)]);
    // fixed (3cc8efd, b5a9fe3, 5275058, 3044fa3, by C02; finding groupby-valrows-streamed): several grouping columns that go
    // through value rows in ONE partition of at least batch_size rows (stages run chunk by chunk): integer keys came back NULL
    // after the first chunk, every group once per chunk.  C02's witness (70 rows, keys near i64::MIN, batch_size 16) and the
    // older kind (30 distinct strings in 40 rows = packed string column next to an integer key, batch_size 8).
    let n = 70i64;
    let t = table(vec![("id", ColType::Id, ints(&(0..n).collect::<Vec<i64>>())),
        ("k0", ColType::Int("big"), opt_ints(&(0..n).map(|i| if i % 11 == 5 { None } else { Some(i64::MIN + 2582542491 + (i * 7919) % 61) }).collect::<Vec<_>>())),
        ("k1", ColType::Int("const"), opt_ints(&(0..n).map(|i| if i % 9 == 4 { None } else { Some(1) }).collect::<Vec<_>>()))]);
    let mut r = fixed_realisation(vec![0, n as usize], 0); r.batch_size = 16;
    run_table(rng, cases, "corpus:fixed:valrows-streamed", &t, &r, &[(vec![key(2), key(1), Sel::Agg('M', 0)], None), (vec![key(1), key(2), Sel::Count1, Sel::Agg('s', 0)], None)]);
    let n = 40i64;
    let t = table(vec![("id", ColType::Id, ints(&(0..n).collect::<Vec<i64>>())),
        ("k0", ColType::Str("distinct"), (0..n).map(|i| Cell::Str(format!("s{:02}", (i * 7) % 30))).collect()),
        ("k1", ColType::Int("small"), ints(&(0..n).map(|i| i % 3).collect::<Vec<i64>>())),
        ("v0", ColType::Int("small"), ints(&(0..n).map(|i| i - 20).collect::<Vec<i64>>()))]);
    let mut r = fixed_realisation(vec![0, n as usize], 0); r.batch_size = 8;
    run_table(rng, cases, "corpus:fixed:valrows-streamed", &t, &r, &[(vec![key(1), key(2), Sel::Count1, Sel::Agg('s', 3)], None), (vec![key(2), key(1), Sel::Agg('m', 3)], None)]);
}

/// thorough: every split of a 5-row table into 1..3 flushed partitions, for a fixed set of queries
fn api_exhaustive(rng: &mut Rng, cases: &mut Cases) {
    let t = LTable { n: 5, names: vec!["id".into(), "k0".into(), "k1".into(), "v0".into()],
        types: vec![ColType::Id, ColType::Int("small"), ColType::Int("small"), ColType::Int("small")],
        cols: vec![ints(&[0, 1, 2, 3, 4]), ints(&[2, 1, 2, 3, 1]), ints(&[7, 7, 8, 7, 7]), opt_ints(&[Some(4), Some(-1), None, Some(6), Some(2)])] };
    let queries: Vec<(Vec<Sel>, Option<Ex>)> = vec![
        (vec![Sel::Key(1), Sel::Count1, Sel::Agg('s', 3), Sel::Agg('m', 3), Sel::Agg('M', 3)], None),
        (vec![Sel::Key(1), Sel::Key(2), Sel::Agg('s', 3), Sel::Count1], None),
        (vec![Sel::Agg('s', 3), Sel::Agg('M', 1)], None),
        (vec![Sel::Key(2), Sel::Agg('a', 1), Sel::Agg('m', 0)], Some(Ex::Cmp(">", Box::new(Ex::Col(0)), Box::new(Ex::Lit(Cell::Int(0)))))),
    ];
    for a in 0..=5usize { for b in a..=5usize {
        let mut bounds = vec![0, a, b, 5]; bounds.dedup();
        run_table(rng, cases, "api:exhaustive", &t, &fixed_realisation(bounds, (a * 7 + b) as u64), &queries);
    } }
}

/// Directed: a column of the select list WITHOUT DATA in one of 2..3 partitions, in the sub-shapes the engine answers
/// correctly today (they are judged strictly by the specification; only the wrong sub-shapes stay behind the
/// classifier of `groupby-absent-column`): a single integer / string grouping column absent in one partition, two
/// integer grouping columns with one absent (bit-packed, zero-width field), an aggregate input absent — each with
/// every aggregate and with no WHERE / a WHERE that keeps part of that partition / a WHERE that removes it entirely.
fn absent_directed(rng: &mut Rng, cases: &mut Cases) {
    let cmp = |op: &'static str, col: usize, k: i64| Ex::Cmp(op, Box::new(Ex::Col(col)), Box::new(Ex::Lit(Cell::Int(k))));
    for np in 2..=3usize {
        for hole in 0..np {
            for shape in ["key:int", "key:str", "key:wide", "key2", "agg"] {
                // rows per partition 2..4; columns: id, f (0 inside the hole partition, 1 elsewhere), k0, k1, v0, v1 (NULLable)
                let sizes: Vec<usize> = (0..np).map(|_| 2 + rng.below(3) as usize).collect();
                let mut bounds = vec![0usize];
                for sz in &sizes { bounds.push(bounds.last().unwrap() + sz); }
                let n = *bounds.last().unwrap();
                let (lo, hi) = (bounds[hole], bounds[hole + 1]);
                let in_hole = |i: usize| i >= lo && i < hi;
                let pool: Vec<&str> = (0..3).map(|_| *rng.pick(STR_POOL)).collect();
                let base = *rng.pick(&[0i64, 1, -3, 250, 1000]);
                let (k0t, mut k0): (ColType, Vec<Cell>) = match shape {
                    "key:str" => (ColType::Str("lowcard"), (0..n).map(|_| Cell::Str(rng.pick(&pool).to_string())).collect()),
                    "key:wide" => (ColType::Int("wide"), (0..n).map(|_| Cell::Int(base + rng.range(0, 3) * 100_000)).collect()),
                    _ => (ColType::Int("small"), (0..n).map(|_| Cell::Int(base + rng.range(0, 3))).collect()),
                };
                let k1: Vec<Cell> = (0..n).map(|_| Cell::Int(rng.range(0, 2))).collect();
                let mut v0: Vec<Cell> = (0..n).map(|_| Cell::Int(rng.range(-9, 30))).collect();
                let v1: Vec<Cell> = (0..n).map(|i| if i % 3 == 1 { Cell::Null } else { Cell::Int(rng.range(-9, 9)) }).collect();
                // the hole: the column is entirely NULL there and therefore omitted from that batch
                for i in lo..hi { if shape == "agg" { v0[i] = Cell::Null; } else { k0[i] = Cell::Null; } }
                let t = LTable { n, names: ["id", "f", "k0", "k1", "v0", "v1"].iter().map(|s| s.to_string()).collect(),
                    types: vec![ColType::Id, ColType::Int("small"), k0t, ColType::Int("small"), ColType::Int("small"), ColType::Int("small")],
                    cols: vec![(0..n as i64).map(Cell::Int).collect(), (0..n).map(|i| Cell::Int(if in_hole(i) { 0 } else { 1 })).collect(), k0, k1, v0, v1] };
                let keys: Vec<Sel> = if shape == "key2" { if rng.chance(1, 2) { vec![Sel::Key(2), Sel::Key(3)] } else { vec![Sel::Key(3), Sel::Key(2)] } } else { vec![Sel::Key(2)] };
                // COUNT(c) / AVG(c) of the absent input is the wrong sub-shape W1: not part of the directed correct region
                let agg_lists: Vec<Vec<Sel>> = if shape == "agg" {
                    vec![vec![Sel::Agg('s', 4)], vec![Sel::Agg('m', 4)], vec![Sel::Agg('M', 4)], vec![Sel::Count1, Sel::Agg('s', 4)], vec![Sel::Agg('M', 4), Sel::Agg('s', 5)]]
                } else {
                    vec![vec![Sel::Count1], vec![Sel::Agg('c', 4)], vec![Sel::Agg('s', 4)], vec![Sel::Agg('m', 4)], vec![Sel::Agg('M', 4)], vec![Sel::Agg('a', 4)],
                         vec![Sel::Count1, Sel::Agg('s', 4)], vec![Sel::Agg('c', 4), Sel::Agg('M', 4), Sel::Count1], vec![Sel::Agg('s', 5), Sel::Count1]]
                };
                let wheres: Vec<(&str, Option<Ex>)> = vec![("w0", None), ("wpart", Some(cmp("<>", 0, lo as i64))), ("wpart2", Some(cmp(if hole == 0 { ">" } else { "<" }, 0, if hole == 0 { lo as i64 } else { hi as i64 - 1 }))), ("wfull", Some(cmp(">", 1, 0)))];
                let mut r = fixed_realisation(bounds.clone(), rng.next());
                r.threads = *rng.pick(&[1usize, 2]);
                for (wn, w) in wheres {
                    let queries: Vec<(Vec<Sel>, Option<Ex>)> = agg_lists.iter().map(|a| { let mut s = keys.clone(); s.extend(a.iter().cloned()); (s, w.clone()) }).collect();
                    run_table(rng, cases, &format!("api:absent-directed:{}:hole{}of{}:{}", shape, hole, np, wn), &t, &r, &queries);
                }
            }
        }
    }
}

fn api_stream(rng: &mut Rng, cases: &mut Cases, thorough: bool) {
    corpus(rng, cases);
    absent_directed(rng, cases);
    if thorough { api_exhaustive(rng, cases); }
    let (tables, per_table) = if thorough { (260, 10) } else { (70, 8) };
    for ti in 0..tables {
        // "clean": every column present in every partition; "absent": some column entirely NULL (=> omitted) in a partition
        let mode = if ti % 8 == 7 { "absent" } else { "clean" };
        let n = *rng.pick(&[1usize, 2, 3, 5, 8, 9, 16, 17, 33, 40]);
        let nkeys = 1 + rng.below(3) as usize;
        let nvals = 1 + rng.below(2) as usize;
        let mut names = vec!["id".to_string()];
        let mut types = vec![ColType::Id];
        let mut cols = vec![(0..n as i64).map(Cell::Int).collect::<Vec<_>>()];
        for k in 0..nkeys { let (t, kc) = gen_key_col(rng, n); names.push(format!("k{}", k)); types.push(t); cols.push(kc.cells); }
        for v in 0..nvals { let (t, _c, cells) = gen_val_col(rng, n); names.push(format!("v{}", v)); types.push(t); cols.push(cells); }
        // physical realisation: 1..4 partitions, never compacted (compaction belongs to C07)
        let mut r = gen_realisation(rng, n, false);
        r.combine_factor = 1_000_000_000;
        r.mem_lz4 = rng.chance(1, 4);
        r.omit_null_cols = true;
        if mode == "absent" {
            for c in 1..cols.len() {
                if rng.chance(1, 2) {
                    let b = rng.below((r.bounds.len() - 1) as u64) as usize;
                    for i in r.bounds[b]..r.bounds[b + 1] { cols[c][i] = Cell::Null; }
                }
            }
        } else {
            // keep at least one non-NULL cell of every column in every (non-empty) batch
            for c in 1..cols.len() {
                for b in 0..r.bounds.len() - 1 {
                    let (s, e) = (r.bounds[b], r.bounds[b + 1]);
                    if e > s && cols[c][s..e].iter().all(|x| *x == Cell::Null) {
                        let donor = cols[c].iter().find(|x| **x != Cell::Null).cloned().unwrap_or(match &types[c] { ColType::Float(_) => Cell::f(0.5), ColType::Str(_) => Cell::Str("a".into()), _ => Cell::Int(1) });
                        cols[c][s] = donor;
                    }
                }
            }
        }
        let t = LTable { n, names: names.clone(), types, cols };
        let mut queries = vec![];
        for _ in 0..per_table {
            // select list: 0..nkeys grouping columns (a random sub-sequence, sometimes permuted) + 1..3 aggregates
            let mut keys: Vec<usize> = (1..=nkeys).filter(|_| rng.chance(2, 3)).collect();
            if rng.chance(1, 6) { keys.reverse(); }
            let mut sel: Vec<Sel> = keys.iter().map(|k| Sel::Key(*k)).collect();
            let naggs = 1 + rng.below(3) as usize;
            for _ in 0..naggs {
                let vc = 1 + nkeys + rng.below(nvals as u64) as usize;
                let is_float = matches!(t.types[vc], ColType::Float(_));
                let f = *rng.pick(&['n', 'c', 's', 's', 'm', 'M', 'a']);
                // AVG over floats: worker panic (DESIGN §8 #24), owned by C12 — not generated here
                let item = match f { 'n' => Sel::Count1, 'a' if is_float => Sel::Agg('s', vc), f => Sel::Agg(f, vc) };
                if rng.chance(1, 5) && !sel.is_empty() { let pos = rng.below(sel.len() as u64 + 1) as usize; sel.insert(pos, item); } else { sel.push(item); }
            }
            let pred = if rng.chance(1, 3) { Some(gen_where(rng, &t)) } else { None };
            queries.push((sel, pred));
        }
        run_table(rng, cases, &format!("api:{}", mode), &t, &r, &queries);
    }
}

/// everything needed to rebuild the physical table from the case line: batch bounds, flush flags, representation seed
fn phys_tok(r: &Realisation) -> String {
    format!("{}/{}/{}/{}/{}/{}/{}", fmt_list(&r.bounds), r.flush.iter().map(|b| if *b { '1' } else { '0' }).collect::<String>(), r.pref, r.omit_null_cols as u8, r.mem_lz4 as u8, r.batch_size, r.threads)
}

fn parse_cell_tok(s: &str) -> Cell {
    if s == "_" { Cell::Null } else if let Some(i) = s.strip_prefix('i') { Cell::Int(i.parse().unwrap()) }
    else if let Some(f) = s.strip_prefix('f') { Cell::Float(u64::from_str_radix(f, 16).unwrap()) }
    else { Cell::Str(String::from_utf8(hex::decode(&s[1..]).unwrap()).unwrap()) }
}

/// `c04 replay '<grp line>'`: rebuild the table of a case, run its query with explain, print everything.
fn replay_line(line: &str) {
    let toks: Vec<&str> = line.split(' ').collect();
    assert!(toks[0] == "grp", "only grp lines can be replayed");
    let ph: Vec<&str> = toks[6].split('/').collect();
    let r = Realisation { bounds: ph[0].split(',').map(|x| x.parse().unwrap()).collect(), flush: ph[1].chars().map(|c| c == '1').collect(),
        pref: ph[2].parse().unwrap(), omit_null_cols: ph[3] == "1", combine_factor: 1_000_000_000, mem_lz4: ph[4] == "1", batch_size: ph[5].parse().unwrap(), threads: ph[6].parse().unwrap() };
    let ncols: usize = toks[7].parse().unwrap();
    let cols: Vec<Vec<Cell>> = toks[8..8 + ncols].iter().map(|c| if *c == "[]" { vec![] } else { c.split(',').map(parse_cell_tok).collect() }).collect();
    let names: Vec<String> = (0..ncols).map(|i| format!("c{}", i)).collect();
    let t = LTable { n: cols[0].len(), names: names.clone(), types: vec![ColType::Id; ncols], cols };
    let sel: Vec<String> = toks[1].split(',').map(|s| { let (f, c) = s.split_at(1); match f { "g" => format!("c{}", c), "n" => "COUNT(1)".into(), "c" => format!("COUNT(c{})", c), "s" => format!("SUM(c{})", c), "m" => format!("MIN(c{})", c), "M" => format!("MAX(c{})", c), _ => format!("AVG(c{})", c) } }).collect();
    let wh = std::env::var("C04_WHERE").map(|w| format!(" WHERE {}", w)).unwrap_or_default();
    if toks[2] != "-" && wh.is_empty() { println!("note: the WHERE clause (rpn {}) must be supplied as SQL over c<i> in $C04_WHERE", toks[2]); }
    let q = format!("SELECT {} FROM t{}", sel.join(", "), wh);
    let db = realise(&t, &r);
    println!("query: {}\nrealisation: {}", q, r.tag());
    for (a, b, m) in partition_meta(&db, &names) { println!("partition {}..{}: {}", a, b, m.join(" ")); }
    let db2 = db.clone(); let q2 = q.clone();
    match with_deadline(10, move || futures::executor::block_on(db2.run_query(&q2, true, true, vec![]))) {
        None => println!("HANG"),
        Some(Err(p)) => println!("PANIC {}", p),
        Some(Ok(Err(e))) => println!("ERR {}", format!("{:?}", e).chars().take(400).collect::<String>()),
        Some(Ok(Ok(o))) => { println!("rows {:?}", o.rows); for (p, n) in o.query_plans { println!("{} x {}", n, p); } }
    }
}

/// like `vharness::query` but keeps the error text for the note and uses a short deadline
fn run_q(db: &Arc<LocustDB>, sql: &str) -> (QOut, String) {
    let db2 = db.clone();
    let sql2 = sql.to_string();
    LAST_PANIC.lock().unwrap().clear();
    let r = with_deadline(8, move || futures::executor::block_on(db2.run_query(&sql2, false, true, vec![])));
    let last = LAST_PANIC.lock().unwrap().clone();
    match r {
        None => (QOut::Hang, last),
        Some(Ok(Err(e))) if err_kind(&e) == "canceled" => (QOut::Err("canceled".into()), last),
        Some(Err(p)) => { let d = p.replace(['\t', '\n'], " "); (QOut::Panic(p), d.chars().take(200).collect()) }
        Some(Ok(Err(e))) => (QOut::Err(err_kind(&e).to_string()), format!("{:?}", e).replace(['\t', '\n'], " ").chars().take(200).collect()),
        Some(Ok(Ok(o))) => (convert_output(&o), String::new()),
    }
}

/// WHERE clauses restricted to the atoms C03 shows to be evaluated correctly (integer column vs. small constant,
/// string equality with a member, IS [NOT] NULL): C04 is about grouping, not about predicate evaluation.
fn gen_where(rng: &mut Rng, t: &LTable) -> Ex {
    let int_cols: Vec<usize> = (0..t.cols.len()).filter(|i| matches!(t.types[*i], ColType::Id | ColType::Int("small") | ColType::Int("u8") | ColType::Int("const"))
        && t.cols[*i].iter().all(|c| *c != Cell::Null)).collect();
    let col = *rng.pick(&int_cols);
    let vals: Vec<i64> = t.cols[col].iter().filter_map(|c| if let Cell::Int(i) = c { Some(*i) } else { None }).collect();
    let k = if vals.is_empty() { 0 } else { *rng.pick(&vals) + rng.range(-1, 1) };
    match rng.below(10) {
        0 => Ex::NotNull(Box::new(Ex::Col(col))),
        _ => Ex::Cmp(*rng.pick(CMP_OPS), Box::new(Ex::Col(col)), Box::new(Ex::Lit(Cell::Int(k)))),
    }
}

static LAST_PANIC: std::sync::Mutex<String> = std::sync::Mutex::new(String::new());

fn main() {
    let args = parse_args();
    // panics are captured and classified; remember the last message (worker threads included) for the case note
    std::panic::set_hook(Box::new(|info| {
        let msg = format!("{}", info).replace(['\t', '\n'], " ");
        if let Ok(mut g) = LAST_PANIC.lock() { *g = msg.chars().take(220).collect(); }
    }));
    let mut rng = Rng::new(args.seed);
    let mut cases = Cases::create(&args.out);
    let only = args.rest.first().cloned();
    if only.as_deref() == Some("replay") { std::panic::set_hook(Box::new(|i| eprintln!("{}", i))); replay_line(&args.rest[1]); return; }
    if only.as_deref() != Some("api") { unit_stream(&mut rng.fork(), &mut cases, args.thorough()); }
    if only.as_deref() != Some("unit") { api_stream(&mut rng.fork(), &mut cases, args.thorough()); }
    cases.finish();
}
