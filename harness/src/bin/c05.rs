//! C05: ORDER BY, LIMIT and OFFSET return the right rows in the right order.
//!
//! Two streams.
//!  unit: the pure step functions of the merge of sorted partial results (merge, merge_keep, partition, subpartition,
//!        merge_partitioned) and the top-n heap step (heap_replace) through the `verif` hook wrappers, plus the whole
//!        multi-key wiring of batch_merging::combine's sort branch (`mk`); the Lean model (Query/Order.lean) must
//!        reproduce every output, the Lean specification judges it.
//!  api:  `SELECT id, k.. FROM t [WHERE ..] [ORDER BY k.. [ASC|DESC]] [LIMIT n] [OFFSET m]` on generated tables in several
//!        physical realisations (1..4 partitions, never compacted: compaction belongs to C07); the Lean judge decides
//!        whether the rows are rows m+1..m+n of a sorted arrangement, the Lean model predicts the exact rows whenever
//!        the engine's answer is determined (top-n breaks ties arbitrarily).
//! Every model line ends with the implementation's output (the specification is a relation).
use std::sync::Arc;
use vharness::locustdb::verif::engine::operators::verif_ops::*;
use vharness::locustdb::verif::engine::Premerge;
use vharness::locustdb::LocustDB;
use vharness::qcommon::*;
use vharness::*;

// ------------------------------------------------------------------------------------------------
// helpers

fn ints_tok(xs: &[i64]) -> String { fmt_list(xs) }
fn u8s_tok(xs: &[u8]) -> String { fmt_list(xs) }
fn usz_tok(xs: &[usize]) -> String { fmt_list(xs) }
fn pre_tok(p: &[Premerge]) -> String {
    if p.is_empty() { return "[]".into(); }
    p.iter().map(|x| format!("{}:{}", x.left, x.right)).collect::<Vec<_>>().join(",")
}
fn dir_tok(desc: bool) -> &'static str { if desc { "d" } else { "a" } }

fn guard<T, F: FnOnce() -> T + std::panic::UnwindSafe>(f: F) -> Result<T, String> {
    std::panic::catch_unwind(f).map_err(panic_msg)
}

fn sort_dir(v: &mut Vec<i64>, desc: bool) { v.sort(); if desc { v.reverse(); } }

const VAL_CLASSES: &[&str] = &["ties", "ties", "distinct", "edge", "wide"];

fn gen_sorted(rng: &mut Rng, class: &str, max_len: u64, desc: bool) -> Vec<i64> {
    let n = rng.below(max_len + 1) as usize;
    let mut v: Vec<i64> = match class {
        "ties" => (0..n).map(|_| rng.range(0, 3)).collect(),
        "distinct" => { let mut s: Vec<i64> = (0..n).map(|_| rng.range(-30, 30)).collect(); s.sort(); s.dedup(); s }
        "edge" => { let e = [i64::MIN, i64::MIN + 1, -1, 0, 1, i64::MAX - 1, i64::MAX]; (0..n).map(|_| *rng.pick(&e)).collect() }
        _ => (0..n).map(|_| rng.next() as i64).collect(),
    };
    sort_dir(&mut v, desc);
    v
}

fn limits_for(rng: &mut Rng, total: usize) -> usize {
    match rng.below(8) {
        0 => 0, 1 => 1, 2 => total / 2, 3 => total.saturating_sub(1), 4 => total, 5 => total + 1, 6 => total + 2,
        _ => rng.below(total as u64 + 3) as usize,
    }
}

// ------------------------------------------------------------------------------------------------
// unit stream

fn unit_merge(cases: &mut Cases, l: &[i64], r: &[i64], limit: usize, desc: bool, tag: &str) {
    let (l2, r2) = (l.to_vec(), r.to_vec());
    let out = guard(move || verif_merge_i64(&l2, &r2, limit, desc));
    let impl_tok = match &out { Ok((m, o)) => format!("{}|{}", ints_tok(m), u8s_tok(o)), Err(_) => "panic".into() };
    let lim_class = if limit == 0 { "0" } else if limit < l.len() + r.len() { "cut" } else { "all" };
    cases.push(&format!("unit:merge:{}:{}:{}", dir_tok(desc), lim_class, tag),
        &format!("merge {} {} {} {} {}", dir_tok(desc), ints_tok(l), ints_tok(r), limit, impl_tok), &impl_tok, "");
    if let Ok((m, ops)) = out {
        // merge_keep replays the flags on the key columns themselves
        let (o2, l2, r2) = (ops.clone(), l.to_vec(), r.to_vec());
        let kept = guard(move || verif_merge_keep_i64(&o2, &l2, &r2));
        let k_tok = match &kept { Ok(v) => ints_tok(v), Err(_) => "panic".into() };
        cases.push(&format!("unit:mkeep:replay:{}", if kept.as_ref().ok() == Some(&m) { "same" } else { "DIFF" }),
            &format!("mkeep {} {} {} {}", u8s_tok(&ops), ints_tok(l), ints_tok(r), k_tok), &k_tok, "");
    }
}

fn unit_partition_chain(cases: &mut Cases, l: &[i64], r: &[i64], limit: usize, desc: bool, tag: &str) {
    let (l2, r2) = (l.to_vec(), r.to_vec());
    let out = guard(move || verif_partition_i64(&l2, &r2, limit, desc));
    let impl_tok = match &out { Ok(p) => pre_tok(p), Err(_) => "panic".into() };
    cases.push(&format!("unit:part:{}:{}", dir_tok(desc), tag),
        &format!("part {} {} {} {} {}", dir_tok(desc), ints_tok(l), ints_tok(r), limit, impl_tok), &impl_tok, "");
    if let Ok(p) = out {
        // merge_partitioned on the same column with this partitioning (every group is one run: trivial merge)
        let (p2, l2, r2) = (p.clone(), l.to_vec(), r.to_vec());
        let mp = guard(move || verif_merge_partitioned_i64(&p2, &l2, &r2, limit, desc));
        let mp_tok = match &mp { Ok((m, o)) => format!("{}|{}", ints_tok(m), u8s_tok(o)), Err(_) => "panic".into() };
        cases.push(&format!("unit:mpart:self:{}:{}", dir_tok(desc), if limit == 0 { "lim0" } else { tag }),
            &format!("mpart {} {} {} {} {} {}", dir_tok(desc), pre_tok(&p), ints_tok(l), ints_tok(r), limit, mp_tok), &mp_tok, "");
    }
}

/// rows sorted lexicographically by k integer keys with directions
fn gen_lex_rows(rng: &mut Rng, k: usize, dirs: &[bool], max_len: u64, spread: i64) -> Vec<Vec<i64>> {
    let n = rng.below(max_len + 1) as usize;
    let mut rows: Vec<Vec<i64>> = (0..n).map(|_| (0..k).map(|_| rng.range(0, spread)).collect()).collect();
    rows.sort_by(|a, b| {
        for i in 0..k {
            let o = if dirs[i] { b[i].cmp(&a[i]) } else { a[i].cmp(&b[i]) };
            if o != std::cmp::Ordering::Equal { return o; }
        }
        std::cmp::Ordering::Equal
    });
    rows
}

fn cols_of(rows: &[Vec<i64>], k: usize) -> Vec<Vec<i64>> { (0..k).map(|i| rows.iter().map(|r| r[i]).collect()).collect() }

/// batch_merging::combine, sort branch with k >= 2 keys, wired exactly as there.
fn unit_mk(cases: &mut Cases, lrows: &[Vec<i64>], rrows: &[Vec<i64>], dirs: &[bool], limit: usize, tag: &str) {
    let k = dirs.len();
    let (l, r) = (cols_of(lrows, k), cols_of(rrows, k));
    let (l2, r2, d2) = (l.clone(), r.clone(), dirs.to_vec());
    let out = guard(move || {
        let mut p = verif_partition_i64(&l2[0], &r2[0], limit, d2[0]);
        for i in 1..k - 1 { p = verif_subpartition_i64(&p, &l2[i], &r2[i], d2[i]); }
        let (m, ops) = verif_merge_partitioned_i64(&p, &l2[k - 1], &r2[k - 1], limit, d2[k - 1]);
        let mut cols: Vec<Vec<i64>> = (0..k - 1).map(|i| verif_merge_keep_i64(&ops, &l2[i], &r2[i])).collect();
        cols.push(m);
        (cols, ops)
    });
    let impl_tok = match &out {
        Ok((cols, ops)) => format!("{}|{}", cols.iter().map(|c| ints_tok(c)).collect::<Vec<_>>().join("|"), u8s_tok(ops)),
        Err(_) => "panic".into(),
    };
    let total = lrows.len() + rrows.len();
    let lim_class = if limit == 0 { "0" } else if limit < total { "cut" } else { "all" };
    let line = format!("mk {} {} {} {} {} {}", dirs.iter().map(|d| dir_tok(*d)).collect::<String>(), limit, k,
        l.iter().map(|c| ints_tok(c)).collect::<Vec<_>>().join(" "), r.iter().map(|c| ints_tok(c)).collect::<Vec<_>>().join(" "), impl_tok);
    cases.push(&format!("unit:mk:k{}:{}:{}", k, lim_class, tag), &line, &impl_tok, "");
}

fn unit_subpart(cases: &mut Cases, p: &[Premerge], l: &[i64], r: &[i64], desc: bool, tag: &str) {
    let (p2, l2, r2) = (p.to_vec(), l.to_vec(), r.to_vec());
    let out = guard(move || verif_subpartition_i64(&p2, &l2, &r2, desc));
    let impl_tok = match &out { Ok(p) => pre_tok(p), Err(_) => "panic".into() };
    cases.push(&format!("unit:subpart:{}:{}", dir_tok(desc), tag),
        &format!("subpart {} {} {} {} {}", dir_tok(desc), pre_tok(p), ints_tok(l), ints_tok(r), impl_tok), &impl_tok, "");
}

fn unit_heap(cases: &mut Cases, keys: &[i64], vals: &[usize], key: i64, val: usize, desc: bool, tag: &str) {
    let (mut k2, mut v2) = (keys.to_vec(), vals.to_vec());
    let out = guard(move || { verif_heap_replace_i64(&mut k2, &mut v2, key, val, desc); (k2, v2) });
    let impl_tok = match &out { Ok((k, v)) => format!("{}|{}", ints_tok(k), usz_tok(v)), Err(_) => "panic".into() };
    cases.push(&format!("unit:heap:{}:n{}:{}", dir_tok(desc), keys.len().min(9), tag),
        &format!("heap {} {} {} {} {} {}", dir_tok(desc), ints_tok(keys), usz_tok(vals), key, val, impl_tok), &impl_tok, "");
}

/// worst-first heap of the given keys: the array sorted worst-first is one (that is what TopN builds), random
/// sift order gives others.
fn gen_heap(rng: &mut Rng, n: usize, desc: bool, spread: i64) -> (Vec<i64>, Vec<usize>) {
    let mut keys: Vec<i64> = (0..n).map(|_| rng.range(0, spread)).collect();
    let vals: Vec<usize> = (0..n).collect();
    sort_dir(&mut keys, !desc); // worst first
    if rng.chance(1, 2) && n > 0 {
        // push a few better keys through the real heap_replace to reach non-sorted heap shapes
        let mut v = vals.clone();
        for t in 0..rng.below(4) {
            let worst = keys[0];
            let better = if desc { worst.saturating_add(rng.range(1, 3)) } else { worst.saturating_sub(rng.range(1, 3)) };
            verif_heap_replace_i64(&mut keys, &mut v, better, 100 + t as usize, desc);
        }
        return (keys, v);
    }
    (keys, vals)
}

fn unit_stream(cases: &mut Cases, rng: &mut Rng, thorough: bool) {
    let rounds = if thorough { 4000 } else { 450 };
    for _ in 0..rounds {
        let desc = rng.chance(1, 2);
        let class = *rng.pick(VAL_CLASSES);
        let l = gen_sorted(rng, class, 9, desc);
        let r = gen_sorted(rng, class, 9, desc);
        let limit = limits_for(rng, l.len() + r.len());
        unit_merge(cases, &l, &r, limit, desc, class);
        unit_partition_chain(cases, &l, &r, limit, desc, class);
    }
    // limit beyond u32 in partition
    unit_partition_chain(cases, &[1, 1, 2], &[1, 3], u32::MAX as usize + 5, false, "u32");
    unit_partition_chain(cases, &[1, 1, 2], &[1, 3], usize::MAX, false, "u32");
    // unsorted inputs: pure correspondence (the specification does not speak about them)
    for _ in 0..(if thorough { 400 } else { 40 }) {
        let desc = rng.chance(1, 2);
        let l: Vec<i64> = (0..rng.below(7)).map(|_| rng.range(0, 4)).collect();
        let r: Vec<i64> = (0..rng.below(7)).map(|_| rng.range(0, 4)).collect();
        let limit = limits_for(rng, l.len() + r.len());
        unit_merge(cases, &l, &r, limit, desc, "unsorted");
        unit_partition_chain(cases, &l, &r, limit, desc, "unsorted");
    }
    // multi-key wiring
    for _ in 0..(if thorough { 3000 } else { 350 }) {
        let k = 2 + rng.below(2) as usize;
        let dirs: Vec<bool> = (0..k).map(|_| rng.chance(1, 2)).collect();
        let spread = *rng.pick(&[1i64, 2, 2, 3, 6]);
        let lrows = gen_lex_rows(rng, k, &dirs, 8, spread);
        let rrows = gen_lex_rows(rng, k, &dirs, 8, spread);
        let limit = limits_for(rng, lrows.len() + rrows.len());
        unit_mk(cases, &lrows, &rrows, &dirs, limit, &format!("s{}", spread));
        if k == 3 {
            // the subpartition step on its own, on the real first-key partitioning
            let (l, r) = (cols_of(&lrows, k), cols_of(&rrows, k));
            let p = verif_partition_i64(&l[0], &r[0], limit, dirs[0]);
            unit_subpart(cases, &p, &l[1], &r[1], dirs[1], "chain");
        }
    }
    // groups that reach beyond the columns: index panics
    unit_subpart(cases, &[Premerge { left: 3, right: 0 }], &[1, 2], &[5], false, "oob");
    unit_subpart(cases, &[Premerge { left: 0, right: 2 }], &[1, 2], &[5], true, "oob");
    unit_subpart(cases, &[Premerge { left: 1, right: 1 }, Premerge { left: 1, right: 0 }], &[1, 2], &[1], false, "chain");
    // heap step
    for _ in 0..(if thorough { 4000 } else { 500 }) {
        let desc = rng.chance(1, 2);
        let big = rng.chance(1, 4);
        let n = 1 + rng.below(if big { 15 } else { 7 }) as usize;
        let spread = *rng.pick(&[2i64, 4, 4, 20]);
        let (keys, vals) = gen_heap(rng, n, desc, spread);
        let worst = keys[0];
        let key = match rng.below(4) {
            0 => if desc { worst.saturating_add(1) } else { worst - 1 },
            1 => rng.range(-2, spread + 2),
            2 => if desc { spread + 5 } else { -5 },
            _ => worst,
        };
        unit_heap(cases, &keys, &vals, key, 1000, desc, if (desc && key > worst) || (!desc && key < worst) { "better" } else { "notbetter" });
    }
    if thorough {
        // bounded exhaustive: all sorted l, r over {0,1,2} up to length 3, all limits
        let lists = all_sorted(3, 2);
        for l in &lists { for r in &lists { for limit in 0..=(l.len() + r.len() + 1) {
            for desc in [false, true] {
                let (mut l2, mut r2) = (l.clone(), r.clone());
                sort_dir(&mut l2, desc); sort_dir(&mut r2, desc);
                unit_merge(cases, &l2, &r2, limit, desc, "exh");
                unit_partition_chain(cases, &l2, &r2, limit, desc, "exh");
            }
        } } }
    }
}

fn all_sorted(maxlen: usize, maxv: i64) -> Vec<Vec<i64>> {
    let mut out: Vec<Vec<i64>> = vec![vec![]];
    let mut frontier: Vec<Vec<i64>> = vec![vec![]];
    for _ in 0..maxlen {
        let mut next = vec![];
        for l in &frontier {
            let lo = l.last().copied().unwrap_or(0);
            for v in lo..=maxv { let mut x = l.clone(); x.push(v); next.push(x); }
        }
        out.extend(next.iter().cloned());
        frontier = next;
    }
    out
}

// ------------------------------------------------------------------------------------------------
// api stream

#[derive(Clone, Debug)]
struct Q {
    keys: Vec<(Ex, bool)>,
    wher: Option<Ex>,
    limit: Option<u64>,
    offset: Option<u64>,
    extra_sel: Vec<Ex>,
}

impl Q {
    fn sel(&self) -> Vec<Ex> {
        let mut v = vec![Ex::Col(0)];
        // constant keys are not selected (projecting a literal is C12's territory)
        v.extend(self.keys.iter().filter(|k| !matches!(k.0, Ex::Lit(_))).map(|k| k.0.clone()));
        v.extend(self.extra_sel.iter().cloned());
        v
    }
    fn sql(&self, names: &[String]) -> String {
        let mut s = format!("SELECT {} FROM t", self.sel().iter().map(|e| e.sql(names)).collect::<Vec<_>>().join(", "));
        if let Some(w) = &self.wher { s.push_str(&format!(" WHERE {}", w.sql(names))); }
        if !self.keys.is_empty() {
            s.push_str(" ORDER BY ");
            s.push_str(&self.keys.iter().map(|(e, d)| format!("{}{}", e.sql(names), if *d { " DESC" } else { "" })).collect::<Vec<_>>().join(", "));
        }
        if let Some(l) = self.limit { s.push_str(&format!(" LIMIT {}", l)); }
        if let Some(o) = self.offset { s.push_str(&format!(" OFFSET {}", o)); }
        s
    }
}

/// Lengths of the partitions a realisation produces: batches up to and including a flushed one form a partition,
/// the unflushed tail is the open buffer (one more partition).
fn partition_lens(r: &Realisation) -> Vec<usize> {
    let mut out = vec![];
    let mut cur = 0;
    for b in 0..r.bounds.len() - 1 {
        cur += r.bounds[b + 1] - r.bounds[b];
        if r.flush[b] && cur > 0 { out.push(cur); cur = 0; }
    }
    if cur > 0 { out.push(cur); }
    out
}

/// Returns false when the query lost a worker thread (panic / hang): the database must be rebuilt (C11's finding).
fn run_case(cases: &mut Cases, db: &Arc<LocustDB>, t: &LTable, parts: &[usize], bs: usize, q: &Q, class: &str, note: &str) -> bool {
    let sql = q.sql(&t.names);
    let out = query_full(db, &sql, true, 40);
    let impl_tok = out.tok();
    let sel = q.sel();
    let line = format!("q {} {} {} {} {} {} {} {} {} {}",
        q.wher.as_ref().map(|w| w.rpn()).unwrap_or("-".into()),
        q.limit.map(|l| l.to_string()).unwrap_or("_".into()),
        q.offset.unwrap_or(0),
        format!("{}@{}", fmt_list(parts), bs),
        sel.len(), sel.iter().map(|e| e.rpn()).collect::<Vec<_>>().join(" "),
        q.keys.len(),
        q.keys.iter().map(|(e, d)| format!("{}:{}", e.rpn(), dir_tok(*d))).collect::<Vec<_>>().join(" "),
        t.tok(), impl_tok);
    cases.push(class, &line, &impl_tok, &format!("{} | {} | {} | {}", sql, t.type_tag(), note, out.detail()));
    !matches!(out, QOut::Panic(_) | QOut::Hang) && impl_tok != "err:canceled"
}

fn type_short(t: &ColType) -> String {
    match t { ColType::Id => "id".into(), ColType::Int(_) => "i".into(), ColType::Float(_) => "f".into(), ColType::Str(_) => "s".into() }
}

fn gen_key(rng: &mut Rng, t: &LTable) -> (Ex, String) {
    let ncols = t.cols.len();
    let col = rng.below(ncols as u64) as usize;
    let int_cols: Vec<usize> = (0..ncols).filter(|i| matches!(t.types[*i], ColType::Id | ColType::Int("small") | ColType::Int("u8") | ColType::Int("u16") | ColType::Int("const") | ColType::Int("mono"))).collect();
    if rng.chance(1, 4) && !int_cols.is_empty() {
        let c = *rng.pick(&int_cols);
        let k = *rng.pick(&[2i64, 3, 5, 7, 10]);
        let op = *rng.pick(&['+', '-', '*', '/', '%']);
        if rng.chance(1, 4) && int_cols.len() > 1 {
            let c2 = *rng.pick(&int_cols);
            return (Ex::Arith(*rng.pick(&['+', '-']), Box::new(Ex::Col(c)), Box::new(Ex::Col(c2))), "expr2".into());
        }
        return (Ex::Arith(op, Box::new(Ex::Col(c)), Box::new(Ex::Lit(Cell::Int(k)))), format!("expr{}", op));
    }
    if rng.chance(1, 50) { return (Ex::Lit(Cell::Int(rng.range(0, 9))), "const".into()); }
    if rng.chance(1, 30) {
        // IS [NOT] NULL as sort key (a constant expansion when the column has no NULL in the partition)
        let c = rng.below(ncols as u64) as usize;
        return (if rng.chance(1, 2) { Ex::IsNull(Box::new(Ex::Col(c))) } else { Ex::NotNull(Box::new(Ex::Col(c))) }, "isnull".into());
    }
    if rng.chance(1, 25) && int_cols.len() > 1 {
        // a comparison as sort key (boolean 0/1, NULL when an operand is NULL)
        let (a, b) = (*rng.pick(&int_cols), *rng.pick(&int_cols));
        let op = *rng.pick(&["<", ">", "<=", "="]);
        return (Ex::Cmp(op, Box::new(Ex::Col(a)), Box::new(if rng.chance(1, 2) { Ex::Col(b) } else { Ex::Lit(Cell::Int(rng.range(-3, 9))) })), "cmp".into());
    }
    (Ex::Col(col), type_short(&t.types[col]))
}

fn gen_where(rng: &mut Rng, t: &LTable) -> Ex {
    // simple atoms only (C03 owns the predicate semantics): id / int comparisons with small constants, IS [NOT] NULL
    let n = t.n as i64;
    match rng.below(4) {
        0 => Ex::Cmp(*rng.pick(&["<", "<=", ">", ">=", "<>"]), Box::new(Ex::Col(0)), Box::new(Ex::Lit(Cell::Int(rng.range(0, n))))),
        1 => Ex::Cmp("=", Box::new(Ex::Arith('%', Box::new(Ex::Col(0)), Box::new(Ex::Lit(Cell::Int(2))))), Box::new(Ex::Lit(Cell::Int(rng.range(0, 1))))),
        2 => Ex::NotNull(Box::new(Ex::Col(rng.below(t.cols.len() as u64) as usize))),
        _ => Ex::IsNull(Box::new(Ex::Col(rng.below(t.cols.len() as u64) as usize))),
    }
}

fn gen_limit(rng: &mut Rng, n: usize, parts: &[usize]) -> (Option<u64>, &'static str) {
    let p = *rng.pick(parts) as u64;
    let n = n as u64;
    match rng.below(12) {
        0 => (None, "none"),
        1 => (Some(0), "0"),
        2 => (Some(1), "1"),
        3 => (Some((p / 2).saturating_sub(1)), "half-1"),
        4 => (Some(p / 2), "half"),
        5 => (Some(p / 2 + 1), "half+1"),
        6 => (Some(n.saturating_sub(1)), "n-1"),
        7 => (Some(n), "n"),
        8 => (Some(n + 1), "n+1"),
        9 => (Some(n + 2), "n+2"),
        10 => (Some(*rng.pick(&[u64::MAX, u64::MAX - 1, 1 << 32, (1 << 32) + 1])), "huge"),
        _ => (Some(rng.below(n + 3)), "rand"),
    }
}

fn gen_offset(rng: &mut Rng, n: usize) -> (Option<u64>, &'static str) {
    let n = n as u64;
    match rng.below(12) {
        0..=3 => (None, "none"),
        4 => (Some(0), "0"),
        5 => (Some(1), "1"),
        6 => (Some(n / 2), "half"),
        7 => (Some(n.saturating_sub(1)), "n-1"),
        8 => (Some(n), "n"),
        9 => (Some(n + 1), "n+1"),
        10 => (Some(*rng.pick(&[n + 2, 20, 1000, u64::MAX, 1 << 40])), "beyond"),
        _ => (Some(rng.below(n + 3)), "rand"),
    }
}

fn strategy(q: &Q, parts: &[usize]) -> &'static str {
    if q.keys.is_empty() { return "plain"; }
    let lim = q.limit.unwrap_or(u64::MAX).saturating_add(q.offset.unwrap_or(0));
    let topn: Vec<bool> = parts.iter().map(|p| q.keys.len() == 1 && lim < (*p as u64) / 2).collect();
    if topn.iter().all(|x| *x) { "topn" } else if topn.iter().any(|x| *x) { "mix" } else { "sort" }
}

fn gen_query(rng: &mut Rng, t: &LTable, parts: &[usize]) -> (Q, String) {
    let nkeys = match rng.below(10) { 0 | 1 => 0, 2..=5 => 1, 6 | 7 => 2, _ => 3 };
    let mut keys = vec![];
    let mut ktags = vec![];
    for _ in 0..nkeys { let (e, tag) = gen_key(rng, t); keys.push((e, rng.chance(1, 2))); ktags.push(tag); }
    let wher = if rng.chance(1, 4) { Some(gen_where(rng, t)) } else { None };
    let (limit, ltag) = gen_limit(rng, t.n, parts);
    let (offset, otag) = gen_offset(rng, t.n);
    let extra_sel = if nkeys == 0 && t.cols.len() > 1 { vec![Ex::Col(1)] } else { vec![] };
    let q = Q { keys, wher, limit, offset, extra_sel };
    let dirs: String = q.keys.iter().map(|k| dir_tok(k.1)).collect();
    let class = format!("api:{}:k{}:{}:{}:p{}:l={}:o={}{}", strategy(&q, parts), nkeys, ktags.join("+"), dirs, parts.len().min(4), ltag, otag, if q.wher.is_some() { ":w" } else { "" });
    (q, class)
}

/// Float column class with NaN values next to NULLs (the property's "NULL after every value" includes NaN).
fn nan_table(rng: &mut Rng, n: usize) -> LTable {
    let mut t = gen_table(rng, n, 0, false, false);
    let cells: Vec<Cell> = (0..n).map(|_| match rng.below(4) { 0 => Cell::Null, 1 => Cell::f(f64::NAN), _ => Cell::f(rng.range(-3, 3) as f64) }).collect();
    t.names.push("c1".into()); t.types.push(ColType::Float("nan")); t.cols.push(cells);
    t
}

fn corpus(cases: &mut Cases) {
    // design-time witnesses (DESIGN §8 #3 #4 #5 #7): panicked before the fix: commits; must stay green
    let t = LTable { n: 8, names: vec!["id".into(), "c1".into(), "c2".into()], types: vec![ColType::Id, ColType::Int("u8"), ColType::Str("lowcard")],
        cols: vec![(0..8).map(Cell::Int).collect(),
                   [Some(1), None, Some(30), None, None, Some(7), None, None].iter().map(|x| x.map(Cell::Int).unwrap_or(Cell::Null)).collect(),
                   ["b", "", "b", "f", "", "b", "f", "d"].iter().map(|s| if s.is_empty() { Cell::Null } else { Cell::Str(s.to_string()) }).collect()] };
    let r = Realisation { bounds: vec![0, 8], flush: vec![false], omit_null_cols: false, combine_factor: 999, mem_lz4: false, batch_size: 1024, threads: 2, pref: 0 };
    let col = |i| Ex::Col(i);
    let qs: Vec<(&str, Q)> = vec![
        ("corpus:#3-topn-nullable-u8", Q { keys: vec![(col(1), false)], wher: None, limit: Some(3), offset: None, extra_sel: vec![] }),
        ("corpus:#3-topn-nullable-u8-desc", Q { keys: vec![(col(1), true)], wher: None, limit: Some(2), offset: Some(1), extra_sel: vec![] }),
        ("corpus:#3-topn-nullable-dict", Q { keys: vec![(col(2), false)], wher: None, limit: Some(3), offset: None, extra_sel: vec![] }),
        ("corpus:#3-topn-nullable-dict-desc", Q { keys: vec![(col(2), true)], wher: None, limit: Some(3), offset: None, extra_sel: vec![] }),
        ("corpus:#4-limit0-topn", Q { keys: vec![(col(0), false)], wher: None, limit: Some(0), offset: None, extra_sel: vec![] }),
        ("corpus:#4-limit0-topn-desc", Q { keys: vec![(col(1), true)], wher: None, limit: Some(0), offset: Some(0), extra_sel: vec![] }),
        ("corpus:#5-offset-beyond", Q { keys: vec![], wher: None, limit: Some(2), offset: Some(20), extra_sel: vec![col(1)] }),
        ("corpus:#5-offset-beyond-sorted", Q { keys: vec![(col(0), false)], wher: None, limit: Some(2), offset: Some(9), extra_sel: vec![] }),
        ("corpus:#5-offset-eq-len", Q { keys: vec![(col(0), true)], wher: None, limit: Some(2), offset: Some(8), extra_sel: vec![] }),
        ("corpus:#7-limit-max-offset", Q { keys: vec![], wher: None, limit: Some(u64::MAX), offset: Some(1), extra_sel: vec![col(1)] }),
        ("corpus:#7-offset-without-limit", Q { keys: vec![], wher: None, limit: None, offset: Some(6), extra_sel: vec![col(1)] }),
        ("corpus:#7-offset-without-limit-sorted", Q { keys: vec![(col(1), false)], wher: None, limit: None, offset: Some(2), extra_sel: vec![] }),
        ("corpus:#7-limit-max-offset-max", Q { keys: vec![(col(0), false)], wher: None, limit: Some(u64::MAX), offset: Some(u64::MAX), extra_sel: vec![] }),
    ];
    for (class, q) in &qs { let db = realise(&t, &r); run_case(cases, &db, &t, &[8], r.batch_size, q, class, "corpus"); }
    // the same witnesses with the table split in two partitions (top-n in one of them only)
    let r2 = Realisation { bounds: vec![0, 6, 8], flush: vec![true, false], ..r.clone() };
    for (class, q) in &qs { let db2 = realise(&t, &r2); run_case(cases, &db2, &t, &[6, 2], r2.batch_size, q, &format!("{}:p2", class), "corpus"); }
    // open findings: witnesses replayed on every run
    let tn = LTable { n: 3, names: vec!["id".into(), "c1".into()], types: vec![ColType::Id, ColType::Float("nan")],
        cols: vec![(0..3).map(Cell::Int).collect(), vec![Cell::Null, Cell::f(f64::NAN), Cell::f(f64::NAN)]] };
    let rn = Realisation { bounds: vec![0, 2, 3], flush: vec![true, false], ..r.clone() };
    let qn = Q { keys: vec![(col(1), false)], wher: None, limit: None, offset: None, extra_sel: vec![] };
    { let db = realise(&tn, &rn); run_case(cases, &db, &tn, &[2, 1], rn.batch_size, &qn, "corpus:nan-null", "C05-nan-null-tie"); }
    let qc: Vec<(&str, Q)> = vec![
        ("corpus:const-key-only", Q { keys: vec![(Ex::Lit(Cell::Int(5)), false)], wher: None, limit: Some(3), offset: None, extra_sel: vec![] }),
        ("corpus:const-key-last", Q { keys: vec![(col(0), true), (Ex::Lit(Cell::Int(5)), false)], wher: None, limit: Some(3), offset: None, extra_sel: vec![] }),
        ("corpus:const-key-first", Q { keys: vec![(Ex::Lit(Cell::Int(5)), false), (col(0), true)], wher: None, limit: Some(3), offset: None, extra_sel: vec![] }),
    ];
    // nullable arithmetic key with more rows than batch_size on the sort path (open finding), and the fixed
    // "middle key absent in one partition" FatalError
    {
        let n = 20usize;
        let ts = LTable { n, names: vec!["id".into(), "c1".into()], types: vec![ColType::Id, ColType::Int("small")],
            cols: vec![(0..n as i64).map(Cell::Int).collect(), (0..n as i64).map(|i| if i % 5 == 3 { Cell::Null } else { Cell::Int((i * 37) % 11) }).collect()] };
        let rs = Realisation { bounds: vec![0, n], flush: vec![false], batch_size: 8, ..r.clone() };
        let qs2 = Q { keys: vec![(Ex::Arith('%', Box::new(col(1)), Box::new(Ex::Lit(Cell::Int(7)))), false)], wher: None, limit: None, offset: None, extra_sel: vec![] };
        let db = realise(&ts, &rs);
        run_case(cases, &db, &ts, &[n], 8, &qs2, "corpus:nullable-expr-key-streamed", "C05-nullable-expr-key-streamed");
        let tm = LTable { n: 5, names: vec!["id".into(), "c1".into()], types: vec![ColType::Id, ColType::Float("dyadic")],
            cols: vec![(0..5).map(Cell::Int).collect(), vec![Cell::Null, Cell::f(414.5), Cell::f(308.75), Cell::f(-866.25), Cell::Null]] };
        let rm = Realisation { bounds: vec![0, 1, 5], flush: vec![true, true], ..r.clone() };
        let qm = Q { keys: vec![(col(0), true), (col(1), false), (col(0), false)], wher: None, limit: Some(5), offset: Some(1), extra_sel: vec![] };
        let db = realise(&tm, &rm);
        run_case(cases, &db, &tm, &[1, 4], rm.batch_size, &qm, "corpus:middle-key-absent", "fixed");
    }
    // open findings reported by the C02 / C12 owners (C05 anchors): DESC nullable string key on the top-n path,
    // comparison over a nullable column as sort key
    {
        let ss = ["a", "a", "x", "x", "x", "x", "a", "", ""];
        let tsd = LTable { n: 9, names: vec!["id".into(), "c1".into()], types: vec![ColType::Id, ColType::Str("lowcard")],
            cols: vec![(0..9).map(Cell::Int).collect(), ss.iter().map(|s| if s.is_empty() { Cell::Null } else { Cell::Str(s.to_string()) }).collect()] };
        let rsd = Realisation { bounds: vec![0, 9], flush: vec![false], ..r.clone() };
        let qsd = Q { keys: vec![(col(1), true)], wher: None, limit: Some(3), offset: None, extra_sel: vec![] };
        let db = realise(&tsd, &rsd);
        run_case(cases, &db, &tsd, &[9], rsd.batch_size, &qsd, "corpus:topn-desc-nullable-string", "topn-desc-nullable-string");
        let tc = LTable { n: 7, names: vec!["id".into(), "c1".into(), "c2".into()], types: vec![ColType::Id, ColType::Int("small"), ColType::Int("small")],
            cols: vec![(0..7).map(Cell::Int).collect(), [1, 2, 3, 4, 9, 10, 11].iter().map(|i| Cell::Int(*i)).collect(),
                       [Some(5), None, Some(7), Some(1), Some(9), Some(2), Some(4)].iter().map(|x| x.map(Cell::Int).unwrap_or(Cell::Null)).collect()] };
        let rc = Realisation { bounds: vec![0, 7], flush: vec![false], ..r.clone() };
        let qcmp = Q { keys: vec![(Ex::Cmp(">", Box::new(col(1)), Box::new(col(2))), false)], wher: None, limit: None, offset: None, extra_sel: vec![] };
        let db = realise(&tc, &rc);
        run_case(cases, &db, &tc, &[7], rc.batch_size, &qcmp, "corpus:orderby-nullable-cmp-key", "C05-orderby-nullable-expr-key");
        // the same key with the NULL in the first partition only (reported by the C12 owner)
        let rc2 = Realisation { bounds: vec![0, 4, 7], flush: vec![true, false], ..r.clone() };
        let db = realise(&tc, &rc2);
        run_case(cases, &db, &tc, &[4, 3], rc2.batch_size, &qcmp, "corpus:orderby-bool-key-mixed-nullability", "C05-orderby-bool-key-mixed-nullability");
    }
    for (class, q) in &qc { let db = realise(&t, &r); run_case(cases, &db, &t, &[8], r.batch_size, q, class, "C05-order-by-constant"); }
}

fn api_table(cases: &mut Cases, rng: &mut Rng, t: &LTable, r: &Realisation, per_table: usize) {
    let parts = partition_lens(r);
    if parts.is_empty() { return; }
    let mut db = realise(t, r);
    for _ in 0..per_table {
        let (q, class) = gen_query(rng, t, &parts);
        if !run_case(cases, &db, t, &parts, r.batch_size, &q, &class, &r.tag()) { db = realise(t, r); }
    }
}

/// Directed coverage of the comparator table: every key type x direction x nullability, on the top-n path, on the
/// sort path and across a merge of two partitions (the random stream reaches some of these cells too rarely).
fn directed_stream(cases: &mut Cases, rng: &mut Rng, thorough: bool) {
    let kinds: Vec<(&str, ColType)> = vec![
        ("u8", ColType::Int("u8")), ("u16off", ColType::Int("u16off")), ("i64", ColType::Int("i64")), ("small", ColType::Int("small")),
        ("fdy", ColType::Float("dyadic")), ("fed", ColType::Float("edges")),
        ("slow", ColType::Str("lowcard")), ("shigh", ColType::Str("highcard")),
    ];
    let reps = if thorough { 6 } else { 1 };
    for _ in 0..reps {
        for (kname, kt) in &kinds {
            for nullable in [false, true] {
                let n = *rng.pick(&[17usize, 24, 40]);
                let cells: Vec<Cell> = match kt {
                    ColType::Int(c) => gen_ints(rng, n, c).into_iter().map(Cell::Int).collect(),
                    ColType::Float(c) => gen_floats(rng, n, c).into_iter().map(Cell::f).collect(),
                    ColType::Str(c) => gen_strs(rng, n, c).into_iter().map(Cell::Str).collect(),
                    ColType::Id => unreachable!(),
                };
                let cells = if nullable { let mask: Vec<bool> = (0..n).map(|i| i % 5 == 1 || rng.chance(1, 6)).collect(); apply_nulls(cells, &mask) } else { cells };
                let t = LTable { n, names: vec!["id".into(), "c1".into()], types: vec![ColType::Id, kt.clone()], cols: vec![(0..n as i64).map(Cell::Int).collect(), cells] };
                for two_parts in [false, true] {
                    let cut = n / 2 + 1;
                    let r = Realisation { bounds: if two_parts { vec![0, cut, n] } else { vec![0, n] }, flush: if two_parts { vec![true, true] } else { vec![true] },
                        omit_null_cols: false, combine_factor: 999, mem_lz4: false, batch_size: *rng.pick(&[8usize, 1024]), threads: 2, pref: rng.next() };
                    let parts = partition_lens(&r);
                    let mut db = realise(&t, &r);
                    for desc in [false, true] {
                        let small = (*parts.iter().min().unwrap() as u64 / 2).saturating_sub(1).max(1);
                        for (lim, off, strat) in [(Some(small.min(3)), None, "topn"), (Some(small), Some(0u64), "topn"), (Some(n as u64), None, "sort"), (None, Some(2u64), "sort")] {
                            let q = Q { keys: vec![(Ex::Col(1), desc)], wher: None, limit: lim, offset: off, extra_sel: vec![] };
                            let class = format!("api:directed:{}:{}:{}:{}:p{}", strat, kname, if nullable { "null" } else { "nn" }, dir_tok(desc), parts.len());
                            if !run_case(cases, &db, &t, &parts, r.batch_size, &q, &class, &r.tag()) { db = realise(&t, &r); }
                        }
                    }
                }
            }
        }
    }
}

fn api_stream(cases: &mut Cases, rng: &mut Rng, thorough: bool) {
    let (tables, per_table) = if thorough { (260, 30) } else { (36, 22) };
    for i in 0..tables {
        let n = *rng.pick(&[1usize, 2, 3, 5, 8, 9, 16, 17, 33, 40, 70]);
        let t = if i % 12 == 11 { nan_table(rng, n) } else { let extra = 1 + rng.below(3) as usize; gen_table(rng, n, extra, true, true) };
        let mut r = gen_realisation(rng, n, false);
        if rng.chance(1, 3) { for f in r.flush.iter_mut() { *f = true; } }
        api_table(cases, rng, &t, &r, per_table);
    }
    if thorough {
        // all partitionings of small tables: every composition of n rows into flushed batches
        for n in 1..=5usize {
            for mask in 0..(1u32 << (n - 1)) {
                let mut bounds = vec![0];
                for i in 1..n { if mask & (1 << (i - 1)) != 0 { bounds.push(i); } }
                bounds.push(n);
                let nb = bounds.len() - 1;
                let t = gen_table(rng, n, 2, true, true);
                let r = Realisation { bounds, flush: vec![true; nb], omit_null_cols: rng.chance(1, 2), combine_factor: 999, mem_lz4: false, batch_size: 8, threads: *rng.pick(&[1usize, 2, 8]), pref: rng.next() };
                api_table(cases, rng, &t, &r, 12);
            }
        }
    }
}

fn main() {
    let args = parse_args();
    quiet_panics();
    let mut rng = Rng::new(args.seed);
    let mut cases = Cases::create(&args.out);
    corpus(&mut cases);
    if args.rest.iter().any(|a| a == "corpus-only") { cases.finish(); return; }
    let mut urng = rng.fork();
    unit_stream(&mut cases, &mut urng, args.thorough());
    if args.rest.iter().any(|a| a == "unit-only") { cases.finish(); return; }
    let mut drng = rng.fork();
    directed_stream(&mut cases, &mut drng, args.thorough());
    let mut arng = rng.fork();
    api_stream(&mut cases, &mut arng, args.thorough());
    cases.finish();
}
