//! C14: stored files read back as written or are rejected.
//!
//! Streams (docs/C14.md; line grammar at the top of lean/LocustModel/Drv/C14.lean):
//!  * env   payload -> bytes of the file written by the real VersionedChecksummedBlobWriter(FileBlobWriter)
//!  * load  (corrupted / foreign) file bytes -> outcome of the real `load`
//!  * seg   columns of every codec shape / section kind -> PartitionSegment::serialize -> file -> load -> capnp tree
//!          (dumped through the capnp reader) -> PartitionSegment::deserialize -> columns
//!  * wal / evb   WalSegment / EventBuffer of every column representation, same pipeline
//!  * meta  MetaStore of 0..k tables, same pipeline
//!  * segtree / waltree / metatree   hand-made message trees -> real deserialisers (totality / fault list)
//!  * openclass   LocustDB::new in a child process on a directory with one corrupted file
use std::collections::{BTreeMap, HashMap};
use std::error::Error;
use std::panic::{catch_unwind, AssertUnwindSafe};
use std::path::{Path, PathBuf};
use std::process::{Command, Stdio};
use std::sync::atomic::{AtomicBool, Ordering};
use std::sync::Arc;
use std::time::{Duration, Instant};

use ordered_float::OrderedFloat;
use vharness::locustdb::verif::engine::EncodingType;
use vharness::locustdb::verif::mem_store::codec::CodecOp;
use vharness::locustdb::verif::mem_store::column::{Column, DataSection, DataSource};
use vharness::locustdb::verif::mem_store::column_buffer::ColumnBuffer;
use vharness::locustdb::verif::{
    verif_metastore_serialize, BlobWriter, FileBlobWriter, MetaStore, PartitionMetadata, PartitionSegment, SubpartitionMetadata,
    VersionedChecksummedBlobWriter, WalSegment,
};
use vharness::locustdb::LocustDB;
use vharness::locustdb_serialization::api::AnyVal;
use vharness::locustdb_serialization::event_buffer::{ColumnBuffer as EvColumnBuffer, ColumnData, EventBuffer, TableBuffer};
use vharness::locustdb_serialization::{dbmeta_capnp, default_reader_options, partition_segment_capnp, wal_segment_capnp};
use vharness::*;

type R<T> = Result<T, Box<dyn Error>>;

// ------------------------------------------------------------------------------------------------
// tokens

/// `n61.62` (scalar values in hex), `n` for the empty string
fn ntok(s: &str) -> String { format!("n{}", s.chars().map(|c| format!("{:x}", c as u32)).collect::<Vec<_>>().join(".")) }
fn btok(bits: u64) -> String { format!("b{:016x}", bits) }
fn list(tag: &str, kids: Vec<String>) -> String { format!("{}({})", tag, kids.join(",")) }

fn enc_tok(t: &EncodingType) -> String {
    match t { EncodingType::ByteSlices(_) => "ByteSlices".to_string(), other => format!("{:?}", other) }
}

fn op_tok(op: &CodecOp) -> String {
    match op {
        CodecOp::Nullable => "nullable".into(),
        CodecOp::Add(t, a) => format!("add({},{})", enc_tok(t), a),
        CodecOp::Delta(t) => format!("delta({})", enc_tok(t)),
        CodecOp::ToI64(t) => format!("toi64({})", enc_tok(t)),
        CodecOp::PushDataSection(n) => format!("push({})", n),
        CodecOp::DictLookup(t) => format!("dict({})", enc_tok(t)),
        CodecOp::LZ4(t, n) => format!("lz4({},{})", enc_tok(t), n),
        CodecOp::Pco(t, n, b) => format!("pco({},{},{})", enc_tok(t), n, b),
        CodecOp::UnpackStrings => "unpack".into(),
        CodecOp::UnhexpackStrings(u, n) => format!("unhexpack({},{})", u, n),
        CodecOp::Unknown => "unknown".into(),
    }
}

fn op_class(op: &CodecOp) -> String {
    match op {
        CodecOp::Nullable => "N".into(),
        CodecOp::Add(t, _) => format!("A{}", enc_tok(t)),
        CodecOp::Delta(t) => format!("D{}", enc_tok(t)),
        CodecOp::ToI64(t) => format!("I{}", enc_tok(t)),
        CodecOp::PushDataSection(_) => "P".into(),
        CodecOp::DictLookup(t) => format!("L{}", enc_tok(t)),
        CodecOp::LZ4(t, _) => format!("Z{}", enc_tok(t)),
        CodecOp::Pco(t, _, f) => format!("C{}{}", enc_tok(t), if *f { "fp32" } else { "" }),
        CodecOp::UnpackStrings => "U".into(),
        CodecOp::UnhexpackStrings(u, _) => format!("H{}", *u as u8),
        CodecOp::Unknown => "X".into(),
    }
}

fn sec_kind(s: &DataSection) -> &'static str {
    match s {
        DataSection::U8(_) => "u8", DataSection::U16(_) => "u16", DataSection::U32(_) => "u32", DataSection::U64(_) => "u64",
        DataSection::I64(_) => "i64", DataSection::F64(_) => "f64", DataSection::Null(_) => "null", DataSection::Bitvec(_) => "bitvec",
        DataSection::LZ4 { .. } => "lz4s", DataSection::Pco { .. } => "pcos",
    }
}

fn sec_tok(s: &DataSection) -> String {
    match s {
        DataSection::U8(x) => format!("u8({})", hexb(x)),
        DataSection::Bitvec(x) => format!("bitvec({})", hexb(x)),
        DataSection::Null(n) => format!("null({})", n),
        DataSection::LZ4 { decoded_bytes, bytes_per_element, data } => format!("lz4s({},{},{})", decoded_bytes, bytes_per_element, hexb(data)),
        DataSection::Pco { decoded_bytes, bytes_per_element, data, is_fp32 } => format!("pcos({},{},{},{})", decoded_bytes, bytes_per_element, hexb(data), is_fp32),
        DataSection::U16(x) => list("u16", x.iter().map(|v| v.to_string()).collect()),
        DataSection::U32(x) => list("u32", x.iter().map(|v| v.to_string()).collect()),
        DataSection::U64(x) => list("u64", x.iter().map(|v| v.to_string()).collect()),
        DataSection::I64(x) => list("i64", x.iter().map(|v| v.to_string()).collect()),
        DataSection::F64(x) => list("f64", x.iter().map(|v| btok(v.0.to_bits())).collect()),
    }
}

fn col_tok(c: &Column) -> String {
    let range = match DataSource::range(c) { None => "none".to_string(), Some((s, e)) => format!("r({},{})", s, e) };
    let codec = DataSource::codec(c);
    format!("col({},{},{},{},{})", ntok(c.name()), DataSource::len(c), range,
        list("ops", codec.ops().iter().map(op_tok).collect()), list("data", c.data().iter().map(sec_tok).collect()))
}

/// the fields `Column::new` derives from the stored ones (must be identical after a round trip)
fn derived_tok(c: &Column) -> String {
    let k = DataSource::codec(c);
    format!("{}/{:?}/{}{}{}/{}", enc_tok(&k.encoding_type()), k.decoded_type(), k.is_summation_preserving() as u8, k.is_order_preserving() as u8,
        k.is_elementwise_decodable() as u8, k.section_types().iter().map(enc_tok).collect::<Vec<_>>().join("+"))
}

fn seg_tok(cols: &[&Column]) -> String { list("seg", cols.iter().map(|c| col_tok(c)).collect()) }
fn seg_derived(cols: &[&Column]) -> String { if cols.is_empty() { "-".into() } else { cols.iter().map(|c| derived_tok(c)).collect::<Vec<_>>().join("|") } }

// ------------------------------------------------------------------------------------------------
// capnp trees, read back from real bytes through the generated readers

fn capenc(t: partition_segment_capnp::EncodingType) -> String { format!("{:?}.{}", t, t as u16) }

fn seg_tree(bytes: &[u8]) -> R<String> {
    let reader = capnp::serialize_packed::read_message(bytes, default_reader_options())?;
    let seg = reader.get_root::<partition_segment_capnp::partition_segment::Reader>()?;
    let mut cols = vec![];
    for column in seg.get_columns()?.iter() {
        let name = column.get_name()?.to_string()?;
        use partition_segment_capnp::column::range::Which as RW;
        let range = match column.get_range().which()? {
            RW::Empty(()) => "empty".to_string(),
            RW::Range(r) => { let r = r?; format!("range({},{})", r.get_start(), r.get_end()) }
        };
        let mut ops = vec![];
        for op in column.get_codec()?.iter() {
            use partition_segment_capnp::codec_op::Which as W;
            ops.push(match op.which()? {
                W::Nullable(()) => "nullable".to_string(),
                W::Add(a) => { let a = a?; format!("add({},{})", capenc(a.get_type()?), a.get_amount()) }
                W::Delta(t) => format!("delta({})", capenc(t?)),
                W::ToI64(t) => format!("toI64({})", capenc(t?)),
                W::PushDataSection(n) => format!("pushDataSection({})", n),
                W::DictLookup(t) => format!("dictLookup({})", capenc(t?)),
                W::Lz4(l) => { let l = l?; format!("lz4({},{})", capenc(l.get_type()?), l.get_len_decoded()) }
                W::Pco(p) => { let p = p?; format!("pco({},{},{})", capenc(p.get_type()?), p.get_len_decoded(), p.get_is_fp32()) }
                W::UnpackStrings(()) => "unpackStrings".to_string(),
                W::UnhexpackStrings(u) => { let u = u?; format!("unhexpackStrings({},{})", u.get_uppercase(), u.get_total_bytes()) }
            });
        }
        let mut secs = vec![];
        for d in column.get_data()?.iter() {
            use partition_segment_capnp::data_section::Which as W;
            secs.push(match d.which()? {
                W::U8(x) => format!("u8({})", hexb(&x?.iter().collect::<Vec<u8>>())),
                W::Bitvec(x) => format!("bitvec({})", hexb(&x?.iter().collect::<Vec<u8>>())),
                W::Null(n) => format!("null({})", n),
                W::U16(x) => list("u16", x?.iter().map(|v| v.to_string()).collect()),
                W::U32(x) => list("u32", x?.iter().map(|v| v.to_string()).collect()),
                W::U64(x) => list("u64", x?.iter().map(|v| v.to_string()).collect()),
                W::I64(x) => list("i64", x?.iter().map(|v| v.to_string()).collect()),
                W::F64(x) => list("f64", x?.iter().map(|v| btok(v.to_bits())).collect()),
                W::Lz4(l) => format!("lz4({},{},{})", l.get_decoded_bytes(), l.get_bytes_per_element(), hexb(&l.get_data()?.iter().collect::<Vec<u8>>())),
                W::Pco(p) => format!("pco({},{},{},{})", p.get_decoded_bytes(), p.get_bytes_per_element(), hexb(&p.get_data()?.iter().collect::<Vec<u8>>()), p.get_is_fp32()),
            });
        }
        cols.push(format!("ccol({},{},{},{},{})", ntok(&name), column.get_len(), range, list("codec", ops), list("data", secs)));
    }
    Ok(list("cseg", cols))
}

fn anyval_tok(v: &AnyVal) -> String {
    match v {
        AnyVal::Int(i) => format!("i({})", i),
        AnyVal::Float(f) => format!("f({})", btok(f.to_bits())),
        AnyVal::Str(s) => format!("s({})", ntok(s)),
        AnyVal::Null => "null".into(),
    }
}

fn coldata_tok(d: &ColumnData) -> String {
    match d {
        ColumnData::Empty => "empty".into(),
        ColumnData::Dense(v) => list("dense", v.iter().map(|f| btok(f.to_bits())).collect()),
        ColumnData::Sparse(v) => list("sparse", v.iter().map(|(i, f)| format!("p({},{})", i, btok(f.to_bits()))).collect()),
        ColumnData::I64(v) => list("i64", v.iter().map(|i| i.to_string()).collect()),
        ColumnData::SparseI64(v) => list("sparsei64", v.iter().map(|(i, x)| format!("p({},{})", i, x)).collect()),
        ColumnData::String(v) => list("string", v.iter().map(|s| ntok(s)).collect()),
        ColumnData::Mixed(v) => list("mixed", v.iter().map(anyval_tok).collect()),
    }
}

fn coldata_kind(d: &ColumnData) -> &'static str {
    match d { ColumnData::Empty => "empty", ColumnData::Dense(_) => "dense", ColumnData::Sparse(_) => "sparse", ColumnData::I64(_) => "i64",
        ColumnData::SparseI64(_) => "sparsei64", ColumnData::String(_) => "string", ColumnData::Mixed(_) => "mixed" }
}

/// `tables(t(name,len,cols(c(name,data),…)),…)`, tables and columns sorted by name
fn tables_tok(eb: &EventBuffer) -> String {
    let mut ts: Vec<(&String, &TableBuffer)> = eb.tables.iter().collect();
    ts.sort_by(|a, b| a.0.cmp(b.0));
    list("tables", ts.iter().map(|(n, t)| {
        let mut cs: Vec<(&String, &EvColumnBuffer)> = t.columns().collect();
        cs.sort_by(|a, b| a.0.cmp(b.0));
        format!("t({},{},{})", ntok(n), t.len(), list("cols", cs.iter().map(|(cn, c)| format!("c({},{})", ntok(cn), coldata_tok(&c.data))).collect()))
    }).collect())
}

/// `data(ts(name,len,columns(cc(name,data),…)),…)` from a TableSegmentList reader; `sort` = sort tables / columns by name
fn tsl_tree(tsl: wal_segment_capnp::table_segment_list::Reader, sort: bool) -> R<String> {
    let mut tables: Vec<(String, String)> = vec![];
    for table in tsl.get_data()?.iter() {
        let name = table.get_name()?.to_string()?;
        let mut cols: Vec<(String, String)> = vec![];
        for column in table.get_columns()?.iter() {
            let cname = column.get_name()?.to_string()?;
            use wal_segment_capnp::column::data::Which as W;
            let d = match column.get_data().which()? {
                W::F64(x) => list("f64", x?.iter().map(|f| btok(f.to_bits())).collect()),
                W::SparseF64(s) => format!("sparseF64({},{})", list("indices", s.get_indices()?.iter().map(|i| i.to_string()).collect()),
                    list("values", s.get_values()?.iter().map(|f| btok(f.to_bits())).collect())),
                W::I64(x) => list("i64", x?.iter().map(|i| i.to_string()).collect()),
                W::String(x) => { let mut v = vec![]; for s in x?.iter() { v.push(ntok(&s?.to_string()?)); } list("string", v) }
                W::Empty(()) => "empty".to_string(),
                W::SparseI64(s) => format!("sparseI64({},{})", list("indices", s.get_indices()?.iter().map(|i| i.to_string()).collect()),
                    list("values", s.get_values()?.iter().map(|i| i.to_string()).collect())),
                W::Mixed(m) => {
                    let mut v = vec![];
                    for a in m?.iter() {
                        use wal_segment_capnp::any_val::value::Which as AW;
                        v.push(match a.get_value().which()? {
                            AW::I64(i) => format!("i({})", i),
                            AW::F64(f) => format!("f({})", btok(f.to_bits())),
                            AW::String(s) => format!("s({})", ntok(&s?.to_string()?)),
                            AW::Null(()) => "null".to_string(),
                        });
                    }
                    list("mixed", v)
                }
            };
            cols.push((cname.clone(), format!("cc({},{})", ntok(&cname), d)));
        }
        if sort { cols.sort_by(|a, b| a.0.cmp(&b.0)); }
        tables.push((name.clone(), format!("ts({},{},{})", ntok(&name), table.get_len(), list("columns", cols.into_iter().map(|c| c.1).collect()))));
    }
    if sort { tables.sort_by(|a, b| a.0.cmp(&b.0)); }
    Ok(list("data", tables.into_iter().map(|t| t.1).collect()))
}

fn wal_tree(bytes: &[u8], sort: bool) -> R<String> {
    let reader = capnp::serialize_packed::read_message(bytes, default_reader_options())?;
    let w = reader.get_root::<wal_segment_capnp::wal_segment::Reader>()?;
    Ok(format!("cwal({},{})", w.get_id(), tsl_tree(w.get_data()?, sort)?))
}

fn evb_tree(bytes: &[u8], sort: bool) -> R<String> {
    let reader = capnp::serialize_packed::read_message(bytes, default_reader_options())?;
    let t = reader.get_root::<wal_segment_capnp::table_segment_list::Reader>()?;
    Ok(format!("ctsl({})", tsl_tree(t, sort)?))
}

fn meta_tok(ms: &MetaStore) -> String {
    let mut ps: Vec<&PartitionMetadata> = ms.partitions().collect();
    ps.sort_by(|a, b| (&a.tablename, a.id).cmp(&(&b.tablename, b.id)));
    format!("meta({},{},{})", ms.next_wal_id(), ms.earliest_uncommited_wal_id(), list("parts", ps.iter().map(|p| {
        format!("p({},{},{},{},{},{})", p.id, ntok(&p.tablename), p.offset, p.len,
            list("subs", p.subpartitions.iter().map(|s| format!("s({},{},{},{})", s.size_bytes, ntok(&s.subpartition_key), ntok(&s.last_column), s.loaded.load(Ordering::SeqCst))).collect()),
            list("idx", p.subpartitions_by_last_column.iter().map(|(k, i)| format!("e({},{})", ntok(k), i)).collect()))
    }).collect()))
}

/// `cmeta(next,partitions(cp(id,table,offset,len,subpartitions(cs(size,key,last),…)),…))`; legacy fields appended only when non-empty
fn meta_tree(bytes: &[u8], sort: bool) -> R<String> {
    let reader = capnp::serialize_packed::read_message(bytes, default_reader_options())?;
    let m = reader.get_root::<dbmeta_capnp::d_b_meta::Reader>()?;
    let mut legacy = 0usize;
    legacy += m.get_strings()?.len() as usize + m.get_compressed_strings()?.len() + m.get_lengths_compressed_strings()?.len() as usize;
    let mut parts: Vec<((String, u64), String)> = vec![];
    for p in m.get_partitions()?.iter() {
        let table = p.get_tablename()?.to_string()?;
        let mut subs = vec![];
        for s in p.get_subpartitions()?.iter() {
            legacy += s.get_columns()?.len() as usize + s.get_interned_columns()?.len() as usize + s.get_compressed_interned_columns()?.len();
            subs.push(format!("cs({},{},{})", s.get_size_bytes(), ntok(&s.get_subpartition_key()?.to_string()?), ntok(&s.get_last_column()?.to_string()?)));
        }
        parts.push(((table.clone(), p.get_id()), format!("cp({},{},{},{},{})", p.get_id(), ntok(&table), p.get_offset(), p.get_len(), list("subpartitions", subs))));
    }
    if sort { parts.sort_by(|a, b| a.0.cmp(&b.0)); }
    let legacy_tok = if legacy == 0 { String::new() } else { format!(",legacy({})", legacy) };
    Ok(format!("cmeta({},{}{})", m.get_next_wal_id(), list("partitions", parts.into_iter().map(|p| p.1).collect()), legacy_tok))
}

// ------------------------------------------------------------------------------------------------
// real writer / loader

struct Store { dir: PathBuf, w: VersionedChecksummedBlobWriter, n: usize }

impl Store {
    fn new(dir: &Path) -> Store {
        std::fs::create_dir_all(dir).unwrap();
        Store { dir: dir.to_path_buf(), w: VersionedChecksummedBlobWriter::new(Box::new(FileBlobWriter::new())), n: 0 }
    }
    fn fresh(&mut self, ext: &str) -> PathBuf { self.n += 1; self.dir.join(format!("f{}.{}", self.n, ext)) }
    /// store with the real writer, return the bytes now on disk
    fn store(&mut self, ext: &str, payload: &[u8]) -> (PathBuf, Vec<u8>) {
        let p = self.fresh(ext);
        self.w.store(&p, payload).expect("store");
        let bytes = std::fs::read(&p).expect("read back");
        (p, bytes)
    }
    /// outcome of the real `load` on a file with exactly these bytes
    fn load_bytes(&mut self, bytes: &[u8]) -> String {
        let p = self.fresh("x");
        std::fs::write(&p, bytes).unwrap();
        let r = self.load_path(&p);
        let _ = std::fs::remove_file(&p);
        r
    }
    fn load_path(&self, p: &Path) -> String {
        match catch_unwind(AssertUnwindSafe(|| self.w.load(p))) {
            Err(_) => "panic".to_string(),
            Ok(Ok(d)) => format!("ok:{}", hexb(&d)),
            Ok(Err(e)) => {
                let m = e.to_string();
                if m.starts_with("Invalid version number") { "err:version".into() }
                else if m.starts_with("Invalid data length") { if m.contains("expected") { "err:length".into() } else { "err:tooShort".into() } }
                else if m.starts_with("Checksum mismatch") { "err:checksum".into() }
                else { format!("err:other:{}", m.replace([' ', '\t', '\n'], "_")) }
            }
        }
    }
    /// store + load through the real envelope; the payload that comes back (must be what went in)
    fn roundtrip(&mut self, ext: &str, payload: &[u8]) -> Result<Vec<u8>, String> {
        let (p, _) = self.store(ext, payload);
        let r = catch_unwind(AssertUnwindSafe(|| self.w.load(&p))).map_err(|_| "panic".to_string())?.map_err(|e| e.to_string());
        let _ = std::fs::remove_file(&p);
        r
    }
}

fn rand_bytes(rng: &mut Rng, n: usize) -> Vec<u8> { (0..n).map(|_| rng.next() as u8).collect() }

// ------------------------------------------------------------------------------------------------
// env stream

fn env_stream(cases: &mut Cases, rng: &mut Rng, st: &mut Store, thorough: bool) {
    let mut sizes: Vec<usize> = vec![0, 1, 2, 7, 8, 31, 32, 33, 47, 48, 49, 55, 56, 57, 63, 64, 65, 119, 120, 121, 127, 128, 129, 255, 256, 1000, 4096, 20000];
    if thorough { sizes.extend((0..200).collect::<Vec<_>>()); sizes.extend([65535, 65536, 100_000]); }
    for &n in &sizes {
        for variant in 0..if thorough { 3 } else { 2 } {
            let payload: Vec<u8> = match variant { 0 => rand_bytes(rng, n), 1 => vec![0u8; n], _ => vec![0xffu8; n] };
            let (p, bytes) = st.store("env", &payload);
            let _ = std::fs::remove_file(&p);
            let class = format!("env:{}", match n { 0 => "empty".to_string(), 1 => "one".to_string(), 55 | 56 | 63 | 64 | 65 | 119 | 120 => format!("shapad{}", n), _ if n >= 4096 => "large".to_string(), _ => "small".to_string() });
            cases.push(&class, &format!("env {}", hexb(&payload)), &hexb(&bytes), &format!("n={}", n));
        }
    }
}

// ------------------------------------------------------------------------------------------------
// load stream

fn load_case(cases: &mut Cases, st: &mut Store, class: &str, orig: Option<&[u8]>, file: &[u8], note: &str) {
    let out = st.load_bytes(file);
    let o = match orig { Some(d) => hexb(d), None => "-".to_string() };
    cases.push(class, &format!("load {} {} {}", o, hexb(file), out), &out, note);
}

fn flip(file: &[u8], bit: usize) -> Vec<u8> { let mut f = file.to_vec(); f[bit / 8] ^= 0x80 >> (bit % 8); f }

fn header_field(bit: usize) -> &'static str { if bit < 64 { "version" } else if bit < 128 { "length" } else if bit < 384 { "digest" } else { "payload" } }

/// every corruption class of one stored file (`payload` is what the database stored in it)
fn load_file(cases: &mut Cases, rng: &mut Rng, st: &mut Store, kind: &str, payload: &[u8], thorough: bool) {
    let (p, file) = st.store("ld", payload);
    let _ = std::fs::remove_file(&p);
    let n = file.len();
    load_case(cases, st, &format!("load:{}:intact", kind), Some(payload), &file, "");
    // truncation: every length class (every length for small files / thorough)
    let mut lens: Vec<usize> = if n <= 80 || (thorough && n <= 400) { (0..n).collect() } else {
        let mut v = vec![0, 1, 7, 8, 9, 15, 16, 17, 31, 47, 48, 49, n / 2, n - 2, n - 1];
        for _ in 0..6 { v.push(rng.below(n as u64) as usize); }
        v
    };
    lens.retain(|&l| l < n); lens.sort(); lens.dedup();
    for l in lens {
        let c = if l == 0 { "empty" } else if l < 48 { "inheader" } else if l == 48 { "headeronly" } else { "inpayload" };
        load_case(cases, st, &format!("load:{}:trunc:{}", kind, c), Some(payload), &file[..l], &format!("len={} of {}", l, n));
    }
    // single-bit flips: EVERY header bit for files up to 2 KiB (sampled above), payload bits sampled (all for small files in thorough)
    let header_bits: Vec<usize> = if n <= 2048 + 48 || thorough && n <= 8192 { (0..384).collect() } else {
        let mut v: Vec<usize> = vec![0, 7, 8, 63, 64, 65, 120, 127, 128, 129, 255, 383];
        for _ in 0..20 { v.push(rng.below(384) as usize); }
        v.sort(); v.dedup(); v
    };
    for b in header_bits { load_case(cases, st, &format!("load:{}:flip:{}", kind, header_field(b)), Some(payload), &flip(&file, b), &format!("bit={}", b)); }
    let pbits = (n - 48) * 8;
    if pbits > 0 {
        let bits: Vec<usize> = if pbits <= 64 || (thorough && pbits <= 2400) { (0..pbits).collect() } else {
            let mut v = vec![0, 1, 7, 8, pbits / 2, pbits - 8, pbits - 1];
            for _ in 0..(if thorough { 60 } else { 17 }) { v.push(rng.below(pbits as u64) as usize); }
            v.sort(); v.dedup(); v
        };
        for b in bits { load_case(cases, st, &format!("load:{}:flip:payload", kind), Some(payload), &flip(&file, 384 + b), &format!("bit={}", 384 + b)); }
    }
    // appended suffixes
    let rl = 1 + rng.below(100) as usize;
    let mut sufs: Vec<Vec<u8>> = vec![vec![0], vec![0xff], vec![0; 8], rand_bytes(rng, rl), file.clone()];
    if n > 48 { sufs.push(file[48..].to_vec()); }
    for s in sufs {
        let mut f = file.clone(); let sl = s.len(); f.extend(s);
        load_case(cases, st, &format!("load:{}:extended", kind), Some(payload), &f, &format!("suffix={}", sl));
    }
    // one byte replaced / two bytes swapped (multi-bit damage)
    for _ in 0..(if thorough { 20 } else { 4 }) {
        let mut f = file.clone(); let i = rng.below(n as u64) as usize; let old = f[i]; f[i] = old.wrapping_add(1 + rng.below(255) as u8);
        load_case(cases, st, &format!("load:{}:byte:{}", kind, header_field(i * 8)), Some(payload), &f, &format!("byte={}", i));
    }
}

fn sha256(d: &[u8]) -> Vec<u8> { use sha2::{Digest, Sha256}; let mut h = Sha256::new(); h.update(d); h.finalize().to_vec() }

fn envelope(version: u64, len: u64, digest: &[u8], payload: &[u8]) -> Vec<u8> {
    let mut f = version.to_be_bytes().to_vec(); f.extend(len.to_be_bytes()); f.extend(digest); f.extend(payload); f
}

/// files the database did not produce
fn load_foreign(cases: &mut Cases, rng: &mut Rng, st: &mut Store, thorough: bool) {
    for &n in &[0usize, 1, 8, 16, 47, 48, 49, 64, 100, 1000] {
        for v in 0..if thorough { 6 } else { 2 } {
            let f = match v { 0 => vec![0u8; n], 1 => rand_bytes(rng, n), 2 => vec![0xff; n], _ => rand_bytes(rng, n) };
            load_case(cases, st, &format!("load:foreign:{}", if v == 0 { "zeros" } else { "random" }), None, &f, &format!("n={}", n));
        }
    }
    // random bytes behind a plausible version / length prefix
    for _ in 0..if thorough { 60 } else { 12 } {
        let n = rng.below(200) as usize;
        let p = rand_bytes(rng, n);
        let f = envelope(0, n as u64, &rand_bytes(rng, 32), &p);
        load_case(cases, st, "load:foreign:goodlen-baddigest", None, &f, "");
        let f = envelope(0, rng.next(), &sha256(&p), &p);
        load_case(cases, st, "load:foreign:gooddigest-badlen", None, &f, "");
        let f = envelope(1 + rng.below(3), n as u64, &sha256(&p), &p);
        load_case(cases, st, "load:foreign:otherversion", None, &f, "");
    }
    // a VALID envelope of other data (made without the database): must come back as exactly that data
    for &n in &[0usize, 1, 5, 64, 300] {
        let p = rand_bytes(rng, n);
        load_case(cases, st, "load:foreign:valid-envelope", None, &envelope(0, n as u64, &sha256(&p), &p), &format!("n={}", n));
    }
    // length fields at the top of the u64 range: `8 + 8 + 32 + data_len` must not wrap or panic
    for k in [0u64, 1, 2, 10, 47, 48, 49, 100] {
        for (what, len_field) in [("wrap", (u64::MAX - 47).wrapping_add(k)), ("max", u64::MAX - k), ("half", 1u64 << 63 | k)] {
            // the file has the length a wrapped sum would ask for (48 + data_len mod 2^64), with a correct digest
            let plen = if what == "wrap" { (k as usize).saturating_sub(48) } else { k as usize };
            let p = rand_bytes(rng, plen);
            load_case(cases, st, &format!("load:foreign:hugelen:{}", what), None, &envelope(0, len_field, &sha256(&p), &p), &format!("len_field={}", len_field));
        }
    }
}

// ------------------------------------------------------------------------------------------------
// seg stream

/// Push `cells` into a real ColumnBuffer the way ingestion does and finalize (compressed as the builder leaves it).
fn build_column(cells: &[Cell], style: u64, name: &str) -> Option<Column> {
    let cells = cells.to_vec();
    let name = name.to_string();
    catch_unwind(AssertUnwindSafe(move || {
        let mut b = ColumnBuffer::default();
        let (mut i, n) = (0, cells.len());
        let max_run = match style % 3 { 0 => usize::MAX, 1 => 1, _ => 5 };
        while i < n {
            let null = cells[i] == Cell::Null;
            let mut j = i;
            while j < n && (cells[j] == Cell::Null) == null && (null || j - i < max_run) { j += 1; }
            let chunk = &cells[i..j];
            if null { b.push_nulls(chunk.len()); } else {
                match &chunk[0] {
                    Cell::Int(_) => b.push_ints(chunk.iter().map(|c| if let Cell::Int(i) = c { *i } else { 0 }), None),
                    Cell::Float(_) => b.push_floats(chunk.iter().map(|c| OrderedFloat(if let Cell::Float(f) = c { f64::from_bits(*f) } else { 0.0 })), None),
                    Cell::Str(_) => { let v: Vec<&str> = chunk.iter().map(|c| if let Cell::Str(s) = c { s.as_str() } else { "" }).collect(); b.push_strings(v.into_iter(), None) }
                    Cell::Null => unreachable!(),
                }
            }
            i = j;
        }
        Arc::try_unwrap(b.finalize(&name)).ok()
    })).ok().flatten()
}

fn try_col(name: &str, len: usize, range: Option<(i64, i64)>, ops: Vec<CodecOp>, data: Vec<DataSection>) -> Option<Column> {
    let name = name.to_string();
    catch_unwind(AssertUnwindSafe(move || Column::new(&name, len, range, ops, data))).ok()
}

const NAMES: &[&str] = &["", "a", "c", "timestamp", "col name", "ünï", "日本", "😀x", "a,b(c)", "x\ty", "_", "n61"];

fn seg_class(cols: &[&Column]) -> String {
    if cols.is_empty() { return "seg:empty".into(); }
    if cols.len() > 1 { return format!("seg:multi{}", cols.len().min(4)); }
    let c = cols[0];
    let k = DataSource::codec(c);
    let ops: Vec<String> = k.ops().iter().map(op_class).collect();
    let secs: Vec<&str> = c.data().iter().map(sec_kind).collect();
    format!("seg:{}:{}", if ops.is_empty() { "id".to_string() } else { ops.join(".") }, secs.join("+"))
}

fn seg_case(cases: &mut Cases, st: &mut Store, cols: &[&Column], origin: &str) {
    let obj = seg_tok(cols);
    let d0 = seg_derived(cols);
    let class = format!("{}:{}", seg_class(cols), origin);
    let ser = catch_unwind(AssertUnwindSafe(|| PartitionSegment::serialize(cols)));
    let payload = match ser {
        Err(_) => { cases.push(&format!("{}:writer-panic", class), &format!("seg {} - {} -", obj, d0), "panic", "serialize panicked"); return; }
        Ok(p) => p,
    };
    let loaded = match st.roundtrip("part", &payload) { Ok(d) => d, Err(e) => { cases.push(&class, &format!("seg {} envelope-{} {} -", obj, e.replace(' ', "_"), d0), "envelope-failed", &e); return; } };
    let envelope_note = if loaded == payload { "" } else { "ENVELOPE RETURNED DIFFERENT PAYLOAD" };
    let tree = seg_tree(&loaded).unwrap_or_else(|e| format!("tree-error:{}", e.to_string().replace([' ', '\t'], "_")));
    let back = catch_unwind(AssertUnwindSafe(|| PartitionSegment::deserialize(&loaded)));
    let (back_tok, d1) = match back {
        Err(_) => ("panic".to_string(), "-".to_string()),
        Ok(Err(e)) => (format!("err:{}", e.to_string().replace([' ', '\t'], "_")), "-".to_string()),
        Ok(Ok(seg)) => { let cs: Vec<&Column> = seg.columns.iter().collect(); (seg_tok(&cs), seg_derived(&cs)) }
    };
    let back_tok = if envelope_note.is_empty() { back_tok } else { format!("envelope-changed-payload:{}", back_tok) };
    cases.push(&class, &format!("seg {} {} {} {}", obj, back_tok, d0, d1), &format!("{} {}", tree, back_tok), envelope_note);
}

fn rand_storable_enc(rng: &mut Rng) -> EncodingType {
    *rng.pick(&[EncodingType::U8, EncodingType::U16, EncodingType::U32, EncodingType::U64, EncodingType::I64, EncodingType::Null, EncodingType::F64, EncodingType::Bitvec])
}
fn rand_any_enc(rng: &mut Rng) -> EncodingType {
    if rng.chance(9, 10) { rand_storable_enc(rng) } else {
        *rng.pick(&[EncodingType::Str, EncodingType::Val, EncodingType::USize, EncodingType::NullableStr, EncodingType::NullableI64, EncodingType::NullableU8,
            EncodingType::NullableU16, EncodingType::NullableU32, EncodingType::NullableU64, EncodingType::NullableF64, EncodingType::OptStr, EncodingType::ScalarI64,
            EncodingType::ScalarF64, EncodingType::ScalarStr, EncodingType::ScalarString, EncodingType::ConstVal, EncodingType::ByteSlices(3), EncodingType::ValRows,
            EncodingType::Premerge, EncodingType::MergeOp])
    }
}
fn rand_usize(rng: &mut Rng) -> usize {
    match rng.below(6) { 0 => 0, 1 => 1, 2 => usize::MAX, 3 => u32::MAX as usize + rng.below(3) as usize, 4 => rng.next() as usize, _ => rng.below(1000) as usize }
}
fn rand_i64(rng: &mut Rng) -> i64 {
    match rng.below(6) { 0 => 0, 1 => i64::MIN, 2 => i64::MAX, 3 => -1, 4 => rng.next() as i64, _ => rng.range(-1000, 1000) }
}
fn rand_f64bits(rng: &mut Rng) -> u64 {
    match rng.below(8) { 0 => 0, 1 => 0x8000_0000_0000_0000, 2 => F64_NULL_BITS, 3 => 0x7ff0_0000_0000_0001, 4 => 0xfff8_0000_0000_0000, 5 => 0x7ff0_0000_0000_0000, 6 => 1, _ => rng.next() }
}

fn rand_section(rng: &mut Rng, kind: u64) -> DataSection {
    let n = *rng.pick(&[0usize, 1, 2, 3, 9, 40]);
    match kind % 10 {
        0 => DataSection::U8(rand_bytes(rng, n)),
        1 => DataSection::U16((0..n).map(|_| *rng.pick(&[0u16, 1, 255, 256, u16::MAX, 0x1234])).collect()),
        2 => DataSection::U32((0..n).map(|_| *rng.pick(&[0u32, 1, 65535, 65536, u32::MAX, 0x12345678])).collect()),
        3 => DataSection::U64((0..n).map(|_| *rng.pick(&[0u64, 1, u32::MAX as u64 + 1, u64::MAX, 1 << 63, 0x0123456789abcdef])).collect()),
        4 => DataSection::I64((0..n).map(|_| rand_i64(rng)).collect()),
        5 => DataSection::F64((0..n).map(|_| OrderedFloat(f64::from_bits(rand_f64bits(rng)))).collect()),
        6 => DataSection::Null(rand_usize(rng)),
        7 => DataSection::Bitvec(rand_bytes(rng, n)),
        8 => DataSection::LZ4 { decoded_bytes: rand_usize(rng), bytes_per_element: *rng.pick(&[0usize, 1, 2, 4, 8, usize::MAX]), data: rand_bytes(rng, n) },
        _ => DataSection::Pco { decoded_bytes: rand_usize(rng), bytes_per_element: *rng.pick(&[1usize, 4, 8, 0]), data: rand_bytes(rng, n), is_fp32: rng.chance(1, 2) },
    }
}

fn rand_op(rng: &mut Rng, nsec: usize, any_enc: bool) -> CodecOp {
    let t = |rng: &mut Rng| if any_enc { rand_any_enc(rng) } else { rand_storable_enc(rng) };
    match rng.below(10) {
        0 => CodecOp::Nullable,
        1 => CodecOp::Add(t(rng), rand_i64(rng)),
        2 => CodecOp::Delta(t(rng)),
        3 => CodecOp::ToI64(t(rng)),
        4 => CodecOp::PushDataSection(rng.below(nsec.max(1) as u64) as usize),
        5 => CodecOp::DictLookup(t(rng)),
        6 => CodecOp::LZ4(t(rng), rand_usize(rng)),
        7 => CodecOp::Pco(t(rng), rand_usize(rng), rng.chance(1, 2)),
        8 => CodecOp::UnpackStrings,
        _ => CodecOp::UnhexpackStrings(rng.chance(1, 2), rand_usize(rng)),
    }
}

/// a random column that `Column::new` accepts (ops / sections the builders never combine)
fn rand_column(rng: &mut Rng, any_enc: bool) -> Option<Column> {
    for _ in 0..60 {
        let nsec = 1 + rng.below(4) as usize;
        let data: Vec<DataSection> = (0..nsec).map(|_| { let k = rng.below(10); rand_section(rng, k) }).collect();
        let nops = rng.below(5) as usize;
        let ops: Vec<CodecOp> = (0..nops).map(|_| rand_op(rng, nsec, any_enc)).collect();
        let range = match rng.below(4) { 0 => None, 1 => Some((i64::MIN, i64::MAX)), 2 => Some((rand_i64(rng), rand_i64(rng))), _ => Some((0, 0)) };
        let nm = *rng.pick(NAMES); let ln = rand_usize(rng);
        if let Some(c) = try_col(nm, ln, range, ops, data) { return Some(c); }
    }
    None
}

fn handmade_columns(rng: &mut Rng) -> Vec<Column> {
    use CodecOp::*;
    use EncodingType as E;
    let f = |bits: &[u64]| DataSection::F64(bits.iter().map(|b| OrderedFloat(f64::from_bits(*b))).collect());
    let mut v: Vec<Option<Column>> = vec![
        // identity codecs over every section kind that has a basic type
        try_col("id_i64", 3, Some((-1, 7)), vec![], vec![DataSection::I64(vec![-1, 7, i64::MIN])]),
        try_col("id_f64", 4, None, vec![], vec![f(&[0, 0x8000_0000_0000_0000, F64_NULL_BITS, 0x7ff0_0000_0000_0001])]),
        try_col("id_null", 9, None, vec![], vec![DataSection::Null(9)]),
        try_col("id_null_max", usize::MAX, None, vec![], vec![DataSection::Null(usize::MAX)]),
        try_col("id_i64_empty", 0, None, vec![], vec![DataSection::I64(vec![])]),
        // every op kind over every integer width
        try_col("add8", 2, Some((i64::MIN, i64::MAX)), vec![Add(E::U8, i64::MIN)], vec![DataSection::U8(vec![0, 255])]),
        try_col("add16", 2, Some((0, 1)), vec![Add(E::U16, i64::MAX)], vec![DataSection::U16(vec![0, 65535])]),
        try_col("add32", 2, None, vec![Add(E::U32, -1)], vec![DataSection::U32(vec![0, u32::MAX])]),
        try_col("add64", 2, None, vec![Add(E::U64, 0)], vec![DataSection::U64(vec![0, u64::MAX])]),
        try_col("addi64", 1, None, vec![Add(E::I64, 5)], vec![DataSection::I64(vec![1])]),
        try_col("delta8", 3, None, vec![Delta(E::U8)], vec![DataSection::U8(vec![1, 2, 3])]),
        try_col("delta16", 3, None, vec![Delta(E::U16)], vec![DataSection::U16(vec![1, 2, 3])]),
        try_col("delta32", 3, None, vec![Delta(E::U32)], vec![DataSection::U32(vec![1, 2, 3])]),
        try_col("delta64", 3, None, vec![Delta(E::U64)], vec![DataSection::U64(vec![1, 2, 3])]),
        try_col("deltai64", 3, None, vec![Delta(E::I64)], vec![DataSection::I64(vec![1, -2, 3])]),
        try_col("toi8", 1, None, vec![ToI64(E::U8)], vec![DataSection::U8(vec![9])]),
        try_col("toi16", 1, None, vec![ToI64(E::U16)], vec![DataSection::U16(vec![9])]),
        try_col("toi32", 1, None, vec![ToI64(E::U32)], vec![DataSection::U32(vec![9])]),
        try_col("toi64", 1, None, vec![ToI64(E::U64)], vec![DataSection::U64(vec![9])]),
        try_col("delta_add", 2, None, vec![Delta(E::U16), Add(E::I64, -3)], vec![DataSection::U16(vec![4, 4])]),
        // nullable over every payload type
        try_col("null_i64", 2, None, vec![PushDataSection(1), Nullable], vec![DataSection::I64(vec![1, 2]), DataSection::Bitvec(vec![1])]),
        try_col("null_f64", 2, None, vec![PushDataSection(1), Nullable], vec![f(&[1, 2]), DataSection::Bitvec(vec![2])]),
        try_col("null_u8_toi", 2, None, vec![PushDataSection(1), Nullable, ToI64(E::U8)], vec![DataSection::U8(vec![1, 2]), DataSection::Bitvec(vec![3])]),
        try_col("null_u16_add", 2, None, vec![PushDataSection(1), Nullable, Add(E::U16, 7)], vec![DataSection::U16(vec![1, 2]), DataSection::Bitvec(vec![3])]),
        try_col("null_u32", 2, None, vec![PushDataSection(1), Nullable, ToI64(E::U32)], vec![DataSection::U32(vec![1, 2]), DataSection::Bitvec(vec![3])]),
        try_col("null_u64", 2, None, vec![PushDataSection(1), Nullable, ToI64(E::U64)], vec![DataSection::U64(vec![1, 2]), DataSection::Bitvec(vec![3])]),
        // dictionaries with index widths u8 / u16 / u32 / u64, nullable dictionary
        try_col("dict8", 2, Some((0, 1)), vec![PushDataSection(1), PushDataSection(2), DictLookup(E::U8)], vec![DataSection::U8(vec![0, 1]), DataSection::U64(vec![0, 1, 1, 2]), DataSection::U8(b"abc".to_vec())]),
        try_col("dict16", 2, None, vec![PushDataSection(1), PushDataSection(2), DictLookup(E::U16)], vec![DataSection::U16(vec![0, 1]), DataSection::U64(vec![0, 1, 1, 2]), DataSection::U8(b"abc".to_vec())]),
        try_col("dict32", 2, None, vec![PushDataSection(1), PushDataSection(2), DictLookup(E::U32)], vec![DataSection::U32(vec![0, 1]), DataSection::U64(vec![0, 1, 1, 2]), DataSection::U8(b"abc".to_vec())]),
        try_col("dict64", 2, None, vec![PushDataSection(1), PushDataSection(2), DictLookup(E::U64)], vec![DataSection::U64(vec![0, 1]), DataSection::U64(vec![0, 1, 1, 2]), DataSection::U8(b"abc".to_vec())]),
        try_col("dict_null", 2, None, vec![PushDataSection(3), Nullable, PushDataSection(1), PushDataSection(2), DictLookup(E::U8)],
            vec![DataSection::U8(vec![0, 1]), DataSection::U64(vec![0, 1, 1, 2]), DataSection::U8(b"abc".to_vec()), DataSection::Bitvec(vec![1])]),
        // packed strings, both hex flavours, extreme byte counts
        try_col("unpack", 2, None, vec![UnpackStrings], vec![DataSection::U8(vec![1, b'a', 0])]),
        try_col("unhex_l", 2, None, vec![UnhexpackStrings(false, 0)], vec![DataSection::U8(vec![1, 0xab])]),
        try_col("unhex_u", 2, None, vec![UnhexpackStrings(true, usize::MAX)], vec![DataSection::U8(vec![1, 0xab])]),
        // lz4 / pco sections and ops over every element type the compressor is applied to, both fp32 flags
        try_col("lz4_u8", 5, None, vec![LZ4(E::U8, 5), ToI64(E::U8)], vec![DataSection::LZ4 { decoded_bytes: 5, bytes_per_element: 1, data: vec![1, 2, 3] }]),
        try_col("lz4_u16", 5, None, vec![LZ4(E::U16, 5), ToI64(E::U16)], vec![DataSection::LZ4 { decoded_bytes: 10, bytes_per_element: 2, data: vec![] }]),
        try_col("lz4_u32", 5, None, vec![LZ4(E::U32, usize::MAX), Add(E::U32, 1)], vec![DataSection::LZ4 { decoded_bytes: usize::MAX, bytes_per_element: 4, data: vec![0xff; 9] }]),
        try_col("lz4_u64", 5, None, vec![LZ4(E::U64, 5), Delta(E::U64)], vec![DataSection::LZ4 { decoded_bytes: 40, bytes_per_element: 8, data: vec![7] }]),
        try_col("lz4_i64", 5, None, vec![LZ4(E::I64, 5)], vec![DataSection::LZ4 { decoded_bytes: 40, bytes_per_element: 8, data: vec![7] }]),
        try_col("lz4_f64", 5, None, vec![LZ4(E::F64, 5)], vec![DataSection::LZ4 { decoded_bytes: 40, bytes_per_element: 8, data: vec![7] }]),
        try_col("lz4_str", 5, None, vec![LZ4(E::U8, 50), UnpackStrings], vec![DataSection::LZ4 { decoded_bytes: 50, bytes_per_element: 1, data: vec![7, 8] }]),
        try_col("pco_i64", 5, None, vec![Pco(E::I64, 5, false)], vec![DataSection::Pco { decoded_bytes: 40, bytes_per_element: 8, data: vec![1, 2], is_fp32: false }]),
        try_col("pco_f64", 5, None, vec![Pco(E::F64, 5, false)], vec![DataSection::Pco { decoded_bytes: 40, bytes_per_element: 8, data: vec![1, 2], is_fp32: false }]),
        try_col("pco_f32", 5, None, vec![Pco(E::F64, 5, true)], vec![DataSection::Pco { decoded_bytes: 20, bytes_per_element: 4, data: vec![1, 2], is_fp32: true }]),
        try_col("pco_mixflag", 5, None, vec![Pco(E::F64, 5, true)], vec![DataSection::Pco { decoded_bytes: 20, bytes_per_element: 4, data: vec![], is_fp32: false }]),
        try_col("pco_u32", 5, None, vec![Pco(E::U32, 0, false), ToI64(E::U32)], vec![DataSection::Pco { decoded_bytes: 0, bytes_per_element: 4, data: vec![1], is_fp32: false }]),
        try_col("pco_u64", 5, None, vec![Pco(E::U64, 1, false), Add(E::U64, -9)], vec![DataSection::Pco { decoded_bytes: 8, bytes_per_element: 8, data: vec![1], is_fp32: false }]),
        try_col("pco_u16", 5, None, vec![Pco(E::U16, 1, false), ToI64(E::U16)], vec![DataSection::Pco { decoded_bytes: 2, bytes_per_element: 2, data: vec![1], is_fp32: false }]),
        // ops whose element type the writer cannot store (serialize must panic, never write something else)
        try_col("bad_toi_str", 1, None, vec![ToI64(E::Str)], vec![DataSection::I64(vec![1])]),
        try_col("bad_add_usize", 1, None, vec![Add(E::USize, 1)], vec![DataSection::I64(vec![1])]),
        try_col("bad_delta_nullable", 1, None, vec![Delta(E::NullableI64)], vec![DataSection::I64(vec![1])]),
        try_col("bad_lz4_str", 1, None, vec![LZ4(E::Str, 1)], vec![DataSection::U8(vec![1])]),
        try_col("bad_dict_byteslices", 1, None, vec![PushDataSection(1), PushDataSection(2), DictLookup(E::ByteSlices(4))], vec![DataSection::U8(vec![0]), DataSection::U64(vec![0, 1]), DataSection::U8(vec![b'a'])]),
        // unused trailing sections of every kind
        try_col("all_sections", 1, None, vec![ToI64(E::U8)], (0..10).map(|k| rand_section(rng, k)).collect()),
    ];
    let mut out: Vec<Column> = vec![];
    for c in v.drain(..) { if let Some(c) = c { out.push(c); } }
    out
}

fn builder_columns(rng: &mut Rng, thorough: bool) -> Vec<(String, Column)> {
    let mut out = vec![];
    let lens: &[usize] = if thorough { &[0, 1, 2, 8, 9, 17, 64, 65, 130, 300, 700] } else { &[1, 9, 65, 300] };
    let add = |out: &mut Vec<(String, Column)>, rng: &mut Rng, gen: String, cells: Vec<Cell>| {
        let n = cells.len();
        for nulls in [false, true] {
            let mut cs = cells.clone();
            if nulls { if n == 0 { continue; } let mut m = gen_null_mask(rng, n); m[rng.below(n as u64) as usize] = true; cs = apply_nulls(cs, &m); }
            let name = *rng.pick(NAMES);
            if let Some(c) = build_column(&cs, rng.below(6), name) { out.push((gen.clone(), c)); }
        }
    };
    for class in INT_CLASSES { for &n in lens { let v = gen_ints(rng, n, class); add(&mut out, rng, format!("int-{}", class), v.into_iter().map(Cell::Int).collect()); } }
    // monotone runs: delta coding over every width
    for (name, lo, hi) in [("d8", 1i64, 200i64), ("d16", 300, 60_000), ("d32", 70_000, 4_000_000_000), ("d64", 1 << 33, 1 << 50)] {
        for &n in lens { let mut x = rng.range(-1000, 1000); let v: Vec<Cell> = (0..n).map(|_| { x = x.saturating_add(rng.range(lo, hi)); Cell::Int(x) }).collect(); add(&mut out, rng, format!("int-{}", name), v); }
    }
    // compressible runs (lz4 / pco sections)
    for &n in &[300usize, 700, 2000] {
        let a = rng.range(-3, 300); let b = rng.range(0, 70_000);
        add(&mut out, rng, "int-runs".into(), (0..n).map(|i| Cell::Int(if (i / 40) % 2 == 0 { a } else { b })).collect());
        add(&mut out, rng, "int-bigruns".into(), (0..n).map(|i| Cell::Int(if i % 50 == 49 { 1 << 40 } else { 7 })).collect());
        add(&mut out, rng, "float-runs".into(), (0..n).map(|i| Cell::f((i / 30) as f64 * 0.5)).collect());
        add(&mut out, rng, "float-f32".into(), (0..n).map(|i| Cell::f((i as f32 * 0.125) as f64)).collect());
        add(&mut out, rng, "str-runs".into(), (0..n).map(|i| Cell::Str(format!("value-{}", i / 100))).collect());
    }
    for class in ["dyadic", "edges", "f32", "nan", "bits"] { for &n in lens { let v = gen_floats(rng, n, class); add(&mut out, rng, format!("float-{}", class), v.into_iter().map(Cell::f).collect()); } }
    let mut slens: Vec<usize> = lens.to_vec(); slens.push(600);
    for class in ["lowcard", "highcard", "hex", "HEX", "long", "pool", "dict16"] {
        for &n in &slens {
            if class == "dict16" && n < 600 { continue; }
            let v: Vec<Cell> = if class == "dict16" { (0..n).map(|i| Cell::Str(format!("k{}", (i * 7919) % 280))).collect() } else { gen_strs(rng, n, class).into_iter().map(Cell::Str).collect() };
            add(&mut out, rng, format!("str-{}", class), v);
        }
    }
    for &n in lens { add(&mut out, rng, "null".into(), vec![Cell::Null; n]); }
    // mixed buffer (strings + numbers in one column)
    add(&mut out, rng, "mixed".into(), vec![Cell::Str("a".into()), Cell::Int(5), Cell::f(1.5), Cell::Str("zz".into())]);
    out
}

fn seg_stream(cases: &mut Cases, rng: &mut Rng, st: &mut Store, thorough: bool) -> Vec<Vec<u8>> {
    let mut sample_payloads = vec![];
    seg_case(cases, st, &[], "handmade");
    let built = builder_columns(rng, thorough);
    for (gen, c) in &built { seg_case(cases, st, &[c], &format!("builder:{}", gen.split('-').next().unwrap())); }
    let hand = handmade_columns(rng);
    for c in &hand { seg_case(cases, st, &[c], "handmade"); }
    let nrand = if thorough { 3000 } else { 400 };
    let mut rands = vec![];
    for i in 0..nrand { if let Some(c) = rand_column(rng, i % 5 == 4) { rands.push(c); } }
    for c in &rands { seg_case(cases, st, &[c], "random"); }
    // multi-column files (what write_subpartitions stores): mixtures of all three origins, duplicate names allowed
    let all: Vec<&Column> = built.iter().map(|x| &x.1).chain(hand.iter()).chain(rands.iter()).filter(|c| catch_unwind(AssertUnwindSafe(|| PartitionSegment::serialize(&[c]))).is_ok() && c.data().iter().map(|d| match d { DataSection::U8(x) => x.len(), DataSection::F64(x) => x.len() * 8, DataSection::I64(x) => x.len() * 8, _ => 0 }).sum::<usize>() < 4000).collect();
    for i in 0..if thorough { 300 } else { 40 } {
        let k = 2 + rng.below(4) as usize;
        let cols: Vec<&Column> = (0..k).map(|_| *rng.pick(&all)).collect();
        seg_case(cases, st, &cols, "mixed");
        if i < 3 { sample_payloads.push(PartitionSegment::serialize(&cols)); }
    }
    sample_payloads
}

// ------------------------------------------------------------------------------------------------
// wal / evb streams

fn rand_colrep(rng: &mut Rng, kind: u64, len: u64) -> ColRep {
    let n = len as usize;
    let fl = |rng: &mut Rng| f64::from_bits(rand_f64bits(rng));
    match kind % 7 {
        0 => ColRep::Empty,
        1 => ColRep::Dense((0..if rng.chance(1, 4) { rng.below(len + 1) as usize } else { n }).map(|_| fl(rng)).collect()),
        2 => { let mut v = vec![]; for i in 0..n { if rng.chance(1, 2) { v.push((i as u64, fl(rng))); } } ColRep::Sparse(v) }
        3 => ColRep::I64((0..if rng.chance(1, 4) { rng.below(len + 1) as usize } else { n }).map(|_| rand_i64(rng)).collect()),
        4 => { let mut v = vec![]; for i in 0..n { if rng.chance(1, 2) { v.push((if rng.chance(1, 10) { rng.next() } else { i as u64 }, rand_i64(rng))); } } ColRep::SparseI64(v) }
        5 => ColRep::Str((0..n).map(|_| rng.pick(STR_POOL).to_string()).collect()),
        _ => ColRep::Mixed((0..n).map(|_| match rng.below(4) { 0 => Cell::Int(rand_i64(rng)), 1 => Cell::Float(rand_f64bits(rng)), 2 => Cell::Str(rng.pick(STR_POOL).to_string()), _ => Cell::Null }).collect()),
    }
}

fn rand_event_buffer(rng: &mut Rng, ntables: usize, kinds: Option<u64>) -> EventBuffer {
    let mut names: Vec<&str> = NAMES.to_vec();
    let mut batches = vec![];
    for _ in 0..ntables {
        let table = names.remove(rng.below(names.len() as u64) as usize).to_string();
        let len = *rng.pick(&[0u64, 1, 2, 3, 8, 20]);
        let ncols = rng.below(5) as usize;
        let mut cnames: Vec<&str> = NAMES.to_vec();
        let cols = (0..ncols).map(|_| { let k = kinds.unwrap_or_else(|| rng.below(7)); (cnames.remove(rng.below(cnames.len() as u64) as usize).to_string(), rand_colrep(rng, k, len)) }).collect();
        batches.push(Batch { table, len: if rng.chance(1, 8) { rng.next() } else { len }, cols });
    }
    event_buffer(&batches)
}

fn eb_class(eb: &EventBuffer) -> String {
    let mut kinds: Vec<&str> = eb.tables.values().flat_map(|t| t.columns().map(|c| coldata_kind(&c.1.data)).collect::<Vec<_>>()).collect();
    kinds.sort(); kinds.dedup();
    format!("t{}:{}", eb.tables.len().min(3), if kinds.is_empty() { "nocols".to_string() } else { kinds.join("+") })
}

fn wal_case(cases: &mut Cases, st: &mut Store, id: u64, eb: &EventBuffer, origin: &str) -> Vec<u8> {
    let obj = format!("wal({},{})", id, tables_tok(eb));
    let payload = WalSegment { id, data: std::borrow::Cow::Borrowed(eb) }.serialize();
    let class = format!("wal:{}:{}", eb_class(eb), origin);
    let loaded = match st.roundtrip("wal", &payload) { Ok(d) => d, Err(e) => { cases.push(&class, &format!("wal {} envelope-{}", obj, e.replace(' ', "_")), "envelope-failed", &e); return payload; } };
    let tree = wal_tree(&loaded, true).unwrap_or_else(|e| format!("tree-error:{}", e.to_string().replace([' ', '\t'], "_")));
    let back = match catch_unwind(AssertUnwindSafe(|| WalSegment::deserialize(&loaded))) {
        Err(_) => "panic".to_string(),
        Ok(Err(e)) => format!("err:{}", e.to_string().replace([' ', '\t'], "_")),
        Ok(Ok(w)) => format!("wal({},{})", w.id, tables_tok(&w.data)),
    };
    let back = if loaded == payload { back } else { format!("envelope-changed-payload:{}", back) };
    cases.push(&class, &format!("wal {} {}", obj, back), &format!("{} {}", tree, back), "");
    payload
}

fn evb_case(cases: &mut Cases, eb: &EventBuffer, origin: &str) {
    let obj = tables_tok(eb);
    let bytes = eb.serialize();
    let tree = evb_tree(&bytes, true).unwrap_or_else(|e| format!("tree-error:{}", e.to_string().replace([' ', '\t'], "_")));
    let back = match catch_unwind(AssertUnwindSafe(|| EventBuffer::deserialize(&bytes))) {
        Err(_) => "panic".to_string(),
        Ok(Err(e)) => format!("err:{}", e.to_string().replace([' ', '\t'], "_")),
        Ok(Ok(e2)) => tables_tok(&e2),
    };
    cases.push(&format!("evb:{}:{}", eb_class(eb), origin), &format!("evb {} {}", obj, back), &format!("{} {}", tree, back), "");
}

fn wal_stream(cases: &mut Cases, rng: &mut Rng, st: &mut Store, thorough: bool) -> Vec<Vec<u8>> {
    let mut samples = vec![];
    let ids = [0u64, 1, 2, 77, u32::MAX as u64 + 1, u64::MAX - 1, u64::MAX];
    // no tables; one table without columns
    samples.push(wal_case(cases, st, 0, &EventBuffer::default(), "handmade"));
    evb_case(cases, &EventBuffer::default(), "handmade");
    // every representation alone, then random mixtures
    for k in 0..7 { for rep in 0..if thorough { 12 } else { 3 } {
        let eb = rand_event_buffer(rng, 1 + (rep % 2), Some(k));
        wal_case(cases, st, *rng.pick(&ids), &eb, "wire-single"); evb_case(cases, &eb, "wire-single");
    } }
    for i in 0..if thorough { 800 } else { 80 } {
        let nt = rng.below(4) as usize;
        let eb = rand_event_buffer(rng, nt, None);
        let p = wal_case(cases, st, if i % 3 == 0 { rng.next() } else { *rng.pick(&ids) }, &eb, "wire-random"); evb_case(cases, &eb, "wire-random");
        if i < 2 { samples.push(p); }
    }
    // the row API (what the logging client builds)
    for _ in 0..if thorough { 100 } else { 12 } {
        let mut eb = EventBuffer::default();
        for t in 0..1 + rng.below(2) {
            let tb = eb.tables.entry(format!("rows{}", t)).or_default();
            let kind = rng.below(3);
            for r in 0..1 + rng.below(6) {
                let mut row: Vec<(String, AnyVal)> = vec![];
                if kind == 0 || rng.chance(1, 2) { row.push(("i".into(), AnyVal::Int(rand_i64(rng)))); }
                if rng.chance(2, 3) { row.push(("f".into(), AnyVal::Float(r as f64 * 0.5))); }
                if kind != 1 { row.push(("s".into(), AnyVal::Str(rng.pick(STR_POOL).to_string()))); }
                if rng.chance(1, 3) { row.push(("n".into(), AnyVal::Null)); }
                if rng.chance(1, 2) { row.push(("timestamp".into(), AnyVal::Float(1.0e9 + r as f64))); }
                tb.push_row_and_timestamp(row);
            }
        }
        wal_case(cases, st, rng.below(1000), &eb, "rows"); evb_case(cases, &eb, "rows");
    }
    // TableBuffer::new over dense columns
    for _ in 0..if thorough { 40 } else { 6 } {
        let n = rng.below(5) as usize;
        let mut cols = HashMap::new();
        cols.insert("d".to_string(), EvColumnBuffer { data: ColumnData::Dense((0..n).map(|i| i as f64).collect()) });
        cols.insert("i".to_string(), EvColumnBuffer { data: ColumnData::I64((0..n).map(|_| rand_i64(rng)).collect()) });
        cols.insert("e".to_string(), EvColumnBuffer { data: ColumnData::Empty });
        cols.insert("m".to_string(), EvColumnBuffer { data: ColumnData::Mixed((0..n).map(|i| if i % 2 == 0 { AnyVal::Null } else { AnyVal::Str("é".into()) }).collect()) });
        let mut eb = EventBuffer::default();
        eb.tables.insert("tb".into(), TableBuffer::new(cols));
        wal_case(cases, st, 5, &eb, "tablebuffer-new"); evb_case(cases, &eb, "tablebuffer-new");
    }
    samples
}

// ------------------------------------------------------------------------------------------------
// meta stream

fn rand_meta(rng: &mut Rng, ntables: usize, max_parts: u64, max_subs: u64) -> MetaStore {
    let mut ms = MetaStore::default();
    match rng.below(5) { 0 => {}, 1 => ms.register_wal_segment(u64::MAX - 1), 2 => ms.register_wal_segment(rng.next() >> 1), _ => ms.register_wal_segment(rng.below(50)) }
    match rng.below(5) { 0 => {}, 1 => ms.advance_earliest_unflushed_wal_id(u64::MAX), 2 => ms.advance_earliest_unflushed_wal_id(rng.next()), _ => ms.advance_earliest_unflushed_wal_id(rng.below(50)) }
    let mut names: Vec<&str> = NAMES.to_vec();
    for _ in 0..ntables {
        let table = names.remove(rng.below(names.len() as u64) as usize).to_string();
        let nparts = if max_parts == 0 { 0 } else { 1 + rng.below(max_parts) };
        for _ in 0..nparts {
            let id = match rng.below(4) { 0 => rng.next(), 1 => u64::MAX, _ => rng.below(6) };
            let nsubs = rng.below(max_subs + 1) as usize;
            let mut subs = vec![];
            let mut idx = BTreeMap::new();
            for i in 0..nsubs {
                let last = match rng.below(5) { 0 => String::new(), 1 => "zzz".to_string(), _ => rng.pick(NAMES).to_string() };
                let key = match rng.below(4) { 0 => "all".to_string(), 1 => last.clone(), 2 => String::new(), _ => format!("x{:016x}", rng.next()) };
                idx.insert(last.clone(), i);
                subs.push(SubpartitionMetadata { size_bytes: match rng.below(4) { 0 => 0, 1 => u64::MAX, _ => rng.below(1 << 20) }, subpartition_key: key, last_column: last,
                    loaded: Arc::new(AtomicBool::new(rng.chance(1, 2))) });
            }
            // sometimes an index that is NOT what the two construction sites would build (the round trip must rebuild it)
            if rng.chance(1, 5) { idx.insert("stale".into(), 99); }
            if rng.chance(1, 8) { idx.clear(); }
            ms.insert_partition(PartitionMetadata { id, tablename: table.clone(), offset: rand_usize(rng), len: rand_usize(rng), subpartitions: subs, subpartitions_by_last_column: idx });
        }
    }
    ms
}

fn meta_case(cases: &mut Cases, st: &mut Store, ms: &MetaStore, origin: &str) -> Vec<u8> {
    let obj = meta_tok(ms);
    let payload = verif_metastore_serialize(ms);
    let nt = { let mut t: Vec<&String> = ms.partitions().map(|p| &p.tablename).collect(); t.sort(); t.dedup(); t.len() };
    let maxsubs = ms.partitions().map(|p| p.subpartitions.len()).max().unwrap_or(0);
    let class = format!("meta:t{}:p{}:s{}:{}", nt.min(3), ms.partitions().count().min(4), maxsubs.min(3), origin);
    let loaded = match st.roundtrip("meta", &payload) { Ok(d) => d, Err(e) => { cases.push(&class, &format!("meta {} envelope-{}", obj, e.replace(' ', "_")), "envelope-failed", &e); return payload; } };
    let tree = meta_tree(&loaded, true).unwrap_or_else(|e| format!("tree-error:{}", e.to_string().replace([' ', '\t'], "_")));
    let back = match catch_unwind(AssertUnwindSafe(|| MetaStore::deserialize(&loaded))) {
        Err(_) => "panic".to_string(),
        Ok(Err(e)) => format!("err:{}", e.to_string().replace([' ', '\t'], "_")),
        Ok(Ok(m2)) => {
            // reading twice changes nothing (normalise is a projection)
            let again = MetaStore::deserialize(&verif_metastore_serialize(&m2)).map(|m3| meta_tok(&m3)).unwrap_or_else(|e| format!("err2:{}", e));
            let b = meta_tok(&m2);
            if again == b { b } else { format!("second-read-differs:{}", again) }
        }
    };
    let back = if loaded == payload { back } else { format!("envelope-changed-payload:{}", back) };
    cases.push(&class, &format!("meta {} {}", obj, back), &format!("{} {}", tree, back), "");
    payload
}

fn meta_stream(cases: &mut Cases, rng: &mut Rng, st: &mut Store, thorough: bool) -> Vec<Vec<u8>> {
    let mut samples = vec![];
    samples.push(meta_case(cases, st, &MetaStore::default(), "default"));
    for nt in 0..4 { for mp in 0..4u64 { for msub in 0..4u64 { for _ in 0..if thorough { 12 } else { 2 } {
        let ms = rand_meta(rng, nt, mp, msub);
        let p = meta_case(cases, st, &ms, "random");
        if nt == 2 && mp == 2 && msub == 2 && samples.len() < 3 { samples.push(p); }
    } } } }
    samples
}

// ------------------------------------------------------------------------------------------------
// openclass stream: LocustDB::new on a directory with one corrupted file, in a child process with a deadline

fn copy_dir(src: &Path, dst: &Path) {
    std::fs::create_dir_all(dst).unwrap();
    for e in std::fs::read_dir(src).unwrap().flatten() {
        let p = e.path();
        if p.is_dir() { copy_dir(&p, &dst.join(e.file_name())); } else { std::fs::copy(&p, dst.join(e.file_name())).unwrap(); }
    }
}

fn all_files(dir: &Path, out: &mut Vec<PathBuf>) {
    if let Ok(rd) = std::fs::read_dir(dir) { for e in rd.flatten() { let p = e.path(); if p.is_dir() { all_files(&p, out); } else { out.push(p); } } }
    out.sort();
}

const OPEN_TABLES: [&str; 2] = ["t0", "t1"];

fn dump_db(db: &Arc<LocustDB>, deadline: u64) -> String {
    let mut parts = vec![];
    for t in OPEN_TABLES {
        match query_full(db, &format!("SELECT * FROM {}", t), false, deadline) {
            QOut::Ok { cols, .. } => {
                let mut cols = cols; cols.sort_by(|a, b| a.0.cmp(&b.0));
                let n = cols.iter().map(|c| c.1.len()).max().unwrap_or(0);
                let mut rows: Vec<String> = (0..n).map(|i| cols.iter().map(|c| format!("{}={}", c.0, c.1.get(i).map(|x| x.tok()).unwrap_or("?".into()))).collect::<Vec<_>>().join("/")).collect();
                rows.sort();
                parts.push(format!("{}:{}", t, rows.join(";")));
            }
            QOut::Err(k) => return format!("!query-err-{}", k),
            QOut::Panic(_) => return "!query-panic".into(),
            QOut::Hang => return "!query-hang".into(),
        }
    }
    parts.join("|")
}

fn child_open(a: &[String]) -> ! {
    let dir = PathBuf::from(&a[0]);
    let qdeadline: u64 = a[1].parse().unwrap();
    let db = Arc::new(LocustDB::new(&disk_options(&dir)));
    println!("OPENED");
    println!("DUMP {}", dump_db(&db, qdeadline));
    use std::io::Write;
    std::io::stdout().flush().unwrap();
    std::process::exit(0);
}

/// outcomes: error:open-panic | error:open-hang | error:query-… | dump:<text>
fn run_child(dir: &Path, open_deadline: u64, qdeadline: u64) -> String {
    use std::io::{BufRead, BufReader};
    let mut child = Command::new(std::env::current_exe().unwrap()).arg("open").arg(dir).arg(qdeadline.to_string())
        .stdin(Stdio::null()).stdout(Stdio::piped()).stderr(Stdio::null()).spawn().expect("spawn child");
    let t0 = Instant::now();
    let so = child.stdout.take().unwrap();
    let opened = Arc::new(AtomicBool::new(false));
    let opened2 = opened.clone();
    let reader = std::thread::spawn(move || {
        let mut dump = None;
        for l in BufReader::new(so).lines().map_while(|l| l.ok()) {
            if l == "OPENED" { opened2.store(true, Ordering::SeqCst); }
            if let Some(d) = l.strip_prefix("DUMP ") { dump = Some(d.to_string()); }
        }
        dump
    });
    let mut opened_at = None;
    let status = loop {
        match child.try_wait().unwrap() {
            Some(st) => break if st.success() { "ok" } else { "panic" },
            None => {
                if opened_at.is_none() && opened.load(Ordering::SeqCst) { opened_at = Some(Instant::now()); }
                let over = match opened_at { None => t0.elapsed() > Duration::from_secs(open_deadline), Some(t) => t.elapsed() > Duration::from_secs(2 * qdeadline + 3) };
                if over { let _ = child.kill(); let _ = child.wait(); break "hang"; }
                std::thread::sleep(Duration::from_millis(5));
            }
        }
    };
    let dump = reader.join().unwrap_or(None);
    let opened = opened.load(Ordering::SeqCst);
    match (status, opened, dump) {
        ("ok", _, Some(d)) => if let Some(k) = d.strip_prefix('!') { format!("error:{}", k) } else { format!("dump:{}", d) },
        ("hang", false, _) => "error:open-hang".into(),
        ("hang", true, _) => "error:query-hang".into(),
        (_, false, _) => "error:open-panic".into(),
        (_, true, _) => "error:query-abort".into(),
    }
}

fn file_kind(root: &Path, p: &Path) -> &'static str {
    let rel = p.strip_prefix(root).unwrap_or(p).to_string_lossy().to_string();
    if rel == "meta" { "meta" } else if rel.starts_with("wal") { "wal" } else if rel.ends_with(".part") { "part" } else { "other" }
}

type OpenCase = (String, String, String, String);

fn open_stream(rng: &mut Rng, work: &Path, thorough: bool) -> Vec<OpenCase> {
    let mut out: Vec<OpenCase> = vec![];
    let base = work.join("base");
    {
        let db = LocustDB::new(&disk_options(&base));
        let mk = |lo: i64, n: i64| -> Vec<Batch> { vec![
            Batch { table: "t0".into(), len: n as u64, cols: vec![("id".into(), ColRep::I64((lo..lo + n).collect())), ("v".into(), ColRep::I64((lo..lo + n).map(|x| x * 1000 - 7).collect())),
                ("s".into(), ColRep::Str((lo..lo + n).map(|x| format!("s{}", x % 3)).collect()))] },
            Batch { table: "t1".into(), len: n as u64, cols: vec![("f".into(), ColRep::Dense((lo..lo + n).map(|x| x as f64 * 0.25).collect())), ("k".into(), ColRep::I64((lo..lo + n).collect()))] },
        ] };
        ingest(&db, &mk(0, 20)); db.force_flush();
        ingest(&db, &mk(20, 10)); db.force_flush();
        ingest(&db, &mk(30, 5));
        copy_dir(&base, &work.join("snap"));
        drop(db);
    }
    let snap = work.join("snap");
    let (od, qd) = if thorough { (15, 8) } else { (8, 4) };
    let baseline = { let d = work.join("o-base"); copy_dir(&snap, &d); let mut r = run_child(&d, 30, 10); if !r.starts_with("dump:") { r = run_child(&d, 60, 20); } r };
    let btok = if baseline.starts_with("dump:") { "opened-with-same-data" } else { "baseline-failed" };
    out.push(("open:baseline".into(), format!("openclass {}", btok), btok.into(), baseline.chars().take(300).collect::<String>()));
    if !baseline.starts_with("dump:") { return out; }
    let mut files = vec![]; all_files(&snap, &mut files);
    // jobs: (file, corruption name, new bytes)
    let mut jobs: Vec<(PathBuf, String, Vec<u8>)> = vec![];
    let mut seen_kind: HashMap<String, usize> = HashMap::new();
    for f in &files {
        let kind = file_kind(&snap, f);
        let rel = f.strip_prefix(&snap).unwrap().to_string_lossy().to_string();
        // part files: catalogue tables (read while opening) and user tables (read by the first query) are different classes
        let sel = if kind == "part" { if rel.contains("_meta_") { "part-catalogue".to_string() } else { "part-user".to_string() } } else { kind.to_string() };
        let k = seen_kind.entry(sel.clone()).or_insert(0); *k += 1;
        if !thorough && *k > 1 { continue; }
        let bytes = std::fs::read(f).unwrap();
        let n = bytes.len();
        if n < 49 { continue; }
        let pb = ((n - 48) * 8) as u64;
        let all: Vec<(String, Vec<u8>)> = vec![
            ("flip-version".into(), flip(&bytes, rng.below(64) as usize)),
            ("flip-length".into(), flip(&bytes, 64 + rng.below(64) as usize)),
            ("flip-digest".into(), flip(&bytes, 128 + rng.below(256) as usize)),
            ("flip-payload".into(), flip(&bytes, 384 + rng.below(pb) as usize)),
            ("trunc-last".into(), bytes[..n - 1].to_vec()),
            ("extend".into(), { let mut b = bytes.clone(); b.push(0); b }),
            ("foreign-envelope-random".into(), { let p = rand_bytes(rng, 64); envelope(0, 64, &sha256(&p), &p) }),
            ("foreign-envelope-empty".into(), envelope(0, 0, &sha256(&[]), &[])),
            ("foreign-random".into(), rand_bytes(rng, 100)),
            ("trunc-empty".into(), vec![]),
            ("trunc-header".into(), bytes[..20].to_vec()),
            ("trunc-half".into(), bytes[..n / 2].to_vec()),
            ("flip-payload2".into(), flip(&bytes, 384 + rng.below(pb) as usize)),
        ];
        // quick: all 13 for the catalogue file, 5 for part files, 2 for a log segment (each costs a full open deadline, see C09)
        let pickn: Vec<usize> = if thorough || kind == "meta" { (0..all.len()).collect() } else if kind == "wal" { vec![3, 6] } else { vec![0, 2, 3, 4, 6] };
        for i in pickn { jobs.push((f.clone(), all[i].0.clone(), all[i].1.clone())); }
    }
    let next = std::sync::atomic::AtomicUsize::new(0);
    let results: Vec<std::sync::Mutex<String>> = (0..jobs.len()).map(|_| std::sync::Mutex::new(String::new())).collect();
    std::thread::scope(|s| {
        for _ in 0..8 {
            s.spawn(|| loop {
                let i = next.fetch_add(1, Ordering::SeqCst);
                if i >= jobs.len() { break; }
                let (f, _, b) = &jobs[i];
                let d = work.join(format!("o-{}", i));
                copy_dir(&snap, &d);
                std::fs::write(d.join(f.strip_prefix(&snap).unwrap()), b).unwrap();
                let r = run_child(&d, od, qd);
                let _ = std::fs::remove_dir_all(&d);
                *results[i].lock().unwrap() = r;
            });
        }
    });
    for ((f, name, _), r) in jobs.iter().zip(results) {
        let r = r.into_inner().unwrap();
        let kind = file_kind(&snap, f);
        let rel = f.strip_prefix(&snap).unwrap().to_string_lossy().replace([' ', '\t'], "_");
        let kind = if kind == "part" { if rel.contains("_meta_") { "part-catalogue" } else { "part-user" } } else { kind };
        let outcome = if r == baseline { "opened-with-same-data".to_string() } else if r.starts_with("dump:") { "silently-different".to_string() } else { r.clone() };
        out.push((format!("open:{}:{}:{}", kind, name.trim_end_matches('2'), outcome), format!("openclass {}", outcome), outcome.clone(),
            format!("file={} corruption={} {}", rel, name, if outcome == "silently-different" { format!("got={} want={}", r, baseline) } else { String::new() })));
    }
    out
}

// ------------------------------------------------------------------------------------------------
fn main() {
    let argv: Vec<String> = std::env::args().collect();
    if argv.len() > 1 && argv[1] == "open" { child_open(&argv[2..]); }
    let args = parse_args();
    quiet_panics();
    let t0 = Instant::now();
    let thorough = args.thorough();
    let mut rng = Rng::new(args.seed);
    let mut cases = Cases::create(&args.out);
    let tmp = tempfile::tempdir().unwrap();
    let mut st = Store::new(&tmp.path().join("files"));
    // the open stream spends its time waiting for child processes: run it beside the other streams
    let open_thread = { let mut r = rng.fork(); let dir = tmp.path().join("open"); std::thread::spawn(move || open_stream(&mut r, &dir, thorough)) };

    // corpus: witnesses of fixed findings run first (a regression is reported again)
    for k in [0u64, 48, 100] {
        let p = vec![7u8; (k as usize).saturating_sub(48)];
        load_case(&mut cases, &mut st, "load:corpus:hugelen-wrap", None, &envelope(0, (u64::MAX - 47).wrapping_add(k), &sha256(&p), &p), "witness of C14-load-length-overflow");
    }

    let lap = |what: &str| eprintln!("[c14] {:>6.1}s {}", t0.elapsed().as_secs_f64(), what);
    env_stream(&mut cases, &mut rng.fork(), &mut st, thorough); lap("env");
    let seg_samples = seg_stream(&mut cases, &mut rng.fork(), &mut st, thorough); lap("seg");
    let wal_samples = wal_stream(&mut cases, &mut rng.fork(), &mut st, thorough); lap("wal");
    let meta_samples = meta_stream(&mut cases, &mut rng.fork(), &mut st, thorough); lap("meta");
    tree_stream(&mut cases, &mut rng.fork(), thorough);

    let mut lr = rng.fork();
    load_file(&mut cases, &mut lr, &mut st, "raw-empty", &[], thorough);
    load_file(&mut cases, &mut lr, &mut st, "raw-one", &[0x5a], thorough);
    load_file(&mut cases, &mut lr, &mut st, "raw-small", &[1, 2, 3], thorough);
    let p64 = rand_bytes(&mut lr, 64);
    load_file(&mut cases, &mut lr, &mut st, "raw-block", &p64, thorough);
    for p in seg_samples.iter().take(if thorough { 3 } else { 1 }) { load_file(&mut cases, &mut lr, &mut st, "part", p, thorough); }
    for p in wal_samples.iter().take(if thorough { 3 } else { 2 }) { load_file(&mut cases, &mut lr, &mut st, "wal", p, thorough); }
    for p in meta_samples.iter().take(if thorough { 3 } else { 2 }) { load_file(&mut cases, &mut lr, &mut st, "meta", p, thorough); }
    let big = rand_bytes(&mut lr, 20_000);
    load_file(&mut cases, &mut lr, &mut st, "raw-large", &big, false);
    load_foreign(&mut cases, &mut lr, &mut st, thorough); lap("load");

    for (class, line, out, note) in open_thread.join().expect("open stream") { cases.push(&class, &line, &out, &note); }
    lap("open");

    eprintln!("[c14] {} cases, {} classes, {:.1}s", cases.n, cases.classes.len(), t0.elapsed().as_secs_f64());
    cases.finish();
}

// ------------------------------------------------------------------------------------------------
// tree streams: hand-made messages (not necessarily images of the writers) through the real readers

#[derive(Clone, Debug)]
enum TOp { Nullable, Add(u16, i64), Delta(u16), ToI64(u16), Push(u64), Dict(u16), Lz4(u16, u64), Pco(u16, u64, bool), Unpack, Unhex(bool, u64) }

struct TCol { name: String, len: u64, range: Option<(i64, i64)>, ops: Vec<TOp>, data: Vec<DataSection> }

fn cap_enc(o: u16) -> partition_segment_capnp::EncodingType {
    use partition_segment_capnp::EncodingType::*;
    [U8, U16, U32, U64, I64, Null, F64, Bitvec][o as usize % 8]
}

fn build_seg_message(cols: &[TCol]) -> Vec<u8> {
    let mut builder = capnp::message::Builder::new_default();
    let partition = builder.init_root::<partition_segment_capnp::partition_segment::Builder>();
    let mut columns = partition.init_columns(cols.len() as u32);
    for (i, c) in cols.iter().enumerate() {
        let mut column = columns.reborrow().get(i as u32);
        column.set_name(&c.name[..]);
        column.set_len(c.len);
        { let mut r = column.reborrow().init_range(); match c.range { None => r.set_empty(()), Some((s, e)) => { let mut rr = r.reborrow().init_range(); rr.set_start(s); rr.set_end(e); } } }
        {
            let mut codec = column.reborrow().init_codec(c.ops.len() as u32);
            for (j, op) in c.ops.iter().enumerate() {
                let mut o = codec.reborrow().get(j as u32);
                match op {
                    TOp::Nullable => o.set_nullable(()),
                    TOp::Add(t, a) => { let mut x = o.init_add(); x.set_type(cap_enc(*t)); x.set_amount(*a); }
                    TOp::Delta(t) => o.set_delta(cap_enc(*t)),
                    TOp::ToI64(t) => o.set_to_i64(cap_enc(*t)),
                    TOp::Push(n) => o.set_push_data_section(*n),
                    TOp::Dict(t) => o.set_dict_lookup(cap_enc(*t)),
                    TOp::Lz4(t, n) => { let mut x = o.init_lz4(); x.set_type(cap_enc(*t)); x.set_len_decoded(*n); }
                    TOp::Pco(t, n, f) => { let mut x = o.init_pco(); x.set_type(cap_enc(*t)); x.set_len_decoded(*n); x.set_is_fp32(*f); }
                    TOp::Unpack => o.set_unpack_strings(()),
                    TOp::Unhex(u, n) => { let mut x = o.init_unhexpack_strings(); x.set_uppercase(*u); x.set_total_bytes(*n); }
                }
            }
        }
        {
            let mut secs = column.reborrow().init_data(c.data.len() as u32);
            for (j, d) in c.data.iter().enumerate() {
                let mut ds = secs.reborrow().get(j as u32);
                match d {
                    DataSection::U8(x) => ds.set_u8(&x[..]).unwrap(),
                    DataSection::U16(x) => ds.set_u16(&x[..]).unwrap(),
                    DataSection::U32(x) => ds.set_u32(&x[..]).unwrap(),
                    DataSection::U64(x) => ds.set_u64(&x[..]).unwrap(),
                    DataSection::I64(x) => ds.set_i64(&x[..]).unwrap(),
                    DataSection::F64(x) => { let mut b = ds.init_f64(x.len() as u32); for (k, f) in x.iter().enumerate() { b.set(k as u32, f.0); } }
                    DataSection::Null(n) => ds.set_null(*n as u64),
                    DataSection::Bitvec(x) => ds.set_bitvec(&x[..]).unwrap(),
                    DataSection::LZ4 { decoded_bytes, bytes_per_element, data } => { let mut l = ds.init_lz4(); l.set_decoded_bytes(*decoded_bytes as u64); l.set_bytes_per_element(*bytes_per_element as u64); l.set_data(&data[..]).unwrap(); }
                    DataSection::Pco { decoded_bytes, bytes_per_element, data, is_fp32 } => { let mut l = ds.init_pco(); l.set_decoded_bytes(*decoded_bytes as u64); l.set_bytes_per_element(*bytes_per_element as u64); l.set_is_fp32(*is_fp32); l.set_data(&data[..]).unwrap(); }
                }
            }
        }
    }
    let mut buf = Vec::new();
    capnp::serialize_packed::write_message(&mut buf, &builder).unwrap();
    buf
}

fn rand_top(rng: &mut Rng, nsec: usize) -> TOp {
    let t = rng.below(8) as u16;
    match rng.below(10) {
        0 => TOp::Nullable, 1 => TOp::Add(t, rand_i64(rng)), 2 => TOp::Delta(t), 3 => TOp::ToI64(t),
        // mostly in range, sometimes one past the sections or far out
        4 => TOp::Push(match rng.below(8) { 0 => nsec as u64, 1 => u64::MAX, _ => rng.below(nsec.max(1) as u64) }),
        5 => TOp::Dict(t), 6 => TOp::Lz4(t, rng.next()), 7 => TOp::Pco(t, rng.next(), rng.chance(1, 2)), 8 => TOp::Unpack, _ => TOp::Unhex(rng.chance(1, 2), rng.next()),
    }
}

enum TData { F64(Vec<u64>), SparseF64(Vec<u64>, Vec<u64>), I64(Vec<i64>), Str(Vec<String>), Empty, SparseI64(Vec<u64>, Vec<i64>), Mixed(Vec<Cell>) }
struct TTable { name: String, len: u64, cols: Vec<(String, TData)> }

fn build_wal_message(id: u64, tables: &[TTable]) -> Vec<u8> {
    let mut builder = capnp::message::Builder::new_default();
    let mut w = builder.init_root::<wal_segment_capnp::wal_segment::Builder>();
    w.set_id(id);
    let tsl = w.get_data().unwrap();
    let mut data = tsl.init_data(tables.len() as u32);
    for (i, t) in tables.iter().enumerate() {
        let mut tb = data.reborrow().get(i as u32);
        tb.set_len(t.len);
        tb.set_name(&t.name[..]);
        let mut columns = tb.reborrow().init_columns(t.cols.len() as u32);
        for (j, (name, d)) in t.cols.iter().enumerate() {
            let mut cb = columns.reborrow().get(j as u32);
            cb.set_name(&name[..]);
            match d {
                TData::Empty => cb.get_data().set_empty(()),
                TData::F64(v) => { let f: Vec<f64> = v.iter().map(|b| f64::from_bits(*b)).collect(); cb.get_data().set_f64(&f[..]).unwrap() }
                TData::I64(v) => cb.get_data().set_i64(&v[..]).unwrap(),
                TData::Str(v) => cb.get_data().set_string(&v[..]).unwrap(),
                TData::SparseF64(is, vs) => { let f: Vec<f64> = vs.iter().map(|b| f64::from_bits(*b)).collect(); let mut sb = cb.get_data().init_sparse_f64(); sb.reborrow().set_indices(&is[..]).unwrap(); sb.reborrow().set_values(&f[..]).unwrap(); }
                TData::SparseI64(is, vs) => { let mut sb = cb.get_data().init_sparse_i64(); sb.reborrow().set_indices(&is[..]).unwrap(); sb.reborrow().set_values(&vs[..]).unwrap(); }
                TData::Mixed(v) => {
                    let mut mb = cb.get_data().init_mixed(v.len() as u32);
                    for (k, c) in v.iter().enumerate() {
                        let mut vb = mb.reborrow().get(k as u32).init_value();
                        match c { Cell::Int(i) => vb.set_i64(*i), Cell::Float(b) => vb.set_f64(f64::from_bits(*b)), Cell::Str(s) => vb.set_string(&s[..]), Cell::Null => vb.set_null(()) }
                    }
                }
            }
        }
    }
    let mut buf = Vec::new();
    capnp::serialize_packed::write_message(&mut buf, &builder).unwrap();
    buf
}

struct TPart { id: u64, table: String, offset: u64, len: u64, subs: Vec<(u64, String, String)> }

fn build_meta_message(next: u64, parts: &[TPart]) -> Vec<u8> {
    let mut builder = capnp::message::Builder::new_default();
    let mut m = builder.init_root::<dbmeta_capnp::d_b_meta::Builder>();
    m.set_next_wal_id(next);
    let mut pb = m.reborrow().init_partitions(parts.len() as u32);
    for (i, p) in parts.iter().enumerate() {
        let mut b = pb.reborrow().get(i as u32);
        b.set_id(p.id); b.set_tablename(&p.table[..]); b.set_offset(p.offset); b.set_len(p.len);
        let mut sb = b.init_subpartitions(p.subs.len() as u32);
        for (j, (size, key, last)) in p.subs.iter().enumerate() {
            let mut s = sb.reborrow().get(j as u32);
            s.set_size_bytes(*size); s.set_subpartition_key(&key[..]); s.set_last_column(&last[..]);
        }
    }
    let mut buf = Vec::new();
    capnp::serialize_packed::write_message(&mut buf, &builder).unwrap();
    buf
}

fn tree_stream(cases: &mut Cases, rng: &mut Rng, thorough: bool) {
    let err = |e: Box<dyn Error>| format!("tree-error:{}", e.to_string().replace([' ', '\t'], "_"));
    // partition messages: arbitrary op / section combinations, including those Column::new cannot type
    let mut fixed: Vec<Vec<TCol>> = vec![
        vec![TCol { name: "nodata".into(), len: 1, range: None, ops: vec![], data: vec![] }],
        vec![TCol { name: "nodata_ops".into(), len: 1, range: None, ops: vec![TOp::ToI64(0)], data: vec![] }],
        vec![TCol { name: "id_u8".into(), len: 1, range: None, ops: vec![], data: vec![DataSection::U8(vec![1])] }],
        vec![TCol { name: "id_bitvec".into(), len: 1, range: None, ops: vec![], data: vec![DataSection::Bitvec(vec![1])] }],
        vec![TCol { name: "id_lz4".into(), len: 1, range: None, ops: vec![], data: vec![DataSection::LZ4 { decoded_bytes: 1, bytes_per_element: 1, data: vec![] }] }],
        vec![TCol { name: "push_oob".into(), len: 1, range: None, ops: vec![TOp::Push(1)], data: vec![DataSection::I64(vec![1])] }],
        vec![TCol { name: "nullable_underflow".into(), len: 1, range: None, ops: vec![TOp::Nullable], data: vec![DataSection::I64(vec![1])] }],
        vec![TCol { name: "dict_underflow".into(), len: 1, range: None, ops: vec![TOp::Push(0), TOp::Dict(0)], data: vec![DataSection::U8(vec![1])] }],
        vec![TCol { name: "nullable_of_null".into(), len: 1, range: None, ops: vec![TOp::Push(0), TOp::Nullable], data: vec![DataSection::Null(1)] }],
        vec![TCol { name: "final_u8".into(), len: 1, range: None, ops: vec![TOp::Lz4(0, 1)], data: vec![DataSection::U8(vec![1])] }],
        vec![TCol { name: "ok".into(), len: 1, range: Some((1, 2)), ops: vec![TOp::Add(0, 1)], data: vec![DataSection::U8(vec![1])] },
             TCol { name: "then_bad".into(), len: 1, range: None, ops: vec![], data: vec![] }],
        vec![],
    ];
    for _ in 0..if thorough { 2000 } else { 260 } {
        let k = if rng.chance(1, 6) { 2 } else { 1 };
        fixed.push((0..k).map(|_| {
            let nsec = rng.below(4) as usize;
            let data: Vec<DataSection> = (0..nsec).map(|_| { let kk = rng.below(10); rand_section(rng, kk) }).collect();
            let nops = rng.below(4) as usize;
            TCol { name: rng.pick(NAMES).to_string(), len: rng.next() >> rng.below(64), range: if rng.chance(1, 2) { None } else { Some((rand_i64(rng), rand_i64(rng))) },
                ops: (0..nops).map(|_| rand_top(rng, nsec)).collect(), data }
        }).collect());
    }
    for cols in &fixed {
        let bytes = build_seg_message(cols);
        let tree = seg_tree(&bytes).unwrap_or_else(err);
        let out = match catch_unwind(AssertUnwindSafe(|| PartitionSegment::deserialize(&bytes))) {
            Err(_) => "panic".to_string(),
            Ok(Err(e)) => format!("err:{}", e.to_string().replace([' ', '\t'], "_")),
            Ok(Ok(seg)) => { let cs: Vec<&Column> = seg.columns.iter().collect(); seg_tok(&cs) }
        };
        let class = format!("segtree:{}", if out == "panic" { "rejected" } else if cols.is_empty() { "empty" } else { "accepted" });
        cases.push(&class, &format!("segtree {} {}", tree, out), &out, "");
    }
    // log segment messages: duplicate table / column names (last wins), sparse forms with unequal index / value counts
    for i in 0..if thorough { 600 } else { 80 } {
        let nt = rng.below(4) as usize;
        let tnames = ["a", "b", "a", "", "ünï"];
        let cnames = ["x", "y", "x", "", "timestamp"];
        let tables: Vec<TTable> = (0..nt).map(|_| TTable { name: rng.pick(&tnames).to_string(), len: rng.below(6), cols: (0..rng.below(5)).map(|_| {
            let n = rng.below(4) as usize; let m = if rng.chance(1, 2) { n } else { rng.below(4) as usize };
            (rng.pick(&cnames).to_string(), match rng.below(7) {
                0 => TData::Empty, 1 => TData::F64((0..n).map(|_| rand_f64bits(rng)).collect()), 2 => TData::I64((0..n).map(|_| rand_i64(rng)).collect()),
                3 => TData::Str((0..n).map(|_| rng.pick(STR_POOL).to_string()).collect()),
                4 => TData::SparseF64((0..n).map(|_| rng.below(9)).collect(), (0..m).map(|_| rand_f64bits(rng)).collect()),
                5 => TData::SparseI64((0..n).map(|_| rng.below(9)).collect(), (0..m).map(|_| rand_i64(rng)).collect()),
                _ => TData::Mixed((0..n).map(|_| match rng.below(4) { 0 => Cell::Int(rand_i64(rng)), 1 => Cell::Float(rand_f64bits(rng)), 2 => Cell::Str("s".into()), _ => Cell::Null }).collect()),
            })
        }).collect() }).collect();
        let bytes = build_wal_message(if i % 2 == 0 { rng.next() } else { i as u64 }, &tables);
        let tree = wal_tree(&bytes, false).unwrap_or_else(err);
        let out = match catch_unwind(AssertUnwindSafe(|| WalSegment::deserialize(&bytes))) {
            Err(_) => "panic".to_string(),
            Ok(Err(e)) => format!("err:{}", e.to_string().replace([' ', '\t'], "_")),
            Ok(Ok(w)) => format!("wal({},{})", w.id, tables_tok(&w.data)),
        };
        let dup_t = { let mut n: Vec<&String> = tables.iter().map(|t| &t.name).collect(); n.sort(); n.windows(2).any(|w| w[0] == w[1]) };
        let dup_c = tables.iter().any(|t| { let mut n: Vec<&String> = t.cols.iter().map(|c| &c.0).collect(); n.sort(); n.windows(2).any(|w| w[0] == w[1]) });
        let unbal = tables.iter().any(|t| t.cols.iter().any(|c| match &c.1 { TData::SparseF64(a, b) => a.len() != b.len(), TData::SparseI64(a, b) => a.len() != b.len(), _ => false }));
        let mut flags: Vec<&str> = vec![];
        if dup_t { flags.push("duptable"); } if dup_c { flags.push("dupcol"); } if unbal { flags.push("unbalanced"); }
        cases.push(&format!("waltree:{}", if flags.is_empty() { "plain".to_string() } else { flags.join("+") }),
            &format!("waltree {} {}", tree, out), &out, "");
    }
    // catalogue messages: duplicate (table, id) (last wins), duplicate / empty last columns inside a partition
    for _ in 0..if thorough { 600 } else { 80 } {
        let np = rng.below(5) as usize;
        let parts: Vec<TPart> = (0..np).map(|_| TPart { id: rng.below(3), table: rng.pick(&["t", "u", ""]).to_string(), offset: rng.next() >> rng.below(64), len: rng.below(100),
            subs: (0..rng.below(4)).map(|_| (rng.below(1000), rng.pick(&["all", "k", ""]).to_string(), rng.pick(&["a", "b", "", "zz"]).to_string())).collect() }).collect();
        let bytes = build_meta_message(rng.next() >> rng.below(64), &parts);
        let tree = meta_tree(&bytes, false).unwrap_or_else(err);
        let out = match catch_unwind(AssertUnwindSafe(|| MetaStore::deserialize(&bytes))) {
            Err(_) => "panic".to_string(),
            Ok(Err(e)) => format!("err:{}", e.to_string().replace([' ', '\t'], "_")),
            Ok(Ok(m)) => meta_tok(&m),
        };
        let dup_p = { let mut n: Vec<(&String, u64)> = parts.iter().map(|p| (&p.table, p.id)).collect(); n.sort(); n.windows(2).any(|w| w[0] == w[1]) };
        let dup_l = parts.iter().any(|p| { let mut n: Vec<&String> = p.subs.iter().map(|s| &s.2).collect(); n.sort(); n.windows(2).any(|w| w[0] == w[1]) });
        cases.push(&format!("metatree:{}", match (dup_p, dup_l) { (true, true) => "duppart+duplast", (true, false) => "duppart", (false, true) => "duplast", _ => "plain" }),
            &format!("metatree {} {}", tree, out), &out, "");
    }
}
