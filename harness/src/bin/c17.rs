//! C17: the HTTP interface behaves like the embedded one.
//!
//! Two kinds of cases, all on the real code:
//!
//!   unit  — `server::encode_column` (+ the real `MultiQueryResponse::serialize/deserialize` and the client's
//!           Xor → Float step), `server::query_output_to_json_cols` (serialised by serde_json, re-read by a
//!           small JSON reader that keeps number texts) and the status `map_err_response` picks for every
//!           `QueryError` variant — through the `verif_*` wrappers in src/server/mod.rs;
//!   e2e   — a REAL server (`locustdb::server::run`) on a free loopback port sharing one `Arc<LocustDB>` with
//!           the harness: batches go in through `/insert_bin` (raw capnp body, or the real `LoggingClient`),
//!           every query runs embedded (`LocustDB::run_query`) and through `/query`, `/query_cols`,
//!           `/multi_query_cols` (JSON; binary with / without xor compression, mantissa, full-precision
//!           columns; the real `LoggingClient::multi_query`), on one reqwest connection pool, inserts and
//!           queries interleaved; failing queries must give an error status and the next request an answer;
//!           `intlayouts`: tables with one integer column per wire layout of api.rs (range, delta / double-delta
//!           i8/i16/i32, raw i64) and columns on the ladder's thresholds; for every integer column of every capnp
//!           response an `intwire` case with the layout read off the response bytes.
//!
//! Model line = `<kind> <inputs…> :: <implementation output>`; the Lean driver prints the model's prediction
//! of the implementation output (exact text) and the specification's verdict on it.
use std::collections::{BTreeMap, HashMap, HashSet};
use std::panic::{catch_unwind, AssertUnwindSafe};
use std::sync::Arc;
use std::time::Duration;

use vharness::locustdb::logging_client::{BufferFullPolicy, LoggingClient};
use vharness::locustdb::{BasicTypeColumn, LocustDB, Options, QueryError, QueryOutput, Value};
use vharness::locustdb_serialization::api::{AnyVal, Column, EncodingOpts, MultiQueryRequest, MultiQueryResponse, QueryRequest, QueryResponse};
use vharness::locustdb_serialization::api_capnp;
use vharness::*;

const REQ_DEADLINE: Duration = Duration::from_secs(60);
const EMB_DEADLINE: u64 = 60;

// ------------------------------------------------------------------------------------------------
// canonical text

fn list(v: Vec<String>) -> String { if v.is_empty() { "[]".into() } else { v.join(",") } }
fn fbits(f: f64) -> String { format!("{:016x}", f.to_bits()) }
fn value_tok(v: &Value) -> String { Cell::from_value(v).tok() }
fn anyval_tok(v: &AnyVal) -> String {
    match v {
        AnyVal::Null => "_".into(),
        AnyVal::Int(i) => format!("i{}", i),
        AnyVal::Float(f) => format!("f{}", fbits(*f)),
        AnyVal::Str(s) => hexs(s),
    }
}

/// Embedded column (`BasicTypeColumn`).
fn coltok(c: &BasicTypeColumn) -> String {
    match c {
        BasicTypeColumn::Int(v) => format!("I:{}", list(v.iter().map(|i| i.to_string()).collect())),
        BasicTypeColumn::Float(v) => format!("F:{}", list(v.iter().map(|f| fbits(*f)).collect())),
        BasicTypeColumn::String(v) => format!("S:{}", list(v.iter().map(|s| hexs(s)).collect())),
        BasicTypeColumn::Null(n) => format!("N:{}", n),
        BasicTypeColumn::Mixed(v) => format!("M:{}", list(v.iter().map(value_tok).collect())),
    }
}

/// Wire / client column (`api::Column`).
fn wcoltok(c: &Column) -> String {
    match c {
        Column::Float(v) => format!("float:{}", list(v.iter().map(|f| fbits(*f)).collect())),
        Column::Int(v) => format!("int:{}", list(v.iter().map(|i| i.to_string()).collect())),
        Column::String(v) => format!("str:{}", list(v.iter().map(|s| hexs(s)).collect())),
        Column::Mixed(v) => format!("mixed:{}", list(v.iter().map(anyval_tok).collect())),
        Column::Null(n) => format!("null:{}", n),
        Column::Xor(b) => format!("xor:{}", hexb(b)),
    }
}

fn named(cols: &[(String, BasicTypeColumn)]) -> String {
    if cols.is_empty() { "[]".into() } else { cols.iter().map(|(n, c)| format!("{}={}", hexs(n), coltok(c))).collect::<Vec<_>>().join(" ") }
}
fn names_tok(names: &[String]) -> String { list(names.iter().map(|n| hexs(n)).collect()) }

// ------------------------------------------------------------------------------------------------
// a small JSON reader that keeps number texts and object key order

#[derive(Debug, Clone, PartialEq)]
enum J { Null, Bool(bool), Num(String), Str(String), Arr(Vec<J>), Obj(Vec<(String, J)>) }

struct JP<'a> { s: &'a [u8], i: usize }
impl<'a> JP<'a> {
    fn ws(&mut self) { while self.i < self.s.len() && matches!(self.s[self.i], b' ' | b'\n' | b'\r' | b'\t') { self.i += 1; } }
    fn eat(&mut self, lit: &str) -> Option<()> { if self.s[self.i..].starts_with(lit.as_bytes()) { self.i += lit.len(); Some(()) } else { None } }
    fn hex4(&mut self) -> Option<u32> {
        let t = std::str::from_utf8(self.s.get(self.i..self.i + 4)?).ok()?;
        self.i += 4;
        u32::from_str_radix(t, 16).ok()
    }
    fn string(&mut self) -> Option<String> {
        self.eat("\"")?;
        let mut out: Vec<u8> = vec![];
        loop {
            let c = *self.s.get(self.i)?;
            self.i += 1;
            match c {
                b'"' => return String::from_utf8(out).ok(),
                b'\\' => {
                    let e = *self.s.get(self.i)?;
                    self.i += 1;
                    let ch = match e {
                        b'"' => '"', b'\\' => '\\', b'/' => '/', b'b' => '\u{8}', b'f' => '\u{c}', b'n' => '\n', b'r' => '\r', b't' => '\t',
                        b'u' => {
                            let mut cp = self.hex4()?;
                            if (0xD800..0xDC00).contains(&cp) {
                                self.eat("\\u")?;
                                let lo = self.hex4()?;
                                cp = 0x10000 + ((cp - 0xD800) << 10) + (lo.checked_sub(0xDC00)?);
                            }
                            char::from_u32(cp)?
                        }
                        _ => return None,
                    };
                    let mut b = [0u8; 4];
                    out.extend_from_slice(ch.encode_utf8(&mut b).as_bytes());
                }
                _ => out.push(c),
            }
        }
    }
    fn value(&mut self) -> Option<J> {
        self.ws();
        let c = *self.s.get(self.i)?;
        let v = match c {
            b'n' => { self.eat("null")?; J::Null }
            b't' => { self.eat("true")?; J::Bool(true) }
            b'f' => { self.eat("false")?; J::Bool(false) }
            b'"' => J::Str(self.string()?),
            b'[' => {
                self.i += 1;
                let mut xs = vec![];
                self.ws();
                if self.s.get(self.i) == Some(&b']') { self.i += 1; return Some(J::Arr(xs)); }
                loop {
                    xs.push(self.value()?);
                    self.ws();
                    match self.s.get(self.i)? { b',' => self.i += 1, b']' => { self.i += 1; break; } _ => return None }
                }
                J::Arr(xs)
            }
            b'{' => {
                self.i += 1;
                let mut kv = vec![];
                self.ws();
                if self.s.get(self.i) == Some(&b'}') { self.i += 1; return Some(J::Obj(kv)); }
                loop {
                    self.ws();
                    let k = self.string()?;
                    self.ws();
                    self.eat(":")?;
                    let v = self.value()?;
                    kv.push((k, v));
                    self.ws();
                    match self.s.get(self.i)? { b',' => self.i += 1, b'}' => { self.i += 1; break; } _ => return None }
                }
                J::Obj(kv)
            }
            _ => {
                let st = self.i;
                while self.i < self.s.len() && matches!(self.s[self.i], b'-' | b'+' | b'.' | b'e' | b'E' | b'0'..=b'9') { self.i += 1; }
                if st == self.i { return None; }
                J::Num(std::str::from_utf8(&self.s[st..self.i]).ok()?.to_string())
            }
        };
        Some(v)
    }
}
fn parse_json(s: &str) -> Option<J> {
    let mut p = JP { s: s.as_bytes(), i: 0 };
    let v = p.value()?;
    p.ws();
    if p.i == s.len() { Some(v) } else { None }
}
impl J {
    fn get(&self, k: &str) -> Option<&J> { if let J::Obj(kv) = self { kv.iter().find(|(a, _)| a == k).map(|(_, v)| v) } else { None } }
}

/// JSON scalar as a cell token: `_` null, `i<text>` integer literal (text kept), `f<bits>` any other number
/// (correctly rounded by Rust std), `x<hex>` string.
fn jcell(j: &J) -> String {
    match j {
        J::Null => "_".into(),
        J::Num(t) => {
            let is_int = t.bytes().enumerate().all(|(i, b)| b.is_ascii_digit() || (i == 0 && b == b'-'));
            if is_int { format!("i{}", t) } else { match t.parse::<f64>() { Ok(f) => format!("f{}", fbits(f)), Err(_) => format!("?num") } }
        }
        J::Str(s) => hexs(s),
        J::Bool(b) => format!("?bool{}", b),
        J::Arr(_) => "?arr".into(),
        J::Obj(_) => "?obj".into(),
    }
}
/// JSON column: array of scalars → cells; a bare number → `#<n>` (what `json!(usize)` gives for a NULL column).
fn jcol(j: &J) -> String {
    match j {
        J::Arr(xs) => list(xs.iter().map(jcell).collect()),
        J::Num(t) => format!("#{}", t),
        other => format!("?{}", jcell(other)),
    }
}
fn jnames(j: Option<&J>) -> String {
    match j { Some(J::Arr(xs)) => list(xs.iter().map(|x| match x { J::Str(s) => hexs(s), o => format!("?{}", jcell(o)) }).collect()), _ => "?".into() }
}
/// `{"colnames": […], "cols": {…}, "stats": …}` → `names:<…> cols:<name>=<col>|…` (cols sorted by name).
fn jcols_view(j: &J) -> String {
    let cols = match j.get("cols") {
        Some(J::Obj(kv)) => {
            let mut v: Vec<(String, String)> = kv.iter().map(|(k, c)| (k.clone(), jcol(c))).collect();
            v.sort();
            if v.is_empty() { "[]".to_string() } else { v.iter().map(|(k, c)| format!("{}={}", hexs(k), c)).collect::<Vec<_>>().join("|") }
        }
        _ => "?".into(),
    };
    format!("names:{} cols:{}{}", jnames(j.get("colnames")), cols, if j.get("stats").is_some() { "" } else { " nostats" })
}
/// `{"colnames": […], "rows": [[…]…], "stats": …}` → `names:<…> rows:<row>;<row>…`.
fn jrows_view(j: &J) -> String {
    let rows = match j.get("rows") {
        Some(J::Arr(rs)) => if rs.is_empty() { "[]".to_string() } else {
            rs.iter().map(|r| match r { J::Arr(cs) => if cs.is_empty() { "()".to_string() } else { cs.iter().map(jcell).collect::<Vec<_>>().join(",") }, o => format!("?{}", jcell(o)) }).collect::<Vec<_>>().join(";")
        },
        _ => "?".into(),
    };
    format!("names:{} rows:{}{}", jnames(j.get("colnames")), rows, if j.get("stats").is_some() { "" } else { " nostats" })
}

// ------------------------------------------------------------------------------------------------
// unit stream: encode_column, JSON rendering, status table

fn gen_value(rng: &mut Rng, kind: u64) -> Value {
    match kind {
        0 => Value::Int(match rng.below(4) { 0 => rng.range(-9, 9), 1 => *rng.pick(I_EDGES), 2 => rng.next() as i64, _ => rng.range(-(1 << 54), 1 << 54) }),
        1 => Value::Str(rng.pick(STR_POOL).to_string()),
        2 => Value::Null,
        _ => Value::Float(f64::from_bits(if rng.chance(1, 2) { *rng.pick(F_EDGES) } else { rng.next() }).into()),
    }
}

const I_EDGES: &[i64] = &[0, 1, -1, 9007199254740991, 9007199254740992, 9007199254740993, -9007199254740992, -9007199254740993, i64::MAX, i64::MAX - 1, i64::MIN, i64::MIN + 1, 1 << 62, 127, 128, -129];
const F_EDGES: &[u64] = &[0, 0x8000000000000000, 0x3ff0000000000000, 0xbff8000000000000, 0x7ff0000000000000, 0xfff0000000000000, 0x7ff8000000000000, 0x7ff8000000000001,
    0x7ffaaaaaaaaaaaaa, 0xfff8dead0000beef, 1, 0x000fffffffffffff, 0x0010000000000000, 0x7fefffffffffffff, 0x3fb999999999999a, 0x4340000000000000, 0x4340000000000001, 0x4059000000000000];

/// A Mixed column whose set of value kinds is exactly `sig` (bit 1 int, 2 str, 4 null, 8 float), `n >= popcount`.
fn gen_mixed(rng: &mut Rng, sig: u8, n: usize) -> Vec<Value> {
    let kinds: Vec<u64> = [(1u8, 0u64), (2, 1), (4, 2), (8, 3)].iter().filter(|(b, _)| sig & b != 0).map(|(_, k)| *k).collect();
    if kinds.is_empty() { return vec![]; }
    let mut v: Vec<Value> = kinds.iter().map(|k| gen_value(rng, *k)).collect();
    while v.len() < n { let k = *rng.pick(&kinds); v.push(gen_value(rng, k)); }
    // shuffle
    for i in (1..v.len()).rev() { let j = rng.below(i as u64 + 1) as usize; v.swap(i, j); }
    v
}

fn gen_bcol(rng: &mut Rng) -> BasicTypeColumn {
    let n = *rng.pick(&[0usize, 1, 2, 3, 5, 9, 17]);
    match rng.below(9) {
        0 => BasicTypeColumn::Int((0..n).map(|_| if let Value::Int(i) = gen_value(rng, 0) { i } else { 0 }).collect()),
        1 => { let c = *rng.pick(&["u8", "mono", "monobig", "small", "const", "u32off"]); BasicTypeColumn::Int(gen_ints(rng, n, c)) }
        2 => BasicTypeColumn::Float((0..n).map(|_| if let Value::Float(f) = gen_value(rng, 3) { f.0 } else { 0.0 }).collect()),
        3 => { let c = *rng.pick(&["dyadic", "edges", "f32", "nan", "bits"]); BasicTypeColumn::Float(gen_floats(rng, n, c)) }
        4 => BasicTypeColumn::String(gen_strs(rng, n, "pool")),
        5 => BasicTypeColumn::Null(n),
        _ => { let sig = rng.below(16) as u8; BasicTypeColumn::Mixed(gen_mixed(rng, sig, n.max(sig.count_ones() as usize))) }
    }
}

/// `encode_column`, then the real response (de)serialisation, then the client's Xor → Float step.
fn run_enc(col: BasicTypeColumn, xor: bool, mantissa: Option<u32>) -> String {
    let opts = EncodingOpts { xor_float_compression: xor, mantissa, full_precision_cols: HashSet::new() };
    let wire = match catch_unwind(AssertUnwindSafe(|| locustdb::server::verif_encode_column(col, &opts))) {
        Ok(c) => c,
        Err(_) => return "panic".into(),
    };
    let w = wcoltok(&wire);
    format!("{} => {}", w, through_wire_and_client(wire))
}

/// What `LoggingClient::multi_query` does with a response body, on one column.
fn client_decode(mut rsps: Vec<QueryResponse>) -> Vec<QueryResponse> {
    rsps.iter_mut().for_each(|rsp| {
        rsp.columns.iter_mut().for_each(|(_, col)| {
            if let Column::Xor(data) = col {
                *col = Column::Float(locustdb_compression_utils::xor_float::double::decode(&data[..]).unwrap())
            }
        });
    });
    rsps
}

fn through_wire_and_client(wire: Column) -> String {
    let resp = MultiQueryResponse { responses: vec![QueryResponse { columns: HashMap::from([("c".to_string(), wire)]) }] };
    let bytes = match catch_unwind(AssertUnwindSafe(|| resp.serialize())) { Ok(b) => b, Err(_) => return "panic-ser".into() };
    let de = match catch_unwind(AssertUnwindSafe(|| MultiQueryResponse::deserialize(&bytes))) {
        Err(_) => return "panic-de".into(),
        Ok(Err(_)) => return "err-de".into(),
        Ok(Ok(m)) => m.responses,
    };
    match catch_unwind(AssertUnwindSafe(|| client_decode(de))) {
        Err(_) => "panic-client".into(),
        Ok(r) => r.get(0).and_then(|r| r.columns.get("c")).map(wcoltok).unwrap_or("lost".into()),
    }
}

fn bcol_class(c: &BasicTypeColumn) -> String {
    match c {
        BasicTypeColumn::Int(_) => "Int".into(),
        BasicTypeColumn::Float(_) => "Float".into(),
        BasicTypeColumn::String(_) => "String".into(),
        BasicTypeColumn::Null(_) => "Null".into(),
        BasicTypeColumn::Mixed(v) => {
            let mut s = 0u8;
            for x in v { s |= match x { Value::Int(_) => 1, Value::Str(_) => 2, Value::Null => 4, Value::Float(_) => 8 }; }
            format!("Mixed:sig{}", s)
        }
    }
}
fn clone_bcol(c: &BasicTypeColumn) -> BasicTypeColumn {
    match c {
        BasicTypeColumn::Int(v) => BasicTypeColumn::Int(v.clone()),
        BasicTypeColumn::Float(v) => BasicTypeColumn::Float(v.clone()),
        BasicTypeColumn::String(v) => BasicTypeColumn::String(v.clone()),
        BasicTypeColumn::Null(n) => BasicTypeColumn::Null(*n),
        BasicTypeColumn::Mixed(v) => BasicTypeColumn::Mixed(v.clone()),
    }
}

fn push_enc(cases: &mut Cases, col: &BasicTypeColumn, xor: bool, mantissa: Option<u32>, note: &str) {
    let out = run_enc(clone_bcol(col), xor, mantissa);
    let wirekind = out.split(':').next().unwrap_or("?").to_string();
    let class = format!("enc:{}:{}:{}:{}", bcol_class(col), if xor { "xor" } else { "plain" },
        match mantissa { None => "full".to_string(), Some(m) if m > 52 => "m>52".into(), Some(m) => format!("m{}", m / 13 * 13) }, wirekind);
    let line = format!("enc {} {} {} :: {}", xor as u8, mantissa.map(|m| m.to_string()).unwrap_or("_".into()), coltok(col), out);
    cases.push(&class, &line, &out, note);
}

fn gen_unit_enc(cases: &mut Cases, rng: &mut Rng, thorough: bool) {
    use Value::*;
    // corpus: witnesses of the two C16 integer findings surface through encode_column → serialize
    push_enc(cases, &BasicTypeColumn::Int(vec![i64::MIN, i64::MAX, 0]), true, None, "witness api-delta-i64-overflow");
    push_enc(cases, &BasicTypeColumn::Int(vec![i64::MIN, -1, i64::MAX - 1]), true, None, "witness api-range-decode-mul-overflow");
    push_enc(cases, &BasicTypeColumn::Mixed(vec![Int(i64::MIN), Int(i64::MAX), Int(0)]), false, None, "witness api-delta-i64-overflow through a Mixed column of signature 1");
    // every signature, every option combination, lengths popcount..popcount+3
    let manti: &[Option<u32>] = &[None, Some(0), Some(10), Some(23), Some(52), Some(53)];
    for sig in 0..16u8 {
        for extra in 0..(if thorough { 6 } else { 3 }) {
            let col = BasicTypeColumn::Mixed(gen_mixed(rng, sig, sig.count_ones() as usize + extra));
            for &xor in &[false, true] { for m in manti { push_enc(cases, &col, xor, *m, "all signatures x options"); } }
        }
    }
    // the reserved NaN inside a float column / next to a NULL
    let null_nan = f64::from_bits(F64_NULL_BITS);
    push_enc(cases, &BasicTypeColumn::Mixed(vec![Float(null_nan.into()), Null, Float(1.5.into())]), false, None, "a float equal to the reserved NaN is indistinguishable from NULL (signature 12)");
    push_enc(cases, &BasicTypeColumn::Mixed(vec![Float(null_nan.into()), Null, Float(1.5.into())]), true, Some(8), "reserved NaN under a reduced mantissa");
    push_enc(cases, &BasicTypeColumn::Float(vec![null_nan, 2.5]), true, None, "reserved NaN in a dense float column");
    for n in [0usize, 1, 7] { push_enc(cases, &BasicTypeColumn::Null(n), true, None, "Null(n)"); }
    push_enc(cases, &BasicTypeColumn::String(vec![]), false, None, "empty string column");
    push_enc(cases, &BasicTypeColumn::Float(vec![]), true, Some(60), "empty float column: the mantissa assert is not reached");
    push_enc(cases, &BasicTypeColumn::Float(vec![1.0]), true, Some(60), "mantissa > 52: documented assert");
    let n = if thorough { 6000 } else { 700 };
    for _ in 0..n {
        let col = gen_bcol(rng);
        let xor = rng.chance(1, 2);
        let m = match rng.below(4) { 0 => Some(rng.below(53) as u32), 1 if rng.chance(1, 8) => Some(53 + rng.below(4) as u32), _ => None };
        push_enc(cases, &col, xor, m, "random column");
    }
}

fn run_jcols(cols: Vec<(String, BasicTypeColumn)>, colnames: Vec<String>) -> String {
    let out = QueryOutput { colnames, rows: None, columns: cols, query_plans: HashMap::new(), stats: Default::default() };
    let v = match catch_unwind(AssertUnwindSafe(|| locustdb::server::verif_query_output_to_json_cols(out))) { Ok(v) => v, Err(_) => return "panic".into() };
    let text = match serde_json::to_string(&v) { Ok(t) => t, Err(_) => return "ser-error".into() };
    match parse_json(&text) { Some(j) => jcols_view(&j), None => format!("unparsable") }
}

fn push_jcols(cases: &mut Cases, cols: Vec<(String, BasicTypeColumn)>, note: &str) {
    let names: Vec<String> = cols.iter().map(|c| c.0.clone()).collect();
    let line_in = format!("jcols {} {}", names_tok(&names), named(&cols));
    let mut kinds: Vec<String> = cols.iter().map(|c| bcol_class(&c.1)).collect(); kinds.sort(); kinds.dedup();
    let dup = { let mut s = names.clone(); s.sort(); s.dedup(); s.len() != names.len() };
    let out = run_jcols(cols, names);
    cases.push(&format!("jcols:{}{}", kinds.join("+"), if dup { ":dupnames" } else { "" }), &format!("{} :: {}", line_in, out), &out, note);
}

fn gen_unit_json(cases: &mut Cases, rng: &mut Rng, thorough: bool) {
    use Value::*;
    push_jcols(cases, vec![], "no columns");
    push_jcols(cases, vec![("n".into(), BasicTypeColumn::Null(3))], "a NULL column is rendered as the bare number 3");
    push_jcols(cases, vec![("i".into(), BasicTypeColumn::Int(vec![9007199254740993, -9007199254740993, i64::MAX, i64::MIN]))], "integers beyond 2^53 are exact number texts");
    push_jcols(cases, vec![("f".into(), BasicTypeColumn::Float(vec![f64::NAN, f64::INFINITY, f64::NEG_INFINITY, -0.0, 5e-324, 0.1, 1e300]))], "non-finite floats become null");
    push_jcols(cases, vec![("m".into(), BasicTypeColumn::Mixed(vec![Int(1), Null, Float(f64::NAN.into()), Float(1.0.into()), Str("a\"\\\n\u{1}é日本\u{1F600}".into())]))], "mixed column, escapes");
    push_jcols(cases, vec![("a".into(), BasicTypeColumn::Int(vec![1])), ("a".into(), BasicTypeColumn::Int(vec![2]))], "duplicate column name: the map keeps the later column");
    push_jcols(cases, vec![("b".into(), BasicTypeColumn::Int(vec![1])), ("a".into(), BasicTypeColumn::String(vec!["x".into()]))], "order of colnames is the order of the result, not sorted");
    for sig in 0..16u8 { push_jcols(cases, vec![(format!("s{}", sig), BasicTypeColumn::Mixed(gen_mixed(rng, sig, sig.count_ones() as usize + 2)))], "every signature"); }
    let n = if thorough { 3000 } else { 400 };
    let name_pool = ["a", "b", "c", "count_0", "c 1", "ü", "", "a=b", "x|y", "q,r"];
    for _ in 0..n {
        let k = rng.below(4) as usize + if rng.chance(1, 10) { 0 } else { 1 };
        let cols: Vec<(String, BasicTypeColumn)> = (0..k).map(|_| (rng.pick(&name_pool).to_string(), gen_bcol(rng))).collect();
        push_jcols(cases, cols, "random output");
    }
}

fn all_errors() -> Vec<(&'static str, QueryError)> {
    vec![
        ("SytaxErrorCharsRemaining", QueryError::SytaxErrorCharsRemaining("x".into())),
        ("SyntaxErrorBytesRemaining", QueryError::SyntaxErrorBytesRemaining(vec![1, 2])),
        ("ParseError", QueryError::ParseError("p".into())),
        ("FatalError", QueryError::FatalError("f".into(), std::backtrace::Backtrace::capture())),
        ("NotImplemented", QueryError::NotImplemented("n".into())),
        ("TypeError", QueryError::TypeError("t".into())),
        ("Overflow", QueryError::Overflow),
        ("Canceled", QueryError::Canceled { source: futures::channel::oneshot::Canceled }),
    ]
}
fn variant_name(e: &QueryError) -> &'static str {
    match e {
        QueryError::SytaxErrorCharsRemaining(_) => "SytaxErrorCharsRemaining",
        QueryError::SyntaxErrorBytesRemaining(_) => "SyntaxErrorBytesRemaining",
        QueryError::ParseError(_) => "ParseError",
        QueryError::FatalError(..) => "FatalError",
        QueryError::NotImplemented(_) => "NotImplemented",
        QueryError::TypeError(_) => "TypeError",
        QueryError::Overflow => "Overflow",
        QueryError::Canceled { .. } => "Canceled",
    }
}

fn gen_unit_status(cases: &mut Cases) {
    for (name, e) in all_errors() {
        let code = match catch_unwind(AssertUnwindSafe(|| locustdb::server::verif_map_err_status(Err(e)))) { Ok(c) => c.to_string(), Err(_) => "panic".into() };
        cases.push(&format!("status:{}", name), &format!("status {} :: {}", name, code), &code, "map_err_response on a constructed error value");
    }
    let ok = QueryOutput { colnames: vec![], rows: None, columns: vec![], query_plans: HashMap::new(), stats: Default::default() };
    let code = locustdb::server::verif_map_err_status(Ok(ok)).to_string();
    cases.push("status:Ok", &format!("status Ok :: {}", code), &code, "Ok passes through");
}

// ------------------------------------------------------------------------------------------------
// integer wire layouts (api.rs: Column::serialize_builder, arm Column::Int)

fn ilist<T: std::fmt::Display>(xs: impl Iterator<Item = T>) -> String {
    let v: Vec<String> = xs.map(|x| x.to_string()).collect();
    if v.is_empty() { "[]".into() } else { v.join(",") }
}

/// Union member + payload of one capnp column, `None` for a column that is not an integer column.
/// Same text as C16's `ints` stream (`range:<start>:<len>:<step>`, `d8:<first>:<data>`, `dd16:<first>:<second>:<data>`, `plain:<xs>`).
fn layout_tok(col: api_capnp::column::Reader) -> Option<String> {
    use api_capnp::column::data::Which;
    Some(match col.get_data().which().ok()? {
        Which::I64(xs) => format!("plain:{}", ilist(xs.ok()?.iter())),
        Which::Range(r) => format!("range:{}:{}:{}", r.get_start(), r.get_len(), r.get_step()),
        Which::DeltaEncodedI8(d) => format!("d8:{}:{}", d.get_first(), ilist(d.get_data().ok()?.iter())),
        Which::DeltaEncodedI16(d) => format!("d16:{}:{}", d.get_first(), ilist(d.get_data().ok()?.iter())),
        Which::DeltaEncodedI32(d) => format!("d32:{}:{}", d.get_first(), ilist(d.get_data().ok()?.iter())),
        Which::DoubleDeltaEncodedI8(d) => format!("dd8:{}:{}:{}", d.get_first(), d.get_second(), ilist(d.get_data().ok()?.iter())),
        Which::DoubleDeltaEncodedI16(d) => format!("dd16:{}:{}:{}", d.get_first(), d.get_second(), ilist(d.get_data().ok()?.iter())),
        Which::DoubleDeltaEncodedI32(d) => format!("dd32:{}:{}:{}", d.get_first(), d.get_second(), ilist(d.get_data().ok()?.iter())),
        _ => return None,
    })
}

/// Per response of a `/multi_query_cols` capnp body: column name → integer layout as it is ON THE WIRE
/// (read with the capnp reader, not with the client's decoder).
fn observe_int_layouts(bytes: &[u8]) -> Option<Vec<Vec<(String, String)>>> {
    let reader = capnp::serialize_packed::read_message(bytes, vharness::locustdb_serialization::default_reader_options()).ok()?;
    let mqr = reader.get_root::<api_capnp::multi_query_response::Reader>().ok()?;
    let mut out = vec![];
    for resp in mqr.get_responses().ok()?.iter() {
        let mut cols = vec![];
        for col in resp.get_columns().ok()?.iter() {
            let name = col.get_name().ok()?.to_string().ok()?;
            if let Some(l) = layout_tok(col) { cols.push((name, l)); }
        }
        out.push(cols);
    }
    Some(out)
}

/// The layout the real serializer picks for `xs` (for responses whose bytes the harness does not see: the real client).
fn local_layout(xs: &[i64]) -> String {
    let resp = MultiQueryResponse { responses: vec![QueryResponse { columns: HashMap::from([("c".to_string(), Column::Int(xs.to_vec()))]) }] };
    match catch_unwind(AssertUnwindSafe(|| resp.serialize())) {
        Err(_) => "panic-enc".into(),
        Ok(b) => observe_int_layouts(&b).and_then(|r| r.into_iter().next()).and_then(|c| c.into_iter().next()).map(|c| c.1).unwrap_or("unreadable".into()),
    }
}
fn layout_tag(l: &str) -> &str { l.split(':').next().unwrap_or("?") }

const LAYOUTS: &[&str] = &["range", "d8", "dd8", "d16", "dd16", "d32", "dd32", "plain"];
const INGEST_BOUND: i64 = 1 << 61;
/// Ladder thresholds ±1 (first or second differences exactly there decide between two neighbouring layouts).
const BOUNDS: &[i64] = &[127, 128, -128, -129, 32767, 32768, -32768, -32769, 2147483647, 2147483648, -2147483648, -2147483649, 126, -127, 0, 1, -1];

fn walk(start: i64, deltas: &[i64]) -> Option<Vec<i64>> {
    let mut v = vec![start];
    let mut cur = start;
    for d in deltas { cur = cur.checked_add(*d)?; if cur.abs() >= INGEST_BOUND { return None; } v.push(cur); }
    Some(v)
}

/// `n >= 3` integers (|x| < 2^61) for which the REAL serializer picks `target`; the recipe follows the ladder
/// (first differences d, second differences dd; cf. C16's delta-class random walks), the label is checked on the real code.
fn seq_for_layout(rng: &mut Rng, target: &str, n: usize) -> Vec<i64> {
    let (i8r, i16r, i32r) = ((-128i64, 127i64), (-32768i64, 32767i64), (-2147483648i64, 2147483647i64));
    let edge = |rng: &mut Rng, r: (i64, i64)| match rng.below(4) { 0 => r.0, 1 => r.1, _ => rng.range(r.0, r.1) };
    for _ in 0..200 {
        let start = match rng.below(4) { 0 => 0, 1 => rng.range(-1000, 1000), 2 => 1_700_000_000_000 + rng.range(0, 1 << 30), _ => rng.range(-(1 << 59), 1 << 59) };
        let slopes: &[i64] = &[300, -300, 40_000, -40_000, 100_000, 1 << 20, 1 << 33, -(1 << 33), 1 << 40, 1 << 50];
        let deltas: Vec<i64> = match target {
            "range" => { let s = *rng.pick(&[0i64, 1, -1, 127, 128, 1000, 1 << 31, -(1 << 40), 1 << 52]); vec![s; n - 1] }
            "d8" => (1..n).map(|_| edge(rng, i8r)).collect(),
            "d16" => (1..n).map(|_| edge(rng, i16r)).collect(),
            "d32" => (1..n).map(|_| edge(rng, i32r)).collect(),
            "dd8" | "dd16" | "dd32" => {
                let r = match target { "dd8" => i8r, "dd16" => i16r, _ => i32r };
                let mut d = *rng.pick(slopes);
                let mut v = vec![d];
                for _ in 2..n { d = d.wrapping_add(edge(rng, r)); v.push(d); }
                v
            }
            _ => (1..n).map(|i| { let m = rng.range(1 << 34, 1 << 58); if i % 2 == 0 { m } else { -m } }).collect(),
        };
        if let Some(v) = walk(start, &deltas) { if layout_tag(&local_layout(&v)) == target { return v; } }
    }
    // never reached for n >= 3 (each recipe hits its layout with high probability); keep the stream total
    (0..n as i64).collect()
}

/// Sequences whose first / second differences sit exactly on the ladder's thresholds (whatever layout results).
fn seq_boundary(rng: &mut Rng, n: usize) -> Vec<i64> {
    for _ in 0..50 {
        let start = *rng.pick(&[0i64, -5, 1 << 40, -(1 << 59), 1_700_000_000_000]);
        let deltas: Vec<i64> = if rng.chance(1, 2) {
            let (b, c) = (*rng.pick(BOUNDS), *rng.pick(BOUNDS));
            (1..n).map(|i| if i % 2 == 1 { b } else { c }).collect()
        } else {
            let mut d = *rng.pick(&[1i64 << 33, -(1 << 33), 1 << 20, 40000, 300, 0]);
            let mut v = vec![d];
            for _ in 2..n { d += *rng.pick(BOUNDS); v.push(d); }
            v
        };
        if let Some(v) = walk(start, &deltas) { return v; }
    }
    vec![0; n]
}

fn nclass(n: usize) -> &'static str { match n { 0 => "n0", 1 => "n1", 2 => "n2", 3 => "n3", _ => "n4+" } }

// ------------------------------------------------------------------------------------------------
// e2e stream

/// `db` is shared with the server; `twin` is a second database that receives the same batches through the
/// embedded API only (same options, same flush points).
struct Server { db: Arc<LocustDB>, twin: Arc<LocustDB>, handle: actix_web::dev::ServerHandle, base: String }

fn free_port() -> u16 {
    let l = std::net::TcpListener::bind("127.0.0.1:0").unwrap();
    l.local_addr().unwrap().port()
}

fn start_server() -> Option<Server> {
    let opts = Options { threads: 1, read_threads: 1, partition_combine_factor: 1_000_000_000, metrics_table_name: None, metrics_interval: 3600, ..Options::default() };
    let db = Arc::new(LocustDB::new(&opts));
    let twin = Arc::new(LocustDB::new(&opts));
    for _ in 0..20 {
        let port = free_port();
        match locustdb::server::run(db.clone(), false, vec![], format!("127.0.0.1:{}", port)) {
            Ok((handle, _rx)) => return Some(Server { db, twin, handle, base: format!("http://127.0.0.1:{}", port) }),
            Err(_) => continue,
        }
    }
    None
}

/// Outcome of one HTTP exchange: status + body, or how it failed at the transport level.
enum Http { Resp(u16, Vec<u8>), Dropped(String), Timeout }
impl Http {
    fn status_tok(&self) -> String { match self { Http::Resp(s, _) => s.to_string(), Http::Dropped(_) => "dropped".into(), Http::Timeout => "timeout".into() } }
}

static T_HTTP: std::sync::atomic::AtomicU64 = std::sync::atomic::AtomicU64::new(0);
static T_EMB: std::sync::atomic::AtomicU64 = std::sync::atomic::AtomicU64::new(0);
static N_HTTP: std::sync::atomic::AtomicU64 = std::sync::atomic::AtomicU64::new(0);

async fn post(http: &reqwest::Client, url: &str, body: Vec<u8>, json: bool) -> Http {
    let t0 = std::time::Instant::now();
    let r = post_inner(http, url, body, json).await;
    T_HTTP.fetch_add(t0.elapsed().as_micros() as u64, std::sync::atomic::Ordering::Relaxed);
    N_HTTP.fetch_add(1, std::sync::atomic::Ordering::Relaxed);
    r
}

async fn post_inner(http: &reqwest::Client, url: &str, body: Vec<u8>, json: bool) -> Http {
    let mut rb = http.post(url).timeout(REQ_DEADLINE).body(body);
    if json { rb = rb.header(reqwest::header::CONTENT_TYPE, "application/json"); }
    match rb.send().await {
        Err(e) => if e.is_timeout() { Http::Timeout } else { Http::Dropped(format!("{}", e)) },
        Ok(resp) => {
            let st = resp.status().as_u16();
            match resp.bytes().await { Ok(b) => Http::Resp(st, b.to_vec()), Err(e) => if e.is_timeout() { Http::Timeout } else { Http::Dropped(format!("body: {}", e)) } }
        }
    }
}

struct Emb { out: Result<QueryOutput, String>, /* Err: variant name | "panic" | "hang" */ }

async fn embedded(db: &Arc<LocustDB>, sql: &str, rowformat: bool) -> Emb {
    let t0 = std::time::Instant::now();
    // awaited on the harness runtime (no helper thread); a panic on the caller's side of run_query is caught
    let r = tokio::time::timeout(Duration::from_secs(EMB_DEADLINE), AssertUnwindSafeFut(db.run_query(sql, false, rowformat, vec![]))).await;
    T_EMB.fetch_add(t0.elapsed().as_micros() as u64, std::sync::atomic::Ordering::Relaxed);
    Emb { out: match r {
        Err(_) => Err("hang".into()),
        Ok(Err(())) => Err("panic".into()),
        Ok(Ok(Err(e))) => Err(variant_name(&e).to_string()),
        Ok(Ok(Ok(o))) => Ok(o),
    } }
}

fn rows_tok_values(rows: &[Vec<Value>]) -> String {
    if rows.is_empty() { return "[]".into(); }
    rows.iter().map(|r| if r.is_empty() { "()".to_string() } else { r.iter().map(value_tok).collect::<Vec<_>>().join(",") }).collect::<Vec<_>>().join(";")
}

#[derive(Clone)]
struct BinOpts { xor: bool, mantissa: Option<u32>, fp: Vec<String> }

struct Ctx<'a> { srv: &'a Server, http: &'a reqwest::Client, cases: &'a mut Cases, tag: String }

impl<'a> Ctx<'a> {
    /// After a failing request: the very next request on the same pool must be answered.
    async fn next_ok(&self) -> String {
        let body = serde_json::to_vec(&QueryRequest { query: "SELECT nxt FROM probe".into() }).unwrap();
        match post(self.http, &format!("{}/query_cols", self.srv.base), body, true).await {
            Http::Resp(200, b) => {
                let ok = parse_json(&String::from_utf8_lossy(&b)).map(|j| jcols_view(&j)).unwrap_or_default();
                if ok.contains(&format!("{}=i7", hexs("nxt"))) { "200".into() } else { format!("200-wrong-body") }
            }
            other => other.status_tok(),
        }
    }

    fn err_class(&self, ep: &str, variant: &str, st: &str) -> String { format!("e2e:{}:err:{}:{}", ep, variant, st) }

    async fn on_error(&mut self, ep: &str, variant: &str, resp: &Http, sql: &str) {
        let next = self.next_ok().await;
        let out = format!("{} next:{}", resp.status_tok(), next);
        let detail = match resp { Http::Resp(_, b) => String::from_utf8_lossy(&b[..b.len().min(120)]).to_string(), Http::Dropped(e) => e.clone(), Http::Timeout => String::new() };
        let class = self.err_class(ep, variant, &resp.status_tok());
        self.cases.push(&class, &format!("e2e {} err {} :: {}", ep, variant, out), &out, &format!("{} | {} | {}", self.tag, sql, detail));
    }

    /// `/query`: row format.
    async fn q_rows(&mut self, sql: &str) {
        let emb = embedded(&self.srv.db, sql, true).await;
        let body = serde_json::to_vec(&QueryRequest { query: sql.to_string() }).unwrap();
        let resp = post(self.http, &format!("{}/query", self.srv.base), body, true).await;
        match &emb.out {
            Err(v) if v == "panic" || v == "hang" => {
                let out = resp.status_tok();
                self.cases.push(&format!("e2e:query:emb-{}", v), &format!("e2e query emb:{} :: {}", v, out), &out, &format!("{} | {}", self.tag, sql));
            }
            Err(variant) => self.on_error("query", &variant.clone(), &resp, sql).await,
            Ok(o) => {
                let rows = o.rows.clone().unwrap_or_default();
                let out = match &resp {
                    Http::Resp(200, b) => match parse_json(&String::from_utf8_lossy(b)) { Some(j) => format!("200 {}", jrows_view(&j)), None => "200 unparsable".into() },
                    other => other.status_tok(),
                };
                let class = format!("e2e:query:ok:{}", cell_kinds(rows.iter().flatten()));
                self.cases.push(&class, &format!("e2e query rows {} {} :: {}", names_tok(&o.colnames), rows_tok_values(&rows), out), &out, &format!("{} | {}", self.tag, sql));
            }
        }
    }

    /// `/query_cols`: JSON columns.
    async fn q_cols(&mut self, sql: &str) {
        let emb = embedded(&self.srv.db, sql, false).await;
        let body = serde_json::to_vec(&QueryRequest { query: sql.to_string() }).unwrap();
        let resp = post(self.http, &format!("{}/query_cols", self.srv.base), body, true).await;
        match &emb.out {
            Err(v) if v == "panic" || v == "hang" => {
                let out = resp.status_tok();
                self.cases.push(&format!("e2e:query_cols:emb-{}", v), &format!("e2e query_cols emb:{} :: {}", v, out), &out, &format!("{} | {}", self.tag, sql));
            }
            Err(variant) => self.on_error("query_cols", &variant.clone(), &resp, sql).await,
            Ok(o) => {
                let out = match &resp {
                    Http::Resp(200, b) => match parse_json(&String::from_utf8_lossy(b)) { Some(j) => format!("200 {}", jcols_view(&j)), None => "200 unparsable".into() },
                    other => other.status_tok(),
                };
                let class = format!("e2e:query_cols:ok:{}", col_kinds(&o.columns));
                self.cases.push(&class, &format!("e2e query_cols cols {} {} :: {}", names_tok(&o.colnames), named(&o.columns), out), &out, &format!("{} | {}", self.tag, sql));
            }
        }
    }

    /// `/multi_query_cols` with `k` queries; `bin = None` → JSON list, `Some` → capnp body.
    async fn q_multi(&mut self, sqls: &[String], bin: Option<BinOpts>, via_client: Option<&LoggingClient>) {
        let mut embs: Vec<Emb> = vec![];
        for q in sqls { embs.push(embedded(&self.srv.db, q, false).await); }
        let ep = match (&bin, via_client) { (None, _) => "mjson", (Some(_), None) => "mbin", (Some(_), Some(_)) => "mclient" };
        let note = format!("{} | {}", self.tag, sqls.join(" ;; "));
        // request
        let (resp, client_view): (Http, Option<Result<Vec<QueryResponse>, String>>) = if let Some(client) = via_client {
            // the real client (fixed options: xor on, full precision)
            let fut = client.multi_query(sqls.to_vec());
            match tokio::time::timeout(REQ_DEADLINE, AssertUnwindSafeFut(fut)).await {
                Err(_) => (Http::Timeout, None),
                Ok(Err(_panic)) => (Http::Resp(200, vec![]), Some(Err("client-panic".into()))),
                Ok(Ok(Ok(r))) => (Http::Resp(200, vec![]), Some(Ok(r))),
                Ok(Ok(Err(locustdb::logging_client::Error::Request { status_code, msg }))) => (Http::Resp(status_code, msg.into_bytes()), None),
                Ok(Ok(Err(e))) => (Http::Dropped(format!("{}", e)), None),
            }
        } else {
            let req = MultiQueryRequest { queries: sqls.to_vec(), encoding_opts: bin.as_ref().map(|b| EncodingOpts { xor_float_compression: b.xor, mantissa: b.mantissa, full_precision_cols: b.fp.iter().cloned().collect() }) };
            let r = post(self.http, &format!("{}/multi_query_cols", self.srv.base), serde_json::to_vec(&req).unwrap(), true).await;
            let cv = match (&r, &bin) {
                (Http::Resp(200, b), Some(_)) => Some(match catch_unwind(AssertUnwindSafe(|| MultiQueryResponse::deserialize(b))) {
                    Err(_) => Err("client-panic".to_string()),
                    Ok(Err(_)) => Err("client-err".to_string()),
                    Ok(Ok(m)) => catch_unwind(AssertUnwindSafe(|| client_decode(m.responses))).map_err(|_| "client-panic".to_string()),
                }),
                _ => None,
            };
            (r, cv)
        };
        // embedded failure of any query → the whole request is an error (first failing query in order)
        if let Some((_, e)) = embs.iter().enumerate().find(|(_, e)| e.out.is_err()) {
            let v = e.out.as_ref().err().unwrap().clone();
            if v == "panic" || v == "hang" {
                let out = resp.status_tok();
                self.cases.push(&format!("e2e:{}:emb-{}", ep, v), &format!("e2e {} emb:{} :: {}", ep, v, out), &out, &note);
            } else {
                self.on_error(ep, &v, &resp, &sqls.join(" ;; ")).await;
            }
            return;
        }
        let k = sqls.len();
        let opt_tok = match &bin { None => String::new(), Some(b) => format!(" {} {} {}", b.xor as u8, b.mantissa.map(|m| m.to_string()).unwrap_or("_".into()), names_tok(&b.fp)) };
        let outs: Vec<&QueryOutput> = embs.iter().map(|e| e.out.as_ref().ok().unwrap()).collect();
        // one case per request: all k results, all k response parts
        let out = match (&resp, &bin) {
            (Http::Resp(200, b), None) => match parse_json(&String::from_utf8_lossy(b)) {
                Some(J::Arr(xs)) if xs.len() == k => format!("200 {}", xs.iter().map(jcols_view).collect::<Vec<_>>().join(" ;; ")),
                Some(J::Arr(xs)) => format!("200 wrong-count-{}", xs.len()),
                _ => "200 unparsable".into(),
            },
            (Http::Resp(200, _), Some(_)) => match client_view.as_ref().unwrap() {
                Err(e) => format!("200 {}", e),
                Ok(rs) if rs.len() != k => format!("200 wrong-count-{}", rs.len()),
                Ok(rs) => format!("200 {}", rs.iter().map(|r| {
                    let mut v: Vec<(String, String)> = r.columns.iter().map(|(n, c)| (n.clone(), wcoltok(c))).collect();
                    v.sort();
                    if v.is_empty() { "[]".to_string() } else { v.iter().map(|(n, c)| format!("{}={}", hexs(n), c)).collect::<Vec<_>>().join("|") }
                }).collect::<Vec<_>>().join(" ;; ")),
            },
            (other, _) => other.status_tok(),
        };
        let all_cols: Vec<(String, BasicTypeColumn)> = outs.iter().flat_map(|o| o.columns.iter().map(|(n, c)| (n.clone(), clone_bcol(c)))).collect();
        let class = format!("e2e:{}:ok:{}{}", ep, col_kinds(&all_cols), match &bin { Some(b) => format!(":{}{}{}", if b.xor { "xor" } else { "plain" }, match b.mantissa { None => "".to_string(), Some(m) => format!(":m{}", m / 13 * 13) }, if b.fp.is_empty() { "" } else { ":fp" }), None => String::new() });
        let blocks = outs.iter().map(|o| format!("cols {} {}", names_tok(&o.colnames), named(&o.columns))).collect::<Vec<_>>().join(" ;; ");
        self.cases.push(&class, &format!("e2e {} {}{} {} :: {}", ep, k, opt_tok, blocks, out), &out, &note);
        // one case per integer result column of a binary response: the layout on the wire and what the client decoded
        if let (Some(b), Http::Resp(200, body), Some(Ok(rs))) = (&bin, &resp, client_view.as_ref()) {
            let wire = if via_client.is_none() { observe_int_layouts(body) } else { None };
            for (i, o) in outs.iter().enumerate() {
                for (name, col) in &o.columns {
                    let xs: Vec<i64> = match col {
                        BasicTypeColumn::Int(v) => v.clone(),
                        BasicTypeColumn::Mixed(v) if !v.is_empty() && v.iter().all(|x| matches!(x, Value::Int(_))) => v.iter().map(|x| if let Value::Int(i) = x { *i } else { 0 }).collect(),
                        _ => continue,
                    };
                    if o.columns.iter().filter(|c| &c.0 == name).count() != 1 { continue; }
                    let lay = match (&wire, via_client) {
                        (Some(w), _) => w.get(i).and_then(|cs| cs.iter().find(|c| &c.0 == name)).map(|c| c.1.clone()).unwrap_or("not-an-int-column".into()),
                        (None, Some(_)) => local_layout(&xs),
                        (None, None) => "unreadable".into(),
                    };
                    let got = match rs.get(i).and_then(|r| r.columns.get(name)) { Some(Column::Int(v)) => format!("ok:{}", ilist(v.iter())), Some(c) => wcoltok(c), None => "lost".into() };
                    let o2 = format!("{} => {}", lay, got);
                    let cl = format!("e2e:{}:intwire:{}:{}:{}", ep, layout_tag(&lay), nclass(xs.len()), if b.xor { "xor" } else { "plain" });
                    self.cases.push(&cl, &format!("e2e intwire {} {} :: {}", ep, ilist(xs.iter()), o2), &o2, &format!("{} | column {} of response {}", note, name, i));
                }
            }
        }
        if out == "dropped" || out.starts_with("200 client") {
            // a server- or client-side panic: the next request must still be answered
            let nx = self.next_ok().await;
            let o2 = format!("next:{}", nx);
            self.cases.push(&format!("e2e:{}:after-panic", ep), &format!("e2e next :: {}", o2), &o2, &note);
        }
    }

    async fn insert_raw(&mut self, batches: &[Batch], note: &str) -> bool {
        let body = wire_bytes(batches);
        let resp = post(self.http, &format!("{}/insert_bin", self.srv.base), body, false).await;
        let out = resp.status_tok();
        let kinds: Vec<&str> = batches.iter().flat_map(|b| b.cols.iter().map(|c| c.1.kind())).collect();
        let mut k = kinds.clone(); k.sort(); k.dedup();
        self.cases.push(&format!("e2e:insert_bin:{}", k.join("+")), &format!("e2e insert :: {}", out), &out, &format!("{} | {}", self.tag, note));
        out == "200"
    }
}

/// `catch_unwind` for a future (the client `unwrap`s while decoding a response).
struct AssertUnwindSafeFut<F>(F);
impl<F: std::future::Future> std::future::Future for AssertUnwindSafeFut<F> {
    type Output = Result<F::Output, ()>;
    fn poll(self: std::pin::Pin<&mut Self>, cx: &mut std::task::Context<'_>) -> std::task::Poll<Self::Output> {
        let inner = unsafe { self.map_unchecked_mut(|s| &mut s.0) };
        match catch_unwind(AssertUnwindSafe(|| inner.poll(cx))) {
            Ok(std::task::Poll::Pending) => std::task::Poll::Pending,
            Ok(std::task::Poll::Ready(v)) => std::task::Poll::Ready(Ok(v)),
            Err(_) => std::task::Poll::Ready(Err(())),
        }
    }
}

fn cell_kinds<'a>(vals: impl Iterator<Item = &'a Value>) -> String {
    let mut s = 0u8;
    let mut big = false; let mut nonfinite = false;
    for v in vals {
        s |= match v { Value::Int(i) => { if i.unsigned_abs() > (1 << 53) { big = true; } 1 }, Value::Str(_) => 2, Value::Null => 4, Value::Float(f) => { if !f.0.is_finite() { nonfinite = true; } 8 } };
    }
    format!("sig{}{}{}", s, if big { "+big" } else { "" }, if nonfinite { "+nonfinite" } else { "" })
}
fn col_kinds(cols: &[(String, BasicTypeColumn)]) -> String {
    let mut k: Vec<String> = cols.iter().map(|c| {
        let extra = match &c.1 {
            BasicTypeColumn::Int(v) if v.iter().any(|i| i.unsigned_abs() > (1 << 53)) => "+big",
            BasicTypeColumn::Float(v) if v.iter().any(|f| !f.is_finite()) => "+nonfinite",
            BasicTypeColumn::Mixed(v) if v.iter().any(|x| matches!(x, Value::Float(f) if !f.0.is_finite())) => "+nonfinite",
            _ => "",
        };
        format!("{}{}", bcol_class(&c.1), extra)
    }).collect();
    k.sort(); k.dedup();
    if k.is_empty() { "none".into() } else { k.join("+") }
}

/// Logical table for the e2e stream: `id` plus typed columns (ints stay inside ±2^61 so that ingestion-side
/// findings of C01 are not triggered; extremes are exercised by the dedicated witness scenario).
fn gen_table_cols(rng: &mut Rng, n: usize) -> Vec<(String, Vec<Cell>)> {
    let mut cols: Vec<(String, Vec<Cell>)> = vec![("id".into(), (0..n as i64).map(Cell::Int).collect())];
    let k = 2 + rng.below(3) as usize;
    for j in 0..k {
        let cells: Vec<Cell> = match rng.below(7) {
            0 => { let c = *rng.pick(&["u8", "u16", "mono", "small", "const"]); gen_ints(rng, n, c).into_iter().map(Cell::Int).collect() }
            1 => (0..n).map(|_| Cell::Int(match rng.below(3) { 0 => *rng.pick(&[9007199254740993i64, -9007199254740993, 9007199254740992, 1 << 60, -(1 << 60), (1 << 61) - 1]), 1 => rng.range(-(1 << 61), 1 << 61), _ => rng.range(-1000, 1000) })).collect(),
            2 => { let c = *rng.pick(&["dyadic", "edges", "f32", "nan"]); gen_floats(rng, n, c).into_iter().map(Cell::f).collect() }
            3 => gen_floats(rng, n, "bits").into_iter().map(Cell::f).collect(),
            4 | 5 => { let c = *rng.pick(&["lowcard", "pool", "highcard"]); gen_strs(rng, n, c).into_iter().map(Cell::Str).collect() }
            _ => vec![Cell::Null; n],
        };
        let mask = if rng.chance(1, 2) { vec![false; n] } else { gen_null_mask(rng, n) };
        let is_str = cells.iter().any(|c| matches!(c, Cell::Str(_)));
        // string columns are sent dense (a sparse string column is outside the wire API's domain, C16)
        let cells = if is_str { cells } else { apply_nulls(cells, &mask) };
        cols.push((format!("c{}", j + 1), cells));
    }
    cols
}

fn gen_queries(rng: &mut Rng, cols: &[(String, Vec<Cell>)], n: usize, t: &str) -> Vec<String> {
    gen_queries_t(rng, cols, n).into_iter().map(|q| q.replace(" FROM t", &format!(" FROM {}", t))).collect()
}
fn gen_queries_t(rng: &mut Rng, cols: &[(String, Vec<Cell>)], n: usize) -> Vec<String> {
    let names: Vec<&str> = cols.iter().map(|c| c.0.as_str()).collect();
    let is_int = |c: &(String, Vec<Cell>)| c.1.iter().all(|x| matches!(x, Cell::Int(_) | Cell::Null)) && c.1.iter().any(|x| matches!(x, Cell::Int(_)));
    let mut qs = vec![format!("SELECT {} FROM t", names.join(", "))];
    let mut sub: Vec<&str> = names.iter().cloned().filter(|_| rng.chance(1, 2)).collect();
    if sub.is_empty() { sub.push(names[rng.below(names.len() as u64) as usize]); }
    for i in (1..sub.len()).rev() { let j = rng.below(i as u64 + 1) as usize; sub.swap(i, j); }
    qs.push(format!("SELECT {} FROM t", sub.join(", ")));
    qs.push(format!("SELECT {} FROM t WHERE id < {}", sub.join(", "), rng.below(n as u64 + 2)));
    qs.push(format!("SELECT {} FROM t ORDER BY id DESC LIMIT {}", names.join(", "), 1 + rng.below(n as u64 + 2)));
    qs.push("SELECT COUNT(1) FROM t".to_string());
    if let Some(c) = cols.iter().skip(1).find(|c| is_int(c)) {
        qs.push(format!("SELECT id, {} + 1 FROM t", c.0));
        qs.push(format!("SELECT SUM({}), COUNT({}) FROM t", c.0, c.0));
    }
    if rng.chance(1, 2) { qs.push(format!("SELECT {}, {} FROM t", names[0], names[0])); }
    if rng.chance(1, 3) { qs.push("SELECT id FROM t WHERE id < 0".to_string()); }
    qs
}

/// Failing queries: (sql, what it is).
fn failing_queries() -> Vec<(&'static str, &'static str)> {
    vec![
        ("SELEC id FROM t", "bad SQL"),
        ("SELECT id FROM t WHERE", "bad SQL (truncated)"),
        ("SELECT id FROM no_such_table", "unknown table"),
        ("SELECT id FROM t GROUP BY id", "unsupported syntax"),
        ("SELECT s + 1 FROM terr", "type error"),
        ("SELECT big * big FROM terr", "overflow"),
        ("SELECT big / 0 FROM terr", "division by zero"),
    ]
}

async fn scenario(srv: &Server, http: &reqwest::Client, cases: &mut Cases, rng: &mut Rng, sid: usize, thorough: bool) {
    let n = if sid % 9 == 4 { 0 } else { *rng.pick(&[1usize, 2, 3, 7, 8, 9, 20, 40]) };
    let cols = gen_table_cols(rng, n);
    let nb = if n == 0 { 1 } else { 1 + rng.below(3.min(n as u64)) as usize };
    let mut cuts: Vec<usize> = (0..nb - 1).map(|_| rng.below(n as u64 + 1) as usize).collect();
    cuts.sort();
    let mut bounds = vec![0]; bounds.extend(cuts); bounds.push(n);
    let mut ctx = Ctx { srv, http, cases, tag: format!("s{}", sid) };
    // the real client (background flusher; a generous buffer so nothing is ever dropped)
    let mut client = LoggingClient::new(Duration::from_millis(20), &srv.base, 1 << 30, BufferFullPolicy::Drop, None);
    let tname = format!("t{}", sid);
    let clname = format!("cl{}", sid);
    let mut qs = gen_queries(rng, &cols, n, &tname);
    if n >= 2 && cols.len() >= 3 {
        // two different columns under one alias (open finding http-cols-duplicate-names on the column endpoints)
        if rng.chance(1, 3) { qs.push(format!("SELECT {} AS x, {} AS x FROM {}", cols[1].0, cols[2].0, tname)); }
    }
    let mut inserted = 0usize;
    for b in 0..nb {
        let (s, e) = (bounds[b], bounds[b + 1]);
        if e > s || n == 0 {
            let batch = Batch { table: tname.clone(), len: (e - s) as u64,
                cols: cols.iter().map(|(name, c)| (name.clone(), ColRep::from_cells(&c[s..e], rng.next()))).collect() };
            if e > s {
                // the same batch through the embedded API into the twin database
                let eb = event_buffer(&[batch.clone()]);
                srv.twin.ingest_efficient(eb).await;
                if !ctx.insert_raw(&[batch], &format!("rows {}..{}", s, e)).await { return; }
            }
            inserted = e;
        }
        if rng.chance(1, 2) {
            for d in [srv.db.clone(), srv.twin.clone()] {
                if with_deadline(60, move || d.force_flush()).is_none() { eprintln!("c17: flush hang in scenario {}", sid); return; }
            }
        }
        ctx.tag = format!("s{} rows={} batch={}/{}", sid, inserted, b + 1, nb);
        // rows inserted through /insert_bin vs the same batches through the embedded API: same query results
        {
            let mut diff = String::new();
            for q in &qs {
                let a = embedded(&srv.db, q, true).await;
                let t = embedded(&srv.twin, q, true).await;
                let show = |e: &Emb| match &e.out { Ok(o) => format!("{} {} {}", names_tok(&o.colnames), named(&o.columns), rows_tok_values(o.rows.as_deref().unwrap_or(&[]))), Err(v) => format!("err:{}", v) };
                if show(&a) != show(&t) { diff = format!("differs on {}", q.replace(['\t', '\n'], " ")); break; }
            }
            let out = if diff.is_empty() { "same".to_string() } else { diff };
            ctx.cases.push("e2e:twin:insert_bin-vs-embedded-ingest", &format!("e2e twin :: {}", out), &out, &ctx.tag.clone());
        }
        // queries interleaved with the inserts, all endpoints on the one pool
        for q in &qs {
            if !thorough && b + 1 < nb && rng.chance(1, 2) { continue; }
            ctx.q_rows(q).await;
            ctx.q_cols(q).await;
        }
        let k = 1 + rng.below(3) as usize;
        let multi: Vec<String> = (0..k).map(|_| rng.pick(&qs).clone()).collect();
        ctx.q_multi(&multi, None, None).await;
        let fp: Vec<String> = if rng.chance(1, 3) { cols.iter().filter(|_| rng.chance(1, 2)).map(|c| c.0.clone()).collect() } else { vec![] };
        for bo in [BinOpts { xor: false, mantissa: None, fp: vec![] }, BinOpts { xor: true, mantissa: None, fp: vec![] },
                   BinOpts { xor: true, mantissa: Some(*rng.pick(&[0u32, 4, 10, 23, 40, 52])), fp: fp.clone() },
                   BinOpts { xor: false, mantissa: Some(7), fp: vec![] }] {
            let k = 1 + rng.below(2) as usize;
            let multi: Vec<String> = (0..k).map(|i| if i == 0 { qs[0].clone() } else { rng.pick(&qs).clone() }).collect();
            ctx.q_multi(&multi, Some(bo), None).await;
        }
        ctx.q_multi(&[qs[0].clone(), qs[1].clone()], Some(BinOpts { xor: true, mantissa: None, fp: vec![] }), Some(&client)).await;
    }
    // rows through the real client: log(), background flush, then read back through every endpoint
    let m = 1 + rng.below(4) as usize;
    for r in 0..m {
        let mut row: Vec<(String, AnyVal)> = vec![("timestamp".into(), AnyVal::Int(1000 + r as i64)), ("k".into(), AnyVal::Int(r as i64 * 3 - 1))];
        if rng.chance(2, 3) { row.push(("v".into(), AnyVal::Float(f64::from_bits(*rng.pick(F_EDGES_NO_NULL))))); }
        row.push(("s".into(), AnyVal::Str(rng.pick(STR_POOL).to_string())));
        client.log(&clname, row);
    }
    let dropped = tokio::time::timeout(Duration::from_secs(90), tokio::task::spawn_blocking(move || drop(client))).await;
    let flushed = matches!(dropped, Ok(Ok(())));
    ctx.cases.push("e2e:client-log", &format!("e2e clientflush :: {}", if flushed { "flushed" } else { "stuck" }), if flushed { "flushed" } else { "stuck" }, &format!("s{} {} rows through LoggingClient::log", sid, m));
    if flushed {
        ctx.tag = format!("s{} client rows={}", sid, m);
        for q in ["SELECT timestamp, k, s FROM cl", "SELECT k, v FROM cl", "SELECT COUNT(1) FROM cl"] {
            let q = q.replace(" FROM cl", &format!(" FROM {}", clname));
            ctx.q_rows(&q).await;
            ctx.q_cols(&q).await;
            ctx.q_multi(&[q.to_string()], Some(BinOpts { xor: true, mantissa: None, fp: vec![] }), None).await;
        }
    }
}

const F_EDGES_NO_NULL: &[u64] = &[0, 0x8000000000000000, 0x3ff0000000000000, 0xbff8000000000000, 0x7ff0000000000000, 0xfff0000000000000, 0x7ff8000000000001, 1, 0x3fb999999999999a, 0x4340000000000001];

async fn failing(srv: &Server, http: &reqwest::Client, cases: &mut Cases, thorough: bool) {
    let mut ctx = Ctx { srv, http, cases, tag: "failing".into() };
    // tables the failing queries refer to
    let t = Batch { table: "t".into(), len: 3, cols: vec![("id".into(), ColRep::I64(vec![0, 1, 2]))] };
    let terr = Batch { table: "terr".into(), len: 3, cols: vec![("s".into(), ColRep::Str(vec!["a".into(), "b".into(), "c".into()])), ("big".into(), ColRep::I64(vec![1 << 40, 3037000500, 7]))] };
    let probe = Batch { table: "probe".into(), len: 1, cols: vec![("nxt".into(), ColRep::I64(vec![7]))] };
    if !ctx.insert_raw(&[t, terr, probe], "tables for the failing queries").await { return; }
    let reps = if thorough { 3 } else { 1 };
    for _ in 0..reps {
        for (q, what) in failing_queries() {
            ctx.tag = format!("failing: {}", what);
            ctx.q_rows(q).await;
            ctx.q_cols(q).await;
            ctx.q_multi(&[q.to_string()], None, None).await;
            ctx.q_multi(&["SELECT id FROM t".to_string(), q.to_string()], Some(BinOpts { xor: true, mantissa: None, fp: vec![] }), None).await;
            ctx.q_multi(&[q.to_string(), "SELECT id FROM t".to_string()], Some(BinOpts { xor: false, mantissa: None, fp: vec![] }), None).await;
        }
    }
    // malformed requests: not a query failure, but the server must answer and keep serving
    for (ep, body, what) in [("query", "{\"quer\": 1}", "wrong JSON shape"), ("query_cols", "not json", "not JSON"), ("multi_query_cols", "{\"queries\": \"x\"}", "wrong type"), ("insert_bin", "\u{1}\u{2}garbage", "garbage capnp")] {
        let resp = post(http, &format!("{}/{}", srv.base, ep), body.as_bytes().to_vec(), ep != "insert_bin").await;
        let next = ctx.next_ok().await;
        let out = format!("{} next:{}", resp.status_tok(), next);
        ctx.cases.push(&format!("e2e:malformed:{}", ep), &format!("e2e malformed {} :: {}", ep, out), &out, what);
    }
}

/// Integer extremes: ingestion is safe for these (not monotone, no i64::MIN/0 pair), the binary response is not.
async fn witness_extremes(srv: &Server, http: &reqwest::Client, cases: &mut Cases) {
    let mut ctx = Ctx { srv, http, cases, tag: "witness-extremes".into() };
    let probe = Batch { table: "probe".into(), len: 1, cols: vec![("nxt".into(), ColRep::I64(vec![7]))] };
    let w = Batch { table: "w".into(), len: 4, cols: vec![
        ("x".into(), ColRep::I64(vec![5, i64::MIN + 1, i64::MAX - 1, 0])),
        ("r".into(), ColRep::I64(vec![-(1 << 62), 0, 1 << 62, -3])),
        ("id".into(), ColRep::I64(vec![0, 1, 2, 3])) ] };
    if !ctx.insert_raw(&[probe, w], "extreme integers").await { return; }
    for q in ["SELECT x FROM w", "SELECT x FROM w WHERE id > 0 AND id < 3", "SELECT r FROM w WHERE id < 3", "SELECT id, x FROM w",
              "SELECT id AS a, r AS a FROM w WHERE id = 3", "SELECT id AS a, id AS a FROM w"] {
        ctx.q_rows(q).await;
        ctx.q_cols(q).await;
        ctx.q_multi(&[q.to_string()], None, None).await;
        ctx.q_multi(&[q.to_string()], Some(BinOpts { xor: true, mantissa: None, fp: vec![] }), None).await;
    }
}

/// Every integer wire layout end to end: tables whose integer columns make the server's serializer pick range, delta
/// i8/i16/i32, double-delta i8/i16/i32 and raw i64 (plus columns sitting on the ladder's thresholds), queried whole,
/// as a prefix and reversed through /multi_query_cols capnp (plain, xor, xor + mantissa, mantissa only, full-precision
/// list), the real client, and the JSON endpoints.  The layout in the class name is read off the response bytes.
async fn int_layouts(srv: &Server, http: &reqwest::Client, cases: &mut Cases, rng: &mut Rng, tables: usize) {
    let mut ctx = Ctx { srv, http, cases, tag: "intlayouts".into() };
    let probe = Batch { table: "probe".into(), len: 1, cols: vec![("nxt".into(), ColRep::I64(vec![7]))] };
    if !ctx.insert_raw(&[probe], "probe").await { return; }
    let client = LoggingClient::new(Duration::from_secs(3600), &srv.base, 1 << 30, BufferFullPolicy::Drop, None);
    // lengths 1 and 2: raw i64 resp. always range
    for (t, xs) in [("lay_n1", vec![1_700_000_000_123i64]), ("lay_n2", vec![-40_000, 1 << 40])] {
        let b = Batch { table: t.into(), len: xs.len() as u64, cols: vec![("id".into(), ColRep::I64((0..xs.len() as i64).collect())), ("v".into(), ColRep::I64(xs))] };
        if !ctx.insert_raw(&[b], "short integer column").await { return; }
        ctx.tag = format!("intlayouts {}", t);
        let q = format!("SELECT v FROM {}", t);
        for xor in [false, true] { ctx.q_multi(&[q.clone()], Some(BinOpts { xor, mantissa: None, fp: vec![] }), None).await; }
        ctx.q_multi(&[q.clone()], Some(BinOpts { xor: true, mantissa: None, fp: vec![] }), Some(&client)).await;
    }
    for t in 0..tables {
        let n = [3usize, 4, 5, 9, 33, 6, 3, 17, 4, 40][t % 10];
        let tname = format!("lay{}", t);
        let mut cols: Vec<(String, ColRep)> = vec![("id".into(), ColRep::I64((0..n as i64).collect()))];
        for l in LAYOUTS { cols.push((format!("c_{}", l), ColRep::I64(seq_for_layout(rng, l, n)))); }
        for j in 0..3 { cols.push((format!("b{}", j), ColRep::I64(seq_boundary(rng, n)))); }
        let names: Vec<String> = cols.iter().map(|c| c.0.clone()).collect();
        if !ctx.insert_raw(&[Batch { table: tname.clone(), len: n as u64, cols }], &format!("{} rows, one column per integer layout", n)).await { return; }
        if t % 2 == 1 {
            for d in [srv.db.clone()] { if with_deadline(60, move || d.force_flush()).is_none() { eprintln!("c17: flush hang in intlayouts {}", t); return; } }
        }
        ctx.tag = format!("intlayouts {} rows={}{}", tname, n, if t % 2 == 1 { " flushed" } else { "" });
        let all = format!("SELECT {} FROM {}", names.join(", "), tname);
        let prefix = format!("SELECT {} FROM {} WHERE id < {}", names[1..].join(", "), tname, 3 + rng.below(n as u64 - 2));
        let rev = format!("SELECT {} FROM {} ORDER BY id DESC LIMIT {}", names[1..].join(", "), tname, n);
        let fp: Vec<String> = names.iter().filter(|_| rng.chance(1, 2)).cloned().collect();
        ctx.q_multi(&[all.clone()], Some(BinOpts { xor: false, mantissa: None, fp: vec![] }), None).await;
        ctx.q_multi(&[all.clone(), prefix.clone()], Some(BinOpts { xor: true, mantissa: None, fp: vec![] }), None).await;
        ctx.q_multi(&[rev.clone()], Some(BinOpts { xor: true, mantissa: Some(*rng.pick(&[0u32, 10, 23, 52])), fp }), None).await;
        ctx.q_multi(&[prefix.clone(), rev.clone()], Some(BinOpts { xor: false, mantissa: Some(7), fp: vec![] }), None).await;
        ctx.q_multi(&[all.clone(), rev.clone()], Some(BinOpts { xor: true, mantissa: None, fp: vec![] }), Some(&client)).await;
        ctx.q_multi(&[all.clone()], None, None).await;
        ctx.q_cols(&rev).await;
        ctx.q_rows(&prefix).await;
    }
    let _ = tokio::time::timeout(Duration::from_secs(30), tokio::task::spawn_blocking(move || drop(client))).await;
}

/// Inserts into table `u` concurrently with queries on table `t` (whose content does not change): every
/// response must equal the embedded answer; afterwards `u` holds every inserted row exactly once.
async fn concurrent(srv: &Server, http: &reqwest::Client, cases: &mut Cases, rng: &mut Rng, rounds: usize) {
    let mut ctx = Ctx { srv, http, cases, tag: "concurrent".into() };
    let cols = vec![("id".to_string(), ColRep::I64((0..20).collect())), ("f".to_string(), ColRep::Dense((0..20).map(|i| i as f64 * 0.5 - 3.0).collect())),
                    ("s".to_string(), ColRep::Str((0..20).map(|i| format!("v{}", i % 4)).collect()))];
    if !ctx.insert_raw(&[Batch { table: "t".into(), len: 20, cols }], "static table").await { return; }
    let emb_cols = embedded(&srv.db, "SELECT id, f, s FROM t", false).await;
    let want = match &emb_cols.out { Ok(o) => named(&o.columns), Err(_) => return };
    let want_names = match &emb_cols.out { Ok(o) => names_tok(&o.colnames), Err(_) => return };
    let mut total = 0i64;
    for round in 0..rounds {
        let mut futs = vec![];
        let k = 2 + rng.below(4) as usize;
        for j in 0..k {
            let m = 1 + rng.below(5) as i64;
            let b = Batch { table: "u".into(), len: m as u64, cols: vec![("a".into(), ColRep::I64((total..total + m).collect()))] };
            total += m;
            let url = format!("{}/insert_bin", srv.base);
            let http2 = http.clone();
            futs.push(tokio::spawn(async move { (format!("ins{}", j), post(&http2, &url, wire_bytes(&[b]), false).await) }));
            let url = format!("{}/query_cols", srv.base);
            let http2 = http.clone();
            futs.push(tokio::spawn(async move { (format!("q{}", j), post(&http2, &url, serde_json::to_vec(&QueryRequest { query: "SELECT id, f, s FROM t".into() }).unwrap(), true).await) }));
        }
        for f in futs {
            let (what, resp) = f.await.unwrap();
            if what.starts_with("ins") {
                let out = resp.status_tok();
                ctx.cases.push("e2e:concurrent:insert", &format!("e2e insert :: {}", out), &out, &format!("round {}", round));
            } else {
                let out = match &resp { Http::Resp(200, b) => match parse_json(&String::from_utf8_lossy(b)) { Some(j) => format!("200 {}", jcols_view(&j)), None => "200 unparsable".into() }, o => o.status_tok() };
                ctx.cases.push("e2e:concurrent:query_cols", &format!("e2e query_cols cols {} {} :: {}", want_names, want, out), &out, &format!("round {}", round));
            }
        }
        // every inserted row exactly once, through HTTP and embedded alike
        ctx.tag = format!("concurrent round {} total {}", round, total);
        ctx.q_rows("SELECT COUNT(1), SUM(a) FROM u").await;
        ctx.q_cols("SELECT COUNT(1), SUM(a) FROM u").await;
    }
}

fn main() {
    let args = parse_args();
    quiet_panics();
    let mut rng = Rng::new(args.seed);
    let mut cases = Cases::create(&args.out);
    let only = args.rest.first().cloned();
    let want = |k: &str| only.as_deref().map(|o| o == k).unwrap_or(true);
    let thorough = args.thorough();

    if want("e2e") {
        let rt = tokio::runtime::Builder::new_multi_thread().worker_threads(4).enable_all().build().unwrap();
        let mut r = rng.fork();
        rt.block_on(async {
            let http = reqwest::Client::builder().pool_max_idle_per_host(4).build().unwrap();
            // corpus first: the failing-query scenario (DESIGN §8 #22) and the integer extremes
            if let Some(srv) = start_server() {
                let t0 = std::time::Instant::now();
                failing(&srv, &http, &mut cases, thorough).await;
                if std::env::var("C17_TIMING").is_ok() { eprintln!("failing {:?} http {} ms / {} reqs", t0.elapsed(), T_HTTP.load(std::sync::atomic::Ordering::Relaxed) / 1000, N_HTTP.load(std::sync::atomic::Ordering::Relaxed)); }
                witness_extremes(&srv, &http, &mut cases).await;
                if std::env::var("C17_TIMING").is_ok() { eprintln!("witness {:?} http {} ms / {} reqs", t0.elapsed(), T_HTTP.load(std::sync::atomic::Ordering::Relaxed) / 1000, N_HTTP.load(std::sync::atomic::Ordering::Relaxed)); }
                srv.handle.stop(false).await;
            } else { cases.push("e2e:server-start", "e2e start :: failed", "failed", ""); }
            if let Some(srv) = start_server() {
                let t0 = std::time::Instant::now();
                int_layouts(&srv, &http, &mut cases, &mut Rng::new(args.seed ^ 0x1a70_c17), if thorough { 120 } else { 10 }).await;
                if std::env::var("C17_TIMING").is_ok() { eprintln!("intlayouts {:?}", t0.elapsed()); }
                srv.handle.stop(false).await;
            } else { cases.push("e2e:server-start", "e2e start :: failed", "failed", ""); }
            let groups = if thorough { 12 } else { 3 };
            let per_group = if thorough { 50 } else { 10 };
            let mut sid = 0;
            for _ in 0..groups {
                // one database + server per group; every scenario has its own tables
                let Some(srv) = start_server() else { cases.push("e2e:server-start", "e2e start :: failed", "failed", ""); continue };
                let probe = Batch { table: "probe".into(), len: 1, cols: vec![("nxt".into(), ColRep::I64(vec![7]))] };
                let _ = post(&http, &format!("{}/insert_bin", srv.base), wire_bytes(&[probe]), false).await;
                for _ in 0..per_group {
                    let t0 = std::time::Instant::now();
                    scenario(&srv, &http, &mut cases, &mut r, sid, thorough).await;
                    if std::env::var("C17_TIMING").is_ok() { eprintln!("scenario {} {:?} http {} ms / {} reqs, embedded {} ms", sid, t0.elapsed(), T_HTTP.load(std::sync::atomic::Ordering::Relaxed) / 1000, N_HTTP.load(std::sync::atomic::Ordering::Relaxed), T_EMB.load(std::sync::atomic::Ordering::Relaxed) / 1000); }
                    sid += 1;
                }
                srv.handle.stop(false).await;
            }
            if let Some(srv) = start_server() {
                concurrent(&srv, &http, &mut cases, &mut r, if thorough { 30 } else { 6 }).await;
                srv.handle.stop(false).await;
            }
        });
        rt.shutdown_timeout(Duration::from_secs(5));
    }
    if want("status") { gen_unit_status(&mut cases); }
    if want("enc") { gen_unit_enc(&mut cases, &mut rng.fork(), thorough); }
    if want("json") { gen_unit_json(&mut cases, &mut rng.fork(), thorough); }
    cases.finish();
    // worker threads of stopped servers / databases may linger; leave without waiting for them
    std::process::exit(0);
}

#[allow(dead_code)]
fn unused(_: BTreeMap<String, String>) {}
