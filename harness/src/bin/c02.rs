//! C02: query results do not depend on physical layout.
//!
//! For every generated logical table (single-typed columns with NULLs; columns absent / all-NULL in some
//! row ranges) several databases are built that hold the SAME rows in different physical realisations
//! (batch split, flush subset, partition_combine_factor, mem_lz4, max_partition_size_bytes, batch_size,
//! threads, memory / disk / restarted-and-cold / on disk and evicted in the same process).  Every query of the supported fragment is run against every
//! realisation; one case = logical table + query + (actual partition split, observed compaction inputs,
//! canonical output) per realisation.  The Lean driver demands: every realisation agrees with the reference
//! evaluator on the logical table (hence with each other), and the combine model run on the actual split
//! predicts each output.
use std::sync::{Arc, Mutex};
use vharness::locustdb::{LocustDB, Options};
use vharness::qcommon::*;
use vharness::*;

const DEADLINE_S: u64 = 30;

#[derive(Clone, Copy, Debug, PartialEq)]
enum Mode { Mem, Disk, Cold, /// on disk, same process: `evict_cache()` before every query (flushed partitions, compacted or not, must be reloaded through the in-memory catalogue)
    Evict }

#[derive(Clone, Debug)]
struct Real { r: Realisation, mode: Mode, part_bytes: u64 }

impl Real {
    fn tag(&self) -> String { format!("{:?} pb{} pr{} {}", self.mode, self.part_bytes, self.r.pref, self.r.tag()) }
}

static OBS: Mutex<Vec<String>> = Mutex::new(Vec::new());

/// Compaction inputs of table `t` recorded by the `compact:input` sync point since the last call, in the
/// format of C07's classifier (`LM.C07M.classifyObs`): `<col>=<type>~<codec sig>/…;<col>=…`.
fn take_obs(tname: &str) -> (usize, String) {
    let labels: Vec<String> = {
        let mut all = OBS.lock().unwrap();
        let key = format!("compact:input:{}:", tname);
        let (mine, rest): (Vec<String>, Vec<String>) = std::mem::take(&mut *all).into_iter().partition(|l| l.starts_with(&key));
        *all = rest;
        mine
    };
    let mut per_col: std::collections::BTreeMap<String, Vec<String>> = Default::default();
    for l in labels {
        let parts: Vec<&str> = l.splitn(7, ':').collect(); // compact:input:<table>:<column>:<id>:<type>:<sig>
        if parts.len() < 7 { continue; }
        per_col.entry(parts[3].to_string()).or_default().push(format!("{}~{}", parts[5], parts[6].replace(' ', "")));
    }
    let k = per_col.values().map(|v| v.len()).max().unwrap_or(0);
    let tok = per_col.iter().map(|(c, v)| format!("{}={}", c, v.join("/"))).collect::<Vec<_>>().join(";");
    (k, tok)
}

struct Db {
    db: Option<Arc<LocustDB>>,
    _dir: Option<tempfile::TempDir>,
    /// lengths of the partitions the query will see, in row-range order (incl. frozen / open buffer)
    split: Vec<usize>,
    /// observed compactions (`|`-separated), `-` if none
    obs: String,
    /// `hang:<step>` / `panic:<step>` if the realisation could not be built
    fault: Option<String>,
}

fn options(real: &Real, dir: Option<&std::path::Path>) -> Options {
    let mut o = options_for(&real.r);
    if let Some(d) = dir { o.db_path = Some(d.to_path_buf()); o.max_partition_size_bytes = real.part_bytes; }
    o
}

fn build(t: &LTable, real: &Real, tname: &str) -> Db {
    let dir = if real.mode == Mode::Mem { None } else { Some(tempfile::tempdir().unwrap()) };
    let opts = options(real, dir.as_ref().map(|d| d.path()));
    let _ = take_obs(tname);
    let mut fault = None;
    let mut obs: Vec<String> = vec![];
    let o2 = opts.clone();
    let mut db = match with_deadline(DEADLINE_S, move || Arc::new(LocustDB::new(&o2))) {
        Some(Ok(db)) => Some(db),
        Some(Err(_)) => { fault = Some("panic:open".to_string()); None }
        None => { fault = Some("hang:open".to_string()); None }
    };
    let r = &real.r;
    let mut pref = r.pref;
    'outer: for b in 0..r.bounds.len() - 1 {
        let Some(dbr) = db.clone() else { break };
        let (s, e) = (r.bounds[b], r.bounds[b + 1]);
        if e > s {
            let mut cols = vec![];
            for (i, c) in t.cols.iter().enumerate() {
                let slice = &c[s..e];
                pref = pref.wrapping_mul(6364136223846793005).wrapping_add(1442695040888963407);
                if r.omit_null_cols && i > 0 && slice.iter().all(|x| *x == Cell::Null) { continue; }
                cols.push((t.names[i].clone(), ColRep::from_cells(slice, pref >> 33)));
            }
            let batch = Batch { table: tname.to_string(), len: (e - s) as u64, cols };
            let db2 = dbr.clone();
            match with_deadline(DEADLINE_S, move || ingest(&db2, &[batch])) {
                Some(Ok(())) => {}
                Some(Err(_)) => { fault = Some("panic:ingest".into()); break 'outer; }
                None => { fault = Some("hang:ingest".into()); break 'outer; }
            }
        }
        if r.flush[b] {
            let db2 = dbr.clone();
            let res = with_deadline(DEADLINE_S, move || db2.force_flush());
            let (k, tok) = take_obs(tname);
            if k > 0 { obs.push(tok); }
            match res {
                Some(Ok(())) => {}
                Some(Err(_)) => { fault = Some("panic:flush".into()); break 'outer; }
                None => { fault = Some("hang:flush".into()); break 'outer; }
            }
        }
    }
    if fault.is_none() && real.mode == Mode::Cold {
        // restart: drop the database, reopen the directory; every flushed column is now non-resident
        let old = db.take();
        let o2 = opts.clone();
        match with_deadline(DEADLINE_S, move || { drop(old); std::thread::sleep(std::time::Duration::from_millis(30)); Arc::new(LocustDB::new(&o2)) }) {
            Some(Ok(newdb)) => db = Some(newdb),
            Some(Err(_)) => fault = Some("panic:reopen".into()),
            None => fault = Some("hang:reopen".into()),
        }
        let (k, tok) = take_obs(tname);
        if k > 0 { obs.push(tok); }
    }
    let mut split = vec![];
    if fault.is_none() {
        if let Some(dbr) = &db {
            let inner = dbr.verif_inner().clone();
            let tn = tname.to_string();
            match with_deadline(DEADLINE_S, move || {
                let mut ranges: Vec<(usize, usize)> = inner.snapshot(&tn, None).unwrap_or_default().iter().map(|p| (p.range().start, p.range().len())).collect();
                ranges.sort();
                ranges.into_iter().map(|x| x.1).collect::<Vec<usize>>()
            }) {
                Some(Ok(s)) => split = s,
                Some(Err(_)) => fault = Some("panic:snapshot".into()),
                None => fault = Some("hang:snapshot".into()),
            }
        }
    }
    Db { db: if fault.is_none() { db } else { None }, _dir: dir, split, obs: if obs.is_empty() { "-".into() } else { obs.join("|") }, fault }
}

// ---------------------------------------------------------------------------------------------
// Queries of the supported fragment.
#[derive(Clone, Debug, PartialEq)]
enum Kind { Sel, Ord, Grp, Agg }

#[derive(Clone, Debug)]
enum Item { Expr(Ex), Key(usize), Agg(&'static str, usize) }

#[derive(Clone, Debug)]
struct Query { kind: Kind, items: Vec<Item>, pred: Option<Ex>, order: Vec<(usize, bool)>, limit: Option<u64>, offset: u64, feat: String }

impl Query {
    fn sql(&self, names: &[String], tname: &str) -> String {
        let items: Vec<String> = self.items.iter().map(|it| match it {
            Item::Expr(e) => e.sql(names),
            Item::Key(c) => names[*c].clone(),
            Item::Agg("count1", _) => "COUNT(1)".to_string(),
            Item::Agg(f, c) => format!("{}({})", f.to_uppercase(), names[*c]),
        }).collect();
        let mut s = format!("SELECT {} FROM {}", items.join(", "), tname);
        if let Some(p) = &self.pred { s.push_str(&format!(" WHERE {}", p.sql(names))); }
        if !self.order.is_empty() {
            s.push_str(" ORDER BY ");
            s.push_str(&self.order.iter().map(|(c, d)| format!("{}{}", names[*c], if *d { " DESC" } else { "" })).collect::<Vec<_>>().join(", "));
        }
        if let Some(l) = self.limit { s.push_str(&format!(" LIMIT {}", l)); }
        if self.offset > 0 { s.push_str(&format!(" OFFSET {}", self.offset)); }
        s
    }
    fn tok(&self) -> String {
        let kind = match self.kind { Kind::Sel => "sel", Kind::Ord => "ord", Kind::Grp => "grp", Kind::Agg => "agg" };
        let items: Vec<String> = self.items.iter().map(|it| match it {
            Item::Expr(e) => e.rpn(),
            Item::Key(c) => format!("k{}", c),
            Item::Agg(f, c) => format!("a{}:{}", f, c),
        }).collect();
        let order = if self.order.is_empty() { "-".to_string() } else { self.order.iter().map(|(c, d)| format!("{}:{}", c, if *d { "d" } else { "a" })).collect::<Vec<_>>().join(";") };
        format!("{} {} {} {} {} {}", kind, items.join(";"), self.pred.as_ref().map(|p| p.rpn()).unwrap_or("-".into()), order,
            self.limit.map(|l| l.to_string()).unwrap_or("-".into()), self.offset)
    }
}

fn is_int(t: &ColType) -> bool { matches!(t, ColType::Id | ColType::Int(_)) }

/// Constant positioned relative to the column's content, without the extreme constants that trip C03's open
/// `encode_int` overflow (DESIGN §8 #23): member, min-1, max+1, mid, small.
fn safe_const(rng: &mut Rng, t: &LTable, col: usize) -> Cell {
    let vals: Vec<&Cell> = t.cols[col].iter().filter(|c| **c != Cell::Null).collect();
    match &t.types[col] {
        ColType::Id | ColType::Int(_) => {
            let ints: Vec<i64> = vals.iter().map(|c| if let Cell::Int(i) = c { *i } else { 0 }).collect();
            let (lo, hi) = (ints.iter().min().copied().unwrap_or(0), ints.iter().max().copied().unwrap_or(0));
            let clampc = |x: i64| x.clamp(-(1i64 << 40), 1i64 << 40);
            match rng.below(5) {
                0 => Cell::Int(clampc(if ints.is_empty() { 0 } else { *rng.pick(&ints) })),
                1 => Cell::Int(clampc(lo.saturating_sub(1))),
                2 => Cell::Int(clampc(hi.saturating_add(1))),
                3 => Cell::Int(clampc(lo / 2 + hi / 2)),
                _ => Cell::Int(rng.range(-12, 12)),
            }
        }
        ColType::Float(_) => {
            let fl: Vec<f64> = vals.iter().map(|c| if let Cell::Float(b) = c { f64::from_bits(*b) } else { 0.0 }).filter(|f| f.is_finite()).collect();
            if !fl.is_empty() && rng.chance(1, 2) { Cell::f(*rng.pick(&fl)) } else { Cell::f(rng.range(-4000, 4000) as f64 * 0.25) }
        }
        ColType::Str(_) => {
            let ss: Vec<String> = vals.iter().map(|c| if let Cell::Str(s) = c { s.clone() } else { String::new() }).collect();
            if !ss.is_empty() && rng.chance(2, 3) { Cell::Str(rng.pick(&ss).clone()) } else { Cell::Str(rng.pick(STR_POOL).to_string()) }
        }
    }
}

/// WHERE clauses of the part of C03's fragment that has no open finding: a comparison of a column with a
/// constant (strings: = / <> only), IS [NOT] NULL, and AND / OR over operands that are never NULL
/// (comparisons on `id`, IS [NOT] NULL).  The full predicate language is C03's subject.
fn gen_safe_pred(rng: &mut Rng, t: &LTable) -> (Ex, String) {
    fn atom(rng: &mut Rng, t: &LTable, nonnull_only: bool) -> (Ex, String) {
        let ncols = t.cols.len();
        let col = if nonnull_only && rng.chance(1, 2) { 0 } else { rng.below(ncols as u64) as usize };
        let nullable = t.cols[col].iter().any(|c| *c == Cell::Null);
        if nonnull_only && nullable || rng.chance(1, 6) {
            return if rng.chance(1, 2) { (Ex::IsNull(Box::new(Ex::Col(col))), "isnull".into()) } else { (Ex::NotNull(Box::new(Ex::Col(col))), "notnull".into()) };
        }
        let k = safe_const(rng, t, col);
        let (op, tn) = match &t.types[col] {
            ColType::Str(_) => (*rng.pick(&["=", "<>"]), "s"),
            ColType::Float(_) => (*rng.pick(CMP_OPS), "f"),
            _ => (*rng.pick(CMP_OPS), "i"),
        };
        (Ex::Cmp(op, Box::new(Ex::Col(col)), Box::new(Ex::Lit(k))), format!("{}{}", tn, op))
    }
    match rng.below(5) {
        0 => { let (a, ca) = atom(rng, t, true); let (b, cb) = atom(rng, t, true); (Ex::And(Box::new(a), Box::new(b)), format!("and({},{})", ca, cb)) }
        1 => { let (a, ca) = atom(rng, t, true); let (b, cb) = atom(rng, t, true); (Ex::Or(Box::new(a), Box::new(b)), format!("or({},{})", ca, cb)) }
        _ => atom(rng, t, false),
    }
}

fn gen_query(rng: &mut Rng, t: &LTable, kind: Kind) -> Query {
    let n = t.n as u64;
    let ncols = t.cols.len();
    let int_cols: Vec<usize> = (0..ncols).filter(|i| is_int(&t.types[*i])).collect();
    let (pred, pfeat) = if rng.chance(1, 2) { let (p, c) = gen_safe_pred(rng, t); (Some(p), format!("w:{}", c)) } else { (None, "w-".to_string()) };
    match kind {
        Kind::Sel => {
            let mut items = vec![Item::Expr(Ex::Col(0))];
            let mut f = String::new();
            for _ in 0..rng.below(3) {
                if rng.chance(1, 3) && !int_cols.is_empty() {
                    let a = *rng.pick(&int_cols);
                    let rhs = if rng.chance(1, 2) { Ex::Col(*rng.pick(&int_cols)) } else { Ex::Lit(Cell::Int(*rng.pick(&[1i64, 2, -1, 3, 10, 0, 255, -7]))) };
                    let op = *rng.pick(&['+', '-', '*', '+', '-', '/', '%']);
                    items.push(Item::Expr(Ex::Arith(op, Box::new(Ex::Col(a)), Box::new(rhs))));
                    f.push(op);
                } else {
                    items.push(Item::Expr(Ex::Col(rng.below(ncols as u64) as usize)));
                }
            }
            if rng.chance(1, 4) { items.remove(0); if items.is_empty() { items.push(Item::Expr(Ex::Col(rng.below(ncols as u64) as usize))); } }
            let (limit, offset) = match rng.below(4) {
                0 => (None, 0),
                1 => (Some(rng.below(n + 3)), 0),
                // OFFSET beyond the result is C05's subject; here offset <= number of rows when there is no WHERE, else 0
                2 => (Some(1 + rng.below(n + 2)), if pred.is_none() { rng.below(n + 1) } else { 0 }),
                _ => (Some(*rng.pick(&[1u64, 2, 7, 8, 9, 100])), 0),
            };
            let lf = match (limit, offset) { (None, _) => "", (_, 0) => "+lim", _ => "+lim+off" };
            Query { kind, items, pred, order: vec![], limit, offset, feat: format!("{}{}{}", pfeat, if f.is_empty() { String::new() } else { format!("+arith{}", f) }, lf) }
        }
        Kind::Ord => {
            let nk = 1 + rng.below(3) as usize;
            let mut order = vec![];
            for _ in 0..nk { order.push((rng.below(ncols as u64) as usize, rng.chance(1, 3))); }
            let mut items = vec![Item::Expr(Ex::Col(0))];
            for (c, _) in &order { if rng.chance(2, 3) { items.push(Item::Expr(Ex::Col(*c))); } }
            if rng.chance(1, 3) { items.push(Item::Expr(Ex::Col(rng.below(ncols as u64) as usize))); }
            let (limit, offset) = match rng.below(5) {
                0 => (None, 0),
                1 => (Some(1 + rng.below(n + 2)), 0),
                2 => (Some(1 + rng.below(3)), 0),
                3 => (Some(1 + rng.below(n + 2)), if pred.is_none() { rng.below(n + 1) } else { 0 }),
                _ => (Some(1 + rng.below((n / 2).max(1))), 0),
            };
            let kt: String = order.iter().map(|(c, d)| format!("{}{}", match &t.types[*c] { ColType::Id => "I", ColType::Int(_) => "i", ColType::Float(_) => "f", ColType::Str(_) => "s" }, if *d { "v" } else { "^" })).collect();
            let lf = match (limit, offset) { (None, _) => "", (_, 0) => "+lim", _ => "+lim+off" };
            Query { kind, items, pred, order, limit, offset, feat: format!("{}+k{}{}", pfeat, kt, lf) }
        }
        Kind::Grp | Kind::Agg => {
            let mut items = vec![];
            let mut f = String::new();
            if kind == Kind::Grp {
                // group keys: integer and string columns (float keys with NULLs are outside the fragment: consistent FatalError)
                let cands: Vec<usize> = (0..ncols).filter(|i| !matches!(t.types[*i], ColType::Float(_))).collect();
                let nk = 1 + rng.below(2) as usize;
                for _ in 0..nk { let c = *rng.pick(&cands); items.push(Item::Key(c)); f.push(match &t.types[c] { ColType::Str(_) => 's', ColType::Id => 'I', _ => 'i' }); }
                f.push(':');
            }
            let na = 1 + rng.below(3) as usize;
            for _ in 0..na {
                let c = rng.below(ncols as u64) as usize;
                let fun: &'static str = match &t.types[c] {
                    ColType::Str(_) => *rng.pick(&["count1", "count"]),
                    // float SUM only over exactly summable data (dyadic, f32 eighths)
                    ColType::Float(cl) => if *cl == "edges" { *rng.pick(&["count", "min", "max"]) } else { *rng.pick(&["count", "sum", "min", "max"]) },
                    _ => *rng.pick(&["count1", "count", "sum", "sum", "min", "max"]),
                };
                items.push(Item::Agg(fun, if fun == "count1" { 0 } else { c }));
                f.push_str(&format!("{}{}", &fun[..2], match &t.types[c] { ColType::Float(_) => "F", ColType::Str(_) => "S", _ => "" }));
            }
            Query { kind, items, pred, order: vec![], limit: None, offset: 0, feat: format!("{}+{}", pfeat, f) }
        }
    }
}

// ---------------------------------------------------------------------------------------------
fn norm_float(c: &Cell) -> Cell {
    match c { Cell::Float(b) if *b == 0x8000_0000_0000_0000 => Cell::Float(0), other => other.clone() }
}

/// Canonical output of one realisation: ordered rows where the query defines the order (sel: table order,
/// ord: as returned), sorted rows (multiset) for grouped results; -0.0 shown as 0.0 in aggregate results.
fn canon(kind: &Kind, out: &QOut) -> String {
    match (kind, out) {
        (Kind::Grp, QOut::Ok { rows: Some(rows), .. }) | (Kind::Agg, QOut::Ok { rows: Some(rows), .. }) => {
            let mut rs: Vec<Vec<Cell>> = rows.iter().map(|r| r.iter().map(norm_float).collect()).collect();
            rs.sort();
            format!("rows:{}", rows_tok(&rs))
        }
        (_, o) => o.tok(),
    }
}

fn gen_real(rng: &mut Rng, n: usize, cuts: &[usize], idx: usize) -> Real {
    if idx == 0 {
        // reference layout: everything in the open buffer of a memory-only database
        return Real { r: Realisation { bounds: vec![0, n], flush: vec![false], omit_null_cols: false, combine_factor: 999, mem_lz4: false, batch_size: 1024, threads: 1, pref: rng.next() }, mode: Mode::Mem, part_bytes: 8 << 20 };
    }
    let mut r = gen_realisation(rng, n, true);
    match rng.below(6) {
        // batch boundaries at the table's cut points (where columns become absent)
        0 | 1 | 2 if !cuts.is_empty() => {
            let mut b: Vec<usize> = vec![0];
            for c in cuts { if rng.chance(3, 4) { b.push(*c); } }
            if rng.chance(1, 3) { b.push(rng.below(n as u64 + 1) as usize); }
            b.push(n); b.sort(); b.dedup();
            if b.len() < 2 { b = vec![0, n]; }
            if b[0] != 0 { b.insert(0, 0); }
            r.bounds = b;
        }
        // one batch per row (small tables) / many batches
        3 if n <= 12 => { r.bounds = (0..=n).collect(); }
        _ => {}
    }
    let nb = r.bounds.len() - 1;
    r.flush = match rng.below(4) { 0 => vec![true; nb], 1 => (0..nb).map(|i| i + 1 < nb).collect(), _ => (0..nb).map(|_| rng.chance(1, 2)).collect() };
    let mode = *rng.pick(&[Mode::Mem, Mode::Mem, Mode::Disk, Mode::Cold, Mode::Evict]);
    let part_bytes = *rng.pick(&[1u64, 64, 300, 8 << 20, 8 << 20]);
    // evicted layouts: mostly everything flushed, so that every row has to come back from a partition file
    if mode == Mode::Evict && rng.chance(2, 3) { r.flush = vec![true; nb]; }
    Real { r, mode, part_bytes }
}

/// Null out whole row ranges of some columns so that, for batch splits at `cuts`, the column is absent
/// (or present but all-NULL) in some partitions.
fn make_absent(rng: &mut Rng, t: &mut LTable, cuts: &[usize]) -> usize {
    let mut edges = vec![0usize]; edges.extend_from_slice(cuts); edges.push(t.n); edges.dedup();
    let mut made = 0;
    for c in 1..t.cols.len() {
        if !rng.chance(2, 5) || edges.len() < 3 { continue; }
        let seg = rng.below(edges.len() as u64 - 1) as usize;
        let (s, e) = (edges[seg], edges[seg + 1]);
        if e > s && e - s < t.n { for i in s..e { t.cols[c][i] = Cell::Null; } made += 1; }
    }
    made
}

type CaseRow = (String, String, String, String);

/// `vharness::query_full` plus the message of an error value (for the case note only).
fn query_msg(db: &Arc<LocustDB>, sql: &str) -> (QOut, String) {
    let db2 = db.clone();
    let sql2 = sql.to_string();
    match with_deadline(DEADLINE_S, move || futures::executor::block_on(db2.run_query(&sql2, false, true, vec![]))) {
        None => (QOut::Hang, String::new()),
        Some(Err(p)) => (QOut::Panic(p), String::new()),
        Some(Ok(Err(e))) => { let m = format!("{:?}", e); (QOut::Err(err_kind(&e).to_string()), m.chars().take(220).collect::<String>().replace(['\t', '\n'], " ")) }
        Some(Ok(Ok(o))) => (convert_output(&o), String::new()),
    }
}

/// Drop every resident column of every flushed partition (same process, catalogue untouched).
fn evict(db: &Arc<LocustDB>) -> usize {
    let db2 = db.clone();
    match with_deadline(DEADLINE_S, move || db2.evict_cache()) { Some(Ok(b)) => b, _ => 0 }
}

struct Job { prefix: String, t: LTable, reals: Vec<Real>, queries: Vec<Query> }

fn run_table(idx: usize, job: &Job) -> Vec<CaseRow> {
    let (t, reals, queries, class_prefix) = (&job.t, &job.reals, &job.queries, &job.prefix);
    let tname = format!("t{}", idx);
    let mut dbs: Vec<Db> = reals.iter().map(|r| build(t, r, &tname)).collect();
    let ttok = t.tok();
    let mut rows = vec![];
    for q in queries {
        let sql = q.sql(&t.names, &tname);
        let mut outs: Vec<String> = vec![];
        let mut parts = vec![];
        let mut details = vec![];
        let failed = |tok: &str| !tok.starts_with("rows:") && tok != "err:overflow" && !tok.starts_with("build-");
        for (i, real) in reals.iter().enumerate() {
            // the query fails on the reference layout and on a second one: it is outside the fragment whatever the
            // remaining layouts do (driver: SKIP all-layouts-fail); do not pay their deadlines
            if i >= 2 && failed(&outs[0]) && failed(&outs[1]) {
                parts.push(format!("{} {} {} skip", fmt_list(&dbs[i].split), real.r.batch_size, dbs[i].obs));
                outs.push("skip".to_string());
                continue;
            }
            if real.mode == Mode::Evict { if let (Some(db), None) = (&dbs[i].db, &dbs[i].fault) { let b = evict(db); details.push(format!("R{}: evicted {}B", i, b)); } }
            let (out, emsg) = match (&dbs[i].db, &dbs[i].fault) {
                (Some(db), None) => query_msg(db, &sql),
                (_, Some(f)) => (if f.starts_with("hang") { QOut::Hang } else { QOut::Panic(format!("build {}", f)) }, String::new()),
                _ => (QOut::Panic("no db".into()), String::new()),
            };
            // the machine is shared: a deadline can be missed under load; a hang counts only if it repeats on a fresh database
            let (out, emsg) = if matches!(out, QOut::Hang) && dbs[i].fault.is_none() {
                dbs[i] = build(t, real, &tname);
                match (&dbs[i].db, &dbs[i].fault) { (Some(db), None) => { if real.mode == Mode::Evict { evict(db); } query_msg(db, &sql) } _ => (out, emsg) }
            } else { (out, emsg) };
            if !emsg.is_empty() && !emsg.starts_with("Overflow") { details.push(format!("R{}: {}", i, emsg)); }
            let tok = if dbs[i].fault.is_some() { format!("build-{}", out.tok()) } else { canon(&q.kind, &out) };
            if !out.detail().is_empty() { details.push(format!("R{}: {}", i, out.detail().chars().take(160).collect::<String>())); }
            parts.push(format!("{} {} {} {}", fmt_list(&dbs[i].split), real.r.batch_size, dbs[i].obs, tok));
            // a worker that panicked is gone for good (C11): rebuild the realisation before the next query
            let poisoned = matches!(out, QOut::Panic(_) | QOut::Hang) || matches!(&out, QOut::Err(k) if k == "canceled");
            outs.push(tok);
            if poisoned && dbs[i].fault.is_none() { dbs[i] = build(t, real, &tname); }
        }
        let model_line = format!("lay {} {} {} {}", q.tok(), ttok, reals.len(), parts.join(" "));
        let kind = match q.kind { Kind::Sel => "sel", Kind::Ord => "ord", Kind::Grp => "grp", Kind::Agg => "agg" };
        let maxp = dbs.iter().map(|d| d.split.len()).max().unwrap_or(0);
        let mut lay: Vec<&str> = vec![];
        if reals.iter().any(|r| r.mode == Mode::Disk) { lay.push("disk"); }
        if reals.iter().any(|r| r.mode == Mode::Cold) { lay.push("cold"); }
        if reals.iter().enumerate().any(|(i, r)| r.mode == Mode::Evict && !dbs[i].split.is_empty()) { lay.push("evict"); }
        if dbs.iter().any(|d| d.obs != "-") { lay.push("compacted"); }
        // coverage class: query branch + coarse features + layout features (the fine feature string stays in the note)
        let w = if q.pred.is_some() { "w" } else { "-" };
        let lim = match (q.limit, q.offset) { (None, _) => "", (_, 0) => "+lim", _ => "+lim+off" };
        let coarse = match q.kind {
            Kind::Sel => format!("{}{}{}", w, if q.items.iter().any(|it| matches!(it, Item::Expr(Ex::Arith(..)))) { "+arith" } else { "" }, lim),
            Kind::Ord => format!("{}+k{}{}{}", w, q.order.len(), if q.order.iter().any(|o| o.1) { "+desc" } else { "" }, lim),
            Kind::Grp | Kind::Agg => {
                let nk = q.items.iter().filter(|it| matches!(it, Item::Key(_))).count();
                let strkey = q.items.iter().any(|it| matches!(it, Item::Key(c) if matches!(t.types[*c], ColType::Str(_))));
                let mut fns: Vec<&str> = q.items.iter().filter_map(|it| if let Item::Agg(f, _) = it { Some(*f) } else { None }).collect();
                fns.sort(); fns.dedup();
                format!("{}+g{}{}+{}", w, nk, if strkey { "s" } else { "" }, fns.join("/"))
            }
        };
        let class = format!("{}{}:{}|{}{}", class_prefix, kind, coarse, if maxp >= 2 { "multi" } else { "single" }, lay.iter().filter(|s| **s != "disk").map(|s| format!("+{}", s)).collect::<String>());
        let note = format!("{} | {} {} | {} | {}", sql.replace(&format!("FROM {}", tname), "FROM t"), t.type_tag(), q.feat, reals.iter().enumerate().map(|(i, r)| format!("R{}[{}]", i, r.tag())).collect::<Vec<_>>().join(" "), details.join(" ; "));
        rows.push((class, model_line, outs.join(" "), note));
    }
    rows
}

/// Run `f` over the jobs on `threads` worker threads (results in job order).  Most of the wall time of a
/// realisation is waiting (fsync, deadlines of hanging flushes), not CPU.
fn par_map<T: Send + Sync + 'static, R: Send + 'static, F: Fn(usize, &T) -> R + Send + Sync + 'static>(jobs: Vec<T>, threads: usize, f: F) -> Vec<R> {
    let jobs = Arc::new(jobs);
    let next = Arc::new(std::sync::atomic::AtomicUsize::new(0));
    let f = Arc::new(f);
    let results: Arc<Mutex<Vec<Option<R>>>> = Arc::new(Mutex::new((0..jobs.len()).map(|_| None).collect()));
    let mut hs = vec![];
    for _ in 0..threads {
        let (jobs, next, f, results) = (jobs.clone(), next.clone(), f.clone(), results.clone());
        hs.push(std::thread::spawn(move || loop {
            let i = next.fetch_add(1, std::sync::atomic::Ordering::SeqCst);
            if i >= jobs.len() { break; }
            let r = f(i, &jobs[i]);
            results.lock().unwrap()[i] = Some(r);
        }));
    }
    for h in hs { let _ = h.join(); }
    let mut guard = results.lock().unwrap();
    guard.drain(..).map(|r| r.expect("job finished")).collect()
}

fn ints(v: &[i64]) -> Vec<Cell> { v.iter().map(|x| Cell::Int(*x)).collect() }
fn oints(v: &[Option<i64>]) -> Vec<Cell> { v.iter().map(|x| x.map(Cell::Int).unwrap_or(Cell::Null)).collect() }
fn ostrs(v: &[Option<&str>]) -> Vec<Cell> { v.iter().map(|x| x.map(|s| Cell::Str(s.to_string())).unwrap_or(Cell::Null)).collect() }

fn fixed_real(bounds: Vec<usize>, flush: Vec<bool>, omit: bool, cf: u64, mode: Mode) -> Real {
    Real { r: Realisation { bounds, flush, omit_null_cols: omit, combine_factor: cf, mem_lz4: false, batch_size: 1024, threads: 2, pref: 0 }, mode, part_bytes: 8 << 20 }
}

fn table(cols: Vec<(&str, ColType, Vec<Cell>)>) -> LTable {
    let n = cols[0].2.len();
    LTable { n, names: cols.iter().map(|c| c.0.to_string()).collect(), types: cols.iter().map(|c| c.1.clone()).collect(), cols: cols.into_iter().map(|c| c.2).collect() }
}

fn q_agg(kind: Kind, items: Vec<Item>, feat: &str) -> Query { Query { kind, items, pred: None, order: vec![], limit: None, offset: 0, feat: feat.to_string() } }

/// Witnesses of the layout findings (open and repaired): they head every run so that a KNOWN-FINDING line is
/// printed deterministically and a repaired defect that comes back is reported again.
fn corpus(jobs: &mut Vec<Job>) {
    let one = |n: usize| fixed_real(vec![0, n], vec![false], false, 999, Mode::Mem);
    // groupby-null-key-order (C04/C02, open): NULL group first in the partition result but emitted as i64::MAX
    let t = table(vec![("id", ColType::Id, ints(&[1, 2, 4])), ("c1", ColType::Int("small"), oints(&[None, Some(5), Some(5)]))]);
    jobs.push(Job { prefix: "corpus:groupby-null-key-order/".into(), t, reals: vec![one(3), fixed_real(vec![0, 2, 3], vec![true, false], false, 999, Mode::Mem), fixed_real(vec![0, 1, 2, 3], vec![true, true, true], false, 999, Mode::Mem)], queries: vec![q_agg(Kind::Grp, vec![Item::Key(1), Item::Agg("count1", 0), Item::Agg("sum", 0)], "w-+i:cosu")] });
    // combine-groupkey-absent (C02, repaired): string / float group column absent in one partition
    let t = table(vec![("id", ColType::Id, ints(&[1, 2, 3, 4, 5])), ("c1", ColType::Str("pool"), ostrs(&[Some("b"), Some("a"), Some("c"), None, None])),
        ("c2", ColType::Float("dyadic"), vec![Cell::f(1.5), Cell::f(2.5), Cell::f(0.5), Cell::Null, Cell::Null])]);
    jobs.push(Job { prefix: "corpus:combine-groupkey-absent/".into(), t, reals: vec![one(5), fixed_real(vec![0, 3, 5], vec![true, false], true, 999, Mode::Mem), fixed_real(vec![0, 3, 5], vec![true, true], false, 999, Mode::Mem), fixed_real(vec![0, 1, 3, 5], vec![true, true, true], true, 999, Mode::Disk)], queries: vec![q_agg(Kind::Grp, vec![Item::Key(1), Item::Agg("count1", 0)], "w-+s:co"), q_agg(Kind::Grp, vec![Item::Key(1), Item::Key(0), Item::Agg("count1", 0)], "w-+sI:co")] });
    // agg-absent-column-float (C02, open): integer aggregate over a column absent in one partition comes back as a float
    let t = table(vec![("id", ColType::Id, ints(&[1, 2, 3, 4])), ("c1", ColType::Int("i64"), oints(&[None, None, None, Some(9007199254740993)]))]);
    jobs.push(Job { prefix: "corpus:agg-absent-column-float/".into(), t, reals: vec![one(4), fixed_real(vec![0, 3, 4], vec![true, false], true, 999, Mode::Mem), fixed_real(vec![0, 3, 4], vec![true, true], false, 999, Mode::Mem)], queries: vec![q_agg(Kind::Agg, vec![Item::Agg("sum", 1), Item::Agg("max", 1)], "w-+suma"), q_agg(Kind::Grp, vec![Item::Key(0), Item::Agg("sum", 1)], "w-+I:su")] });
    // combine-groupkey-absent, sort branch: a string column absent in one partition as the middle key of a 3-key ORDER BY
    let t = table(vec![("id", ColType::Id, ints(&[0, 1, 2])), ("c1", ColType::Int("small"), oints(&[None, None, None])), ("c2", ColType::Str("pool"), ostrs(&[None, Some("x"), None]))]);
    jobs.push(Job { prefix: "corpus:combine-groupkey-absent/".into(), t, reals: vec![one(3), fixed_real(vec![0, 1, 2, 3], vec![true, true, true], true, 999, Mode::Mem), fixed_real(vec![0, 1, 3], vec![true, false], true, 999, Mode::Mem)],
        queries: vec![Query { kind: Kind::Ord, items: vec![Item::Expr(Ex::Col(0)), Item::Expr(Ex::Col(2))], pred: None, order: vec![(1, true), (2, true), (1, true)], limit: Some(2), offset: 0, feat: "w-+kivsviv+lim".into() }] });
    // arith-absent-column (C02, repaired): + - % over a column that is absent from one partition was a TypeError
    let t = table(vec![("id", ColType::Id, ints(&[1, 2, 3])), ("c1", ColType::Int("small"), oints(&[Some(5), None, None]))]);
    jobs.push(Job { prefix: "corpus:arith-absent-column/".into(), t, reals: vec![one(3), fixed_real(vec![0, 1, 3], vec![true, false], true, 999, Mode::Mem), fixed_real(vec![0, 2, 3], vec![true, true], true, 999, Mode::Cold)],
        queries: ['+', '-', '%', '*', '/'].iter().map(|op| Query { kind: Kind::Sel, items: vec![Item::Expr(Ex::Col(0)), Item::Expr(Ex::Arith(*op, Box::new(Ex::Col(1)), Box::new(Ex::Lit(Cell::Int(2)))))], pred: None, order: vec![], limit: None, offset: 0, feat: format!("w-+arith{}", op) }).collect() });
    // groupby-valrows-streamed, repaired part (3cc8efd + b5a9fe3): two grouping columns, one a packed string column, partition longer than batch_size
    let strs: Vec<Cell> = (0..16).map(|i| Cell::Str(format!("k{}", i))).collect();
    let t = table(vec![("id", ColType::Id, ints(&(0..16).collect::<Vec<i64>>())), ("c1", ColType::Str("highcard"), strs)]);
    let bs = |b: usize, bounds: Vec<usize>, flush: Vec<bool>| { let mut r = fixed_real(bounds, flush, false, 999, Mode::Mem); r.r.batch_size = b; r };
    jobs.push(Job { prefix: "corpus:groupby-valrows-streamed/".into(), t, reals: vec![one(16), bs(8, vec![0, 16], vec![false]), bs(64, vec![0, 16], vec![true]), bs(8, vec![0, 4, 16], vec![true, false])],
        queries: vec![q_agg(Kind::Grp, vec![Item::Key(1), Item::Key(1), Item::Agg("count1", 0), Item::Agg("count", 1), Item::Agg("min", 0)], "w-+ss:cocomi")] });
    // buffer-stream-nullable (C02, repaired): nullable ORDER BY key behind a WHERE filter, partition longer than batch_size
    let t = table(vec![("id", ColType::Id, ints(&(0..24).collect::<Vec<i64>>())),
        ("c1", ColType::Int("i64"), (0..24).map(|i| if i % 5 == 1 || i % 7 == 3 { Cell::Null } else { Cell::Int(1000 - 37 * i) }).collect()),
        ("c2", ColType::Int("u16"), (0..24).map(|i| Cell::Int(if i % 3 == 0 { 5 } else { 100 + i })).collect())]);
    jobs.push(Job { prefix: "corpus:buffer-stream-nullable/".into(), t, reals: vec![one(24), bs(8, vec![0, 24], vec![false]), bs(8, vec![0, 17, 24], vec![true, false]), bs(16, vec![0, 24], vec![true])],
        queries: vec![Query { kind: Kind::Ord, items: vec![Item::Expr(Ex::Col(0)), Item::Expr(Ex::Col(1)), Item::Expr(Ex::Col(2))], pred: Some(Ex::Cmp(">", Box::new(Ex::Col(2)), Box::new(Ex::Lit(Cell::Int(83))))), order: vec![(1, true), (2, false)], limit: Some(12), offset: 0, feat: "w:i>+kivi^+lim".into() },
            Query { kind: Kind::Sel, items: vec![Item::Expr(Ex::Col(0)), Item::Expr(Ex::Col(1))], pred: Some(Ex::Cmp(">", Box::new(Ex::Col(2)), Box::new(Ex::Lit(Cell::Int(83))))), order: vec![], limit: None, offset: 0, feat: "w:i>".into() }] });
    // null-typed-partition (C02): sentinel NULL vs Val::Null do not tie in a multi-key ORDER BY; WHERE that is NULL for a whole partition
    let t = table(vec![("id", ColType::Id, ints(&[0, 1, 2])), ("c3", ColType::Str("lowcard"), ostrs(&[None, Some("%"), None])), ("c4", ColType::Int("mono"), oints(&[Some(478), None, None]))]);
    jobs.push(Job { prefix: "corpus:null-typed-partition/".into(), t, reals: vec![one(3), fixed_real(vec![0, 2, 3], vec![true, false], false, 999, Mode::Mem), fixed_real(vec![0, 2, 3], vec![true, true], false, 999, Mode::Mem), fixed_real(vec![0, 1, 3], vec![true, true], true, 999, Mode::Mem)],
        queries: vec![Query { kind: Kind::Ord, items: vec![Item::Expr(Ex::Col(0)), Item::Expr(Ex::Col(2)), Item::Expr(Ex::Col(1))], pred: None, order: vec![(2, true), (1, false)], limit: Some(4), offset: 0, feat: "w-+kivs^+lim".into() },
            Query { kind: Kind::Ord, items: vec![Item::Expr(Ex::Col(0))], pred: Some(Ex::Cmp("=", Box::new(Ex::Col(1)), Box::new(Ex::Lit(Cell::Str("ab".into()))))), order: vec![(2, false), (1, false), (2, false)], limit: None, offset: 0, feat: "w:s=+ki^s^i^".into() }] });
    // where-null-partition-empty (C02/C03, open): WHERE constant for a whole partition + nullable selected column
    let t = table(vec![("id", ColType::Id, ints(&[0, 1, 2, 3])), ("c1", ColType::Int("small"), oints(&[Some(3), None, Some(-1), None])), ("c2", ColType::Int("u8"), oints(&[Some(7), None, Some(9), Some(200)]))]);
    jobs.push(Job { prefix: "corpus:where-null-partition-empty/".into(), t, reals: vec![one(4), fixed_real(vec![0, 1, 2, 3, 4], vec![true, true, true, true], false, 999, Mode::Mem), fixed_real(vec![0, 3, 4], vec![true, true], false, 999, Mode::Mem)],
        queries: vec![Query { kind: Kind::Sel, items: vec![Item::Expr(Ex::Col(0)), Item::Expr(Ex::Col(1)), Item::Expr(Ex::Col(2))], pred: Some(Ex::Cmp(">=", Box::new(Ex::Col(1)), Box::new(Ex::Lit(Cell::Int(-3))))), order: vec![], limit: Some(2), offset: 0, feat: "w:i>=+lim".into() }] });
    // where-null-partition-empty, reference answer Overflow (thorough seed 2001): global aggregate, SUM(c1) of the rows that pass the
    // WHERE overflows (reference layout and [1,3]: Overflow); split [1,1,2]: no partition overflows alone, but the last one has c2 NULL
    // throughout (WHERE constant) and stores c1 nullable -> planning fails there, FatalError `empty not supported for type Nullable…`
    let t = table(vec![("id", ColType::Id, ints(&[0, 1, 2, 3])), ("c1", ColType::Int("edges"), oints(&[Some(i64::MAX - 1), Some(5), None, Some(3)])), ("c2", ColType::Int("u8"), oints(&[Some(7), Some(9), None, None]))]);
    jobs.push(Job { prefix: "corpus:where-null-partition-empty/".into(), t, reals: vec![one(4), fixed_real(vec![0, 1, 2, 4], vec![true, true, true], false, 999, Mode::Mem), fixed_real(vec![0, 1, 4], vec![true, true], false, 999, Mode::Mem)],
        queries: vec![Query { kind: Kind::Agg, items: vec![Item::Agg("sum", 1), Item::Agg("count", 0)], pred: Some(Ex::Cmp(">", Box::new(Ex::Col(2)), Box::new(Ex::Lit(Cell::Int(0))))), order: vec![], limit: None, offset: 0, feat: "w:i>+sucoI".into() }] });
    // minmax-float-infinity (C04/C02, open): MIN of a group {+inf} is f64::MAX in every layout
    let t = table(vec![("id", ColType::Id, ints(&[1, 2])), ("c1", ColType::Float("edges"), vec![Cell::f(f64::INFINITY), Cell::f(1.5)])]);
    jobs.push(Job { prefix: "corpus:minmax-float-infinity/".into(), t, reals: vec![one(2), fixed_real(vec![0, 1, 2], vec![true, false], false, 999, Mode::Mem), fixed_real(vec![0, 2], vec![true], false, 999, Mode::Disk)],
        queries: vec![q_agg(Kind::Grp, vec![Item::Key(0), Item::Agg("min", 1), Item::Agg("max", 1)], "w-+I:miFmaF")] });
    // topn-nullable-fused (C05, repaired 082c667): nullable narrow key on the top-n path used to panic the worker
    let t = table(vec![("id", ColType::Id, ints(&(0..8).collect::<Vec<i64>>())), ("c1", ColType::Int("u8"), oints(&[Some(1), None, Some(30), None, None, Some(7), None, None]))]);
    jobs.push(Job { prefix: "corpus:topn-nullable-fused/".into(), t, reals: vec![one(8), fixed_real(vec![0, 3, 8], vec![true, false], false, 999, Mode::Mem), fixed_real(vec![0, 8], vec![true], false, 999, Mode::Disk)],
        queries: vec![Query { kind: Kind::Ord, items: vec![Item::Expr(Ex::Col(0)), Item::Expr(Ex::Col(1))], pred: None, order: vec![(1, false)], limit: Some(3), offset: 0, feat: "w-+ki^+lim".into() }] });
    // topn-desc-nullable-string (C05/C02, open): DESC top-n over a nullable string key keeps the smallest strings
    let t = table(vec![("id", ColType::Id, ints(&(0..9).collect::<Vec<i64>>())), ("c1", ColType::Str("lowcard"), ostrs(&[Some("a"), Some("a"), Some("x"), Some("x"), Some("x"), Some("x"), Some("a"), None, None]))]);
    jobs.push(Job { prefix: "corpus:topn-desc-nullable-string/".into(), t, reals: vec![one(9), fixed_real(vec![0, 5, 7, 9], vec![true, false, true], false, 999, Mode::Mem), fixed_real(vec![0, 9], vec![true], false, 999, Mode::Cold)],
        queries: vec![Query { kind: Kind::Ord, items: vec![Item::Expr(Ex::Col(0))], pred: None, order: vec![(1, true)], limit: Some(3), offset: 0, feat: "w-+ksv+lim".into() }] });
    // null-column-nullable-filter-count (C02/C03, open): Null-typed selected column under a nullable WHERE
    let t = table(vec![("id", ColType::Id, ints(&[0, 1, 2, 3])), ("c1", ColType::Int("small"), oints(&[None, None, None, Some(1)])), ("c2", ColType::Float("dyadic"), vec![Cell::Null, Cell::Null, Cell::f(2.5), Cell::f(3.5)])]);
    jobs.push(Job { prefix: "corpus:null-column-nullable-filter-count/".into(), t, reals: vec![one(4), fixed_real(vec![0, 3, 4], vec![true, false], false, 999, Mode::Mem), fixed_real(vec![0, 3, 4], vec![true, true], true, 999, Mode::Mem)],
        queries: vec![Query { kind: Kind::Sel, items: vec![Item::Expr(Ex::Col(1)), Item::Expr(Ex::Arith('-', Box::new(Ex::Col(1)), Box::new(Ex::Col(0))))], pred: Some(Ex::Cmp("<>", Box::new(Ex::Col(2)), Box::new(Ex::Lit(Cell::f(49.5))))), order: vec![], limit: None, offset: 0, feat: "w:f<>+arith-".into() }] });
    // null-column-nullable-filter-count, minimal shapes (repaired d5b38db): c2 all NULL, WHERE over the nullable c1
    let t = table(vec![("id", ColType::Id, ints(&[1, 2])), ("c1", ColType::Int("small"), oints(&[Some(5), None])), ("c2", ColType::Int("small"), oints(&[None, None]))]);
    let wh = || Some(Ex::Cmp(">=", Box::new(Ex::Col(1)), Box::new(Ex::Lit(Cell::Int(0)))));
    jobs.push(Job { prefix: "corpus:null-column-nullable-filter-count/".into(), t, reals: vec![one(2), fixed_real(vec![0, 2], vec![true], false, 999, Mode::Mem), fixed_real(vec![0, 1, 2], vec![true, true], false, 999, Mode::Cold)],
        queries: vec![
            Query { kind: Kind::Ord, items: vec![Item::Expr(Ex::Col(0))], pred: wh(), order: vec![(0, false), (2, false)], limit: None, offset: 0, feat: "w:i>=+kI^i^".into() },
            Query { kind: Kind::Ord, items: vec![Item::Expr(Ex::Col(0))], pred: wh(), order: vec![(2, false)], limit: None, offset: 0, feat: "w:i>=+ki^".into() },
            Query { kind: Kind::Sel, items: vec![Item::Expr(Ex::Col(0)), Item::Expr(Ex::Col(2))], pred: wh(), order: vec![], limit: None, offset: 0, feat: "w:i>=".into() },
            Query { kind: Kind::Sel, items: vec![Item::Expr(Ex::Col(2))], pred: wh(), order: vec![], limit: Some(1), offset: 0, feat: "w:i>=+lim".into() }] });
    // executor-pinned-buffer (C04/C11/C02, repaired 186ef0c): a grouping column that is also a MAX input, stored offset-coded, used to panic the worker
    let t = table(vec![("id", ColType::Id, ints(&[0, 1, 2])), ("c1", ColType::Int("u8off"), ints(&[1000000000000, 1000000000007, 1000000000005]))]);
    jobs.push(Job { prefix: "corpus:executor-pinned-buffer/".into(), t, reals: vec![one(3), fixed_real(vec![0, 3], vec![true], false, 999, Mode::Mem), fixed_real(vec![0, 1, 3], vec![true, false], false, 999, Mode::Mem)],
        queries: vec![q_agg(Kind::Grp, vec![Item::Key(1), Item::Agg("max", 1)], "w-+i:ma")] });
    // groupby-valrows-streamed, value-row part (repaired 3044fa3): two keys through value rows (one beyond -2^62), partition of 20 rows
    // longer than batch_size 8: integer keys unpacked from the value rows are NULL after the first chunk (ValToNullableInt, block output)
    let base: i64 = -9223372034272233317;
    let t = table(vec![("id", ColType::Id, ints(&(0..20).collect::<Vec<i64>>())),
        ("c1", ColType::Int("u32off"), (0..20).map(|i| if i == 7 || i == 14 { Cell::Null } else { Cell::Int(base + i * 1000003) }).collect()),
        ("c2", ColType::Int("const"), (0..20).map(|i| if i == 0 || i == 7 || i == 15 { Cell::Null } else { Cell::Int(1) }).collect())]);
    jobs.push(Job { prefix: "corpus:groupby-valrows-streamed/".into(), t, reals: vec![one(20), bs(8, vec![0, 20], vec![true]), bs(8, vec![0, 20], vec![false]), bs(16, vec![0, 20], vec![true])],
        queries: vec![q_agg(Kind::Grp, vec![Item::Key(2), Item::Key(1), Item::Agg("max", 0)], "w-+ii:ma")] });
    // stream-cross-stage (C02, repaired 3cc8efd): a streaming consumer kept out of its producer's stage read only the last chunk;
    // two bit-packed grouping keys under a WHERE filter, partition (9 rows) longer than batch_size 8 -> select.rs:18 index out of bounds
    let t = table(vec![("id", ColType::Id, ints(&(0..9).collect::<Vec<i64>>())), ("c1", ColType::Int("u32"), oints(&[None, None, None, None, Some(2524280149), None, Some(2960532428), None, Some(3657551397)]))]);
    jobs.push(Job { prefix: "corpus:stream-cross-stage/".into(), t, reals: vec![one(9), bs(8, vec![0, 9], vec![false]), bs(8, vec![0, 9], vec![true]), bs(8, vec![0, 2, 9], vec![true, false]), bs(16, vec![0, 9], vec![true])],
        queries: vec![Query { kind: Kind::Grp, items: vec![Item::Key(1), Item::Key(1), Item::Agg("max", 0), Item::Agg("count", 0)], pred: Some(Ex::Cmp(">", Box::new(Ex::Col(0)), Box::new(Ex::Lit(Cell::Int(-9))))), order: vec![], limit: None, offset: 0, feat: "w:i>+ii:maco".into() }] });
    // sum-sentinel (C04/C06/C02, open): a partial SUM equal to i64::MAX is taken for NULL when merged
    let t = table(vec![("id", ColType::Id, ints(&[1, 2, 3])), ("c1", ColType::Int("edges"), ints(&[i64::MAX - 2, 1, 1]))]);
    jobs.push(Job { prefix: "corpus:sum-sentinel/".into(), t, reals: vec![one(3), fixed_real(vec![0, 2, 3], vec![true, false], false, 999, Mode::Mem), fixed_real(vec![0, 1, 3], vec![true, false], false, 999, Mode::Mem)], queries: vec![q_agg(Kind::Agg, vec![Item::Agg("sum", 1)], "w-+su")] });
    // sum-overflow-order (C02, open): whether an intermediate sum overflows depends on where the partition boundaries are
    let t = table(vec![("id", ColType::Id, ints(&[1, 2, 3])), ("c1", ColType::Int("edges"), ints(&[i64::MAX - 1, 5, -10]))]);
    jobs.push(Job { prefix: "corpus:sum-overflow-order/".into(), t, reals: vec![one(3), fixed_real(vec![0, 1, 3], vec![true, false], false, 999, Mode::Mem), fixed_real(vec![0, 2, 3], vec![true, false], false, 999, Mode::Mem)], queries: vec![q_agg(Kind::Agg, vec![Item::Agg("sum", 1)], "w-+su")] });
}

/// Fixed realisation pairs that the random generator reaches rarely or never (they head every run like the corpus):
/// * `pair:evict-same-process/`  built on disk, flushed WITH (combine factor 0 / 1) and WITHOUT (999) compaction, `evict_cache()`,
///   queried in the same process — against memory, warm disk and restarted-and-cold layouts of the same rows;
/// * `pair:big-partition/`       float columns of > 1024 rows whose encoding-deciding property (f32-exact, integer-valued, finite,
///   magnitude) changes late: ONE big partition (open buffer / flushed / compacted / evicted) vs several small partitions.
fn layout_pairs(jobs: &mut Vec<Job>, rng: &mut Rng) {
    let one = |n: usize| fixed_real(vec![0, n], vec![false], false, 999, Mode::Mem);
    let col = |c: usize| Item::Expr(Ex::Col(c));
    let cmp = |op: &'static str, c: usize, k: Cell| Some(Ex::Cmp(op, Box::new(Ex::Col(c)), Box::new(Ex::Lit(k))));
    // --- evicted in the same process
    for (n, seedcols) in [(40usize, 3usize), (9, 2)] {
        let t = gen_table(rng, n, seedcols, true, true);
        let (a, b) = (n / 3, 2 * n / 3);
        let mut reals = vec![one(n)];
        for (cf, bounds) in [(1u64, vec![0, a, n]), (0, vec![0, a, b, n]), (999, vec![0, a, b, n]), (999, vec![0, n]), (4, vec![0, a, b, n])] {
            let nb = bounds.len() - 1;
            reals.push(fixed_real(bounds, vec![true; nb], false, cf, Mode::Evict));
        }
        reals.push(fixed_real(vec![0, a, n], vec![true, true], false, 1, Mode::Cold));
        reals.push(fixed_real(vec![0, a, n], vec![true, true], false, 1, Mode::Disk));
        // small sub-partition files: several files per partition, the catalogue has to find the right one for every column
        let mut r = fixed_real(vec![0, a, n], vec![true, true], false, 1, Mode::Evict); r.part_bytes = 64; reals.push(r);
        let mut r = fixed_real(vec![0, b, n], vec![true, true], true, 999, Mode::Evict); r.part_bytes = 1; reals.push(r);
        let mut queries = vec![Query { kind: Kind::Sel, items: (0..t.cols.len()).map(col).collect(), pred: None, order: vec![], limit: None, offset: 0, feat: "w-".into() }];
        for kind in [Kind::Sel, Kind::Ord, Kind::Grp, Kind::Agg] { for _ in 0..2 { queries.push(gen_query(rng, &t, kind.clone())); } }
        jobs.push(Job { prefix: "pair:evict-same-process/".into(), t, reals, queries });
    }
    // --- one big partition vs several small ones, float columns whose deciding property flips late
    for (n, pos, tail) in [(1500usize, 1200usize, true), (1500, 1024, false), (3000, 2999, false), (1100, 1025, true)] {
        let base: Vec<f64> = (0..n).map(|_| (rng.range(-8_000_000, 8_000_000) as f32 * 0.125) as f64).collect();
        let fl = |i: usize| if tail { i >= pos } else { i == pos };
        // c1: f32-exact -> not; c2: integer-valued -> fractional and beyond the f32 range; c3: finite -> NaN payload / subnormal in f32, with NULLs
        let c1: Vec<Cell> = (0..n).map(|i| Cell::f(if fl(i) { base[i].trunc() + 0.1 } else { base[i] })).collect();
        let c2: Vec<Cell> = (0..n).map(|i| Cell::f(if fl(i) { if i % 2 == 0 { i as f64 + 0.3 } else { 1e300 + i as f64 * 1e290 } } else { (i * 3) as f64 })).collect();
        let c3: Vec<Cell> = (0..n).map(|i| if i % 13 == 5 && !fl(i) { Cell::Null } else { Cell::f(if fl(i) { if i % 2 == 0 { f64::from_bits(0xfff8_0000_0000_0001 + i as u64) } else { 1e-40 * (1 + i % 7) as f64 } } else { i as f64 + 0.5 }) }).collect();
        let t = table(vec![("id", ColType::Id, ints(&(0..n as i64).collect::<Vec<i64>>())), ("c1", ColType::Float("late-f32"), c1.clone()), ("c2", ColType::Float("late-int"), c2), ("c3", ColType::Float("late-nan"), c3)]);
        let third = n / 3;
        let small: Vec<usize> = (0..=n).step_by(500).chain(std::iter::once(n)).collect::<std::collections::BTreeSet<usize>>().into_iter().collect();
        let nsmall = small.len() - 1;
        let reals = vec![
            one(n),                                                                                    // one big open buffer
            fixed_real(small.clone(), vec![true; nsmall], false, 999, Mode::Mem),                      // small partitions (<= 500 rows)
            fixed_real(vec![0, n], vec![true], false, 999, Mode::Mem),                                 // one big flushed partition
            fixed_real(small.clone(), vec![true; nsmall], false, 0, Mode::Disk),                       // small partitions compacted into a big one
            fixed_real(vec![0, third, n], vec![false, true], false, 999, Mode::Evict),                 // two batches, one big partition, evicted
            fixed_real(vec![0, 60, n], vec![true, true], false, 999, Mode::Cold),                      // small + big partition, cold
        ];
        let lo = pos.saturating_sub(4) as i64;
        let member = c1[pos].clone();
        let queries = vec![
            Query { kind: Kind::Sel, items: vec![col(0), col(1), col(2), col(3)], pred: cmp(">=", 0, Cell::Int(lo)), order: vec![], limit: Some(12), offset: 0, feat: "w:i>=+lim".into() },
            Query { kind: Kind::Sel, items: vec![col(0), col(1)], pred: cmp("=", 1, member), order: vec![], limit: None, offset: 0, feat: "w:f=".into() },
            Query { kind: Kind::Sel, items: vec![col(3), col(2)], pred: cmp(">", 0, Cell::Int(n as i64 - 9)), order: vec![], limit: None, offset: 0, feat: "w:i>".into() },
            Query { kind: Kind::Ord, items: vec![col(0), col(2)], pred: cmp(">=", 0, Cell::Int(lo - 20)), order: vec![(2, true)], limit: Some(6), offset: 0, feat: "w:i>=+kfv+lim".into() },
            Query { kind: Kind::Agg, items: vec![Item::Agg("min", 1), Item::Agg("max", 1), Item::Agg("max", 2), Item::Agg("count", 3)], pred: cmp(">=", 0, Cell::Int(lo - 20)), order: vec![], limit: None, offset: 0, feat: "w:i>=+miFmaFmaFcoF".into() },
        ];
        jobs.push(Job { prefix: "pair:big-partition/".into(), t, reals, queries });
    }
}

fn parse_cell_tok(c: &str) -> Cell {
    if c == "_" { Cell::Null }
    else if let Some(i) = c.strip_prefix('i') { Cell::Int(i.parse().unwrap()) }
    else if let Some(f) = c.strip_prefix('f') { Cell::Float(u64::from_str_radix(f, 16).unwrap()) }
    else if let Some(x) = c.strip_prefix('x') { Cell::Str(String::from_utf8(hex::decode(x).unwrap()).unwrap()) }
    else { panic!("cell {}", c) }
}

/// `c02 --replay <file>`: the file is a replay written by `check` (JSON with "model_line" and "note") or two lines
/// `<model line>` / `<note>`.  Rebuilds every realisation named in the note, runs the SQL of the note and prints
/// the outputs (and the query plans of the last realisation).
fn replay(path: &std::path::Path, out_dir: Option<&std::path::Path>) {
    let txt = std::fs::read_to_string(path).unwrap();
    let (line, note) = if txt.trim_start().starts_with('{') {
        let j: serde_json::Value = serde_json::from_str(&txt).unwrap();
        let f = if j.get("first").is_some() { j["first"].clone() } else { j.clone() };
        (f["model_line"].as_str().unwrap().to_string(), f["note"].as_str().unwrap().to_string())
    } else { let mut it = txt.lines(); (it.next().unwrap().to_string(), it.next().unwrap().to_string()) };
    let toks: Vec<&str> = line.split(' ').collect();
    let ncols: usize = toks[7].parse().unwrap();
    let cols: Vec<Vec<Cell>> = toks[8..8 + ncols].iter().map(|t| if *t == "[]" { vec![] } else { t.split(',').map(parse_cell_tok).collect() }).collect();
    let n = cols[0].len();
    let names: Vec<String> = (0..ncols).map(|i| if i == 0 { "id".to_string() } else { format!("c{}", i) }).collect();
    let t = LTable { n, names, types: vec![ColType::Id; ncols], cols };
    let sql = note.split(" | ").next().unwrap().to_string();
    println!("SQL {}", sql);
    let kind = match toks[1] { "sel" => Kind::Sel, "ord" => Kind::Ord, "grp" => Kind::Grp, _ => Kind::Agg };
    let (mut parts, mut outs, mut tags): (Vec<String>, Vec<String>, Vec<String>) = (vec![], vec![], vec![]);
    for seg in note.split("] R").map(|s| s.to_string()) {
        let Some(p) = seg.find('[') else { continue };
        let body = &seg[p + 1..];
        let f: Vec<&str> = body.split(' ').collect();
        if f.len() < 3 || !(f[0] == "Mem" || f[0] == "Disk" || f[0] == "Cold" || f[0] == "Evict") { continue; }
        let mode = match f[0] { "Mem" => Mode::Mem, "Disk" => Mode::Disk, "Evict" => Mode::Evict, _ => Mode::Cold };
        let grab = |key: &str| -> String { let i = body.find(key).unwrap() + key.len(); body[i..].chars().take_while(|c| *c != ' ' && *c != ']').collect() };
        let list = |key: &str| -> Vec<usize> { let i = body.find(key).unwrap() + key.len(); let e = body[i..].find(']').unwrap(); body[i..i + e].split(',').filter(|x| !x.trim().is_empty()).map(|x| x.trim().parse().unwrap()).collect() };
        let r = Realisation { bounds: list(" b["), flush: list(" f[").into_iter().map(|x| x == 1).collect(), omit_null_cols: grab(" om") == "1",
            combine_factor: grab(" cf").parse().unwrap(), mem_lz4: grab(" lz") == "1", batch_size: grab(" bs").parse().unwrap(), threads: grab(" th").parse().unwrap(), pref: if body.contains(" pr") { grab(" pr").parse().unwrap() } else { 0 } };
        let real = Real { r, mode, part_bytes: grab(" pb").parse().unwrap() };
        let db = build(&t, &real, "t");
        print!("{} split={:?} obs={} => ", real.tag(), db.split, db.obs);
        let tok = match (&db.db, &db.fault) {
            (Some(d), None) => {
                if mode == Mode::Evict { evict(d); }
                let d2 = d.clone(); let s2 = sql.clone();
                let qout = match with_deadline(DEADLINE_S, move || futures::executor::block_on(d2.run_query(&s2, true, true, vec![]))) {
                    None => { println!("hang"); QOut::Hang }
                    Some(Err(p)) => { println!("panic {}", p); QOut::Panic(p) }
                    Some(Ok(Err(e))) => { println!("ERR {}", format!("{:?}", e).chars().take(300).collect::<String>()); QOut::Err(err_kind(&e).to_string()) }
                    Some(Ok(Ok(o))) => { let c = convert_output(&o); println!("{}", c.tok()); if std::env::var("C02_PLANS").is_ok() { for (p, n) in o.query_plans { println!("{} x {}", n, p); } } c }
                };
                canon(&kind, &qout)
            }
            (_, f) => { println!("build fault {:?}", f); format!("build-{}", QOut::Panic(format!("build {:?}", f)).tok()) }
        };
        parts.push(format!("{} {} {} {}", fmt_list(&db.split), real.r.batch_size, db.obs, tok));
        tags.push(format!("R{}[{}]", tags.len(), real.tag()));
        outs.push(tok);
    }
    // under `check --replay` (an --out directory is given): the re-measured case goes through the driver like any other case, so
    // the verdict (OK / KNOWN-FINDING <id> / VIOLATION) is that of the current tree, not that of the run that wrote the replay
    if let Some(dir) = out_dir {
        let mut cases = Cases::create(dir);
        let model_line = format!("{} {} {}", toks[..8 + ncols].join(" "), parts.len(), parts.join(" "));
        let head: Vec<&str> = note.split(" | ").take(2).collect();
        cases.push("replay", &model_line, &outs.join(" "), &format!("{} | {} | replayed from {}", head.join(" | "), tags.join(" "), path.display()));
        cases.finish();
    }
}

fn main() {
    let args = parse_args();
    if let Some(p) = &args.replay {
        vharness::locustdb::verif::set_sync_callback(Some(Box::new(|label: &str| {
            if label.starts_with("compact:input:") { OBS.lock().unwrap().push(label.to_string()); }
        })));
        replay(p, if args.out == std::path::PathBuf::from(".") { None } else { Some(args.out.as_path()) });
        return;
    }
    quiet_panics();
    vharness::locustdb::verif::set_sync_callback(Some(Box::new(|label: &str| {
        if label.starts_with("compact:input:") { OBS.lock().unwrap().push(label.to_string()); }
    })));
    let mut rng = Rng::new(args.seed);
    let mut jobs: Vec<Job> = vec![];
    corpus(&mut jobs);
    layout_pairs(&mut jobs, &mut Rng::new(args.seed ^ 0x9a12_5eed));
    let (tables, nreal, per_kind, budget_s, threads) = if args.thorough() { (500, 6, 4, 420u64, 12) } else { (90, 4, 2, 70u64, 12) };
    for _ in 0..tables {
        let n = *rng.pick(&[1usize, 2, 3, 5, 8, 9, 16, 17, 33, 70]);
        let extra = 2 + rng.below(3) as usize;
        let mut t = gen_table(&mut rng, n, extra, true, true);
        let mut cuts: Vec<usize> = (0..rng.below(4)).map(|_| rng.below(n as u64 + 1) as usize).filter(|c| *c > 0 && *c < n).collect();
        cuts.sort(); cuts.dedup();
        let absent = make_absent(&mut rng, &mut t, &cuts);
        let reals: Vec<Real> = (0..nreal).map(|i| gen_real(&mut rng, n, &cuts, i)).collect();
        let mut queries = vec![];
        for kind in [Kind::Sel, Kind::Ord, Kind::Grp, Kind::Agg] {
            let k = if kind == Kind::Ord { per_kind + 1 } else { per_kind };
            for _ in 0..k { queries.push(gen_query(&mut rng, &t, kind.clone())); }
        }
        jobs.push(Job { prefix: if absent > 0 { "abs/".into() } else { String::new() }, t, reals, queries });
    }
    if args.thorough() {
        // bounded-exhaustive small shapes: every split of a 4-row table into flushed partitions x every cut point of an absent column
        for nullfrom in 0..=4usize {
            let c1: Vec<Cell> = (0..4).map(|i| if i >= nullfrom { Cell::Null } else { Cell::Int([3, 1, 3, 2][i]) }).collect();
            let c2: Vec<Cell> = (0..4).map(|i| if i < nullfrom { Cell::Null } else { Cell::Str(["b", "a", "b", "c"][i].to_string()) }).collect();
            let t = table(vec![("id", ColType::Id, ints(&[0, 1, 2, 3])), ("c1", ColType::Int("small"), c1), ("c2", ColType::Str("lowcard"), c2)]);
            let mut reals = vec![fixed_real(vec![0, 4], vec![false], false, 999, Mode::Mem)];
            for mask in 1..8u32 {
                let mut b = vec![0usize]; for i in 0..3 { if mask & (1 << i) != 0 { b.push(i + 1); } } b.push(4);
                let nb = b.len() - 1;
                reals.push(fixed_real(b, vec![true; nb], mask % 2 == 0, 999, if mask % 3 == 0 { Mode::Cold } else { Mode::Mem }));
            }
            let mut queries = vec![];
            for _ in 0..6 { for kind in [Kind::Sel, Kind::Ord, Kind::Grp, Kind::Agg] { queries.push(gen_query(&mut rng, &t, kind)); } }
            jobs.push(Job { prefix: "exh/".into(), t, reals, queries });
        }
    }
    // the corpus always runs; generated tables are started until the time budget is used up
    let ncorpus = jobs.iter().filter(|j| j.prefix.starts_with("corpus:") || j.prefix.starts_with("pair:")).count();
    let t0 = std::time::Instant::now();
    let skipped = Arc::new(std::sync::atomic::AtomicUsize::new(0));
    let sk = skipped.clone();
    let results = par_map(jobs, threads, move |i, job| {
        if i >= ncorpus && t0.elapsed().as_secs() > budget_s { sk.fetch_add(1, std::sync::atomic::Ordering::SeqCst); return vec![]; }
        run_table(i, job)
    });
    let mut cases = Cases::create(&args.out);
    for rows in results { for (class, line, out, note) in rows { cases.push(&class, &line, &out, &note); } }
    let sk = skipped.load(std::sync::atomic::Ordering::SeqCst);
    if sk > 0 { eprintln!("time budget reached: {} generated tables not run", sk); }
    vharness::locustdb::verif::set_sync_callback(None);
    cases.finish();
}
