//! C18: a finished flush leaves no garbage and unblocks ingestion.
//! Same histories as C08; after every step the recursive listing of db_path and the catalogue file are read.
//!   model line = configuration + history (+ catalogue observed after each flush) + `L<listing>` + `E<effects>` (for the spec);
//!   implementation output = `L<listing> C<catalogue> E<effect phases of the step>` (stores / removals in the order
//!   the implementation performed them, through the `set_fs_callback` hook).
//! The model predicts both (file names through the implementation's own naming functions); the spec is judged
//! after every completed flush: listing = {meta} + files of the catalogue on disk, nothing else.
//! Latency stream: back-to-back ingestion with `max_wal_size_bytes` in {0, 1, exactly the size accounted after the first
//! call, that -1 / +1, exactly the size of a recovered log, that -1 / +1} must keep returning (the background flush,
//! triggered by the same comparison the ingestion gate uses, resets the accounted log size).
//! Interleaved stream (`inter:*`, see c08.rs): a flush parked at every labelled boundary after its freeze while the main
//! thread ingests and a second thread calls force_flush — that call must not return before a LATER flush has removed the
//! segments acknowledged before it; after every completed flush only the segments written since its freeze may exist.
#[path = "store/common.rs"]
mod store_common;
use store_common::*;
use vharness::*;

/// Generous per-call deadline (the machine is shared): the background flush thread polls once per second.
const LAT_DEADLINE_S: u64 = 90;

fn lat_batch(i: usize) -> Vec<Batch> { vec![bat("t", &[("a", vec![Cell::Int(i as i64)])])] }

/// Accounted size of each of the `n` back-to-back calls of the latency stream (`data.len()` of its log segment =
/// file size - 48 header bytes), measured on a fresh database whose limits are never reached.
fn calibrate(n: usize) -> Vec<u64> {
    let dir = tempfile::tempdir().unwrap();
    let mut sut = Sut::open(dir.path(), &Cfg::plain());
    let mut sizes = vec![];
    for i in 0..n {
        let before = sut.wal_bytes_on_disk();
        sut.apply(&Step::Ingest(lat_batch(i)));
        sizes.push(sut.wal_bytes_on_disk().saturating_sub(before));
    }
    sizes
}

#[derive(Clone, Debug)]
enum Limit { Abs(u64), /// size accounted after the first call + delta
             FirstPlus(i64), /// database restarted (not flushed) after `k` calls, limit = recovered size + delta
             Recovered(usize, i64) }

/// Latency stream: `n` back-to-back ingestion calls with a log-size limit at / around the accounted size.  Every call
/// must return before the deadline: a call that finds the accounted size above the limit waits for the background
/// flush, which must therefore be triggered by the same comparison.
fn latency_case(n: usize, io: usize, combine: u64, cthreads: usize, limit: &Limit, sizes: &[u64]) -> (String, String, String, String) {
    let dir = tempfile::tempdir().unwrap();
    let (lim, pre, first, class): (u64, u64, usize, String) = match limit {
        Limit::Abs(l) => (*l, 0, 0, format!("latency:wal_bytes={}", l)),
        Limit::FirstPlus(d) => ((sizes[0] as i64 + d).max(0) as u64, 0, 0, format!("latency:wal_bytes=first{:+}", d)),
        Limit::Recovered(k, d) => {
            // session 1: k calls, dropped without a flush
            let mut s1 = Sut::open(dir.path(), &Cfg { io, combine, cthreads, ..Cfg::plain() });
            for i in 0..*k { s1.apply(&Step::Ingest(lat_batch(i))); }
            let rec = s1.wal_bytes_on_disk();
            drop(s1);
            ((rec as i64 + d).max(0) as u64, rec, *k, format!("latency:wal_bytes=recovered{:+}", d))
        }
    };
    let cfg = Cfg { wal_bytes: lim, io, combine, cthreads, ..Cfg::plain() };
    let mut sut = Sut::open(dir.path(), &cfg);
    let t0 = std::time::Instant::now();
    let mut worst = 0u128;
    let mut waited = 0usize;
    for i in first..n {
        if !sut.alive() { break; }
        let db = sut.db.clone().unwrap();
        let ev = event_buffer(&lat_batch(i));
        let t1 = std::time::Instant::now();
        match with_deadline(LAT_DEADLINE_S, move || ingest_sync(&db, ev)) {
            None => sut.dead = Some("hang:ingest".into()),
            Some(Err(p)) => { sut.dead = Some("panic:ingest".into()); sut.panic_detail = p; }
            Some(Ok(())) => {}
        }
        let ms = t1.elapsed().as_millis();
        if ms > 400 { waited += 1; }
        worst = worst.max(ms);
    }
    // the last call may have triggered a background flush: let it finish before the directory is removed
    if sut.alive() { sut.settle(); }
    let out = match &sut.dead { Some(d) => d.clone(), None => "returned".to_string() };
    let line = format!("LAT {} io={} combine={} cthreads={} limit={} pre={} sizes={}", n, io, combine, cthreads, lim, pre, fmt_list(&sizes[first..n]));
    let note = format!("{} back-to-back ingests, max_wal_size_bytes={} ({:?}), accounted sizes {:?}, recovered {}: total {} ms, slowest call {} ms, calls slower than 400 ms {} {}",
        n - first, lim, limit, &sizes[first..n], pre, t0.elapsed().as_millis(), worst, waited, sut.panic_detail);
    (class, line, out, note)
}

fn main() {
    let args = parse_args();
    if std::env::var("VERIF_LOUD").is_err() { quiet_panics(); }
    let mut rng = Rng::new(args.seed);
    let mut cases = Cases::create(&args.out);
    install_fs_recorder();
    let null_loss = probe_null_loss();
    let tables: Vec<String> = TABLE_POOL[..3].iter().map(|s| s.to_string()).collect();
    let mut cols = plain_column_pool();
    cols.push(long_name());      // key of its sub-partition is a hash (not file-system safe)
    cols.push("UPPER".to_string());
    // interleaved phase first (the sync-point gate is process-global: no other flush may run in this process meanwhile)
    let ijobs = inter_jobs(&args, &mut rng, &tables, &cols, null_loss);
    install_gate();
    let mut results = par_map(ijobs, 8, |job: Job| { let obs = run_history(&job.cfg, &job.steps); (job, obs) });
    uninstall_gate();
    let only_inter = args.rest.iter().any(|a| a == "--only-inter");
    let mut jobs = if only_inter { vec![] } else { standard_jobs(&args, &mut rng, &tables, &cols, null_loss) };
    if !only_inter { jobs.extend(name_jobs(&args)); }
    if !only_inter {
        // columns without a single value in a batch (every wire representation), before / after batches with values
        jobs.extend(null_column_jobs(&args, null_loss, "c"));
        jobs.extend(null_random_jobs(&args, &mut rng, &tables, &cols, null_loss));
    }
    let thorough = args.thorough();
    let lat = std::thread::spawn(move || {
        let sizes = calibrate(5);
        let mut v = vec![];
        // limits at and around the accounted size: 0, 1, exactly the size after the first call, that -1 / +1,
        // and a recovered log whose size equals the limit (-1 / +1)
        let mut specs: Vec<(usize, usize, u64, usize, Limit)> = vec![
            (5, 1, 4, 1, Limit::Abs(1)), (4, 4, 1, 2, Limit::Abs(1)), (3, 4, 0, 2, Limit::Abs(1)),
            (4, 1, 4, 1, Limit::Abs(0)), (3, 4, 1, 2, Limit::Abs(0)),
            (4, 1, 4, 1, Limit::FirstPlus(0)), (4, 4, 1, 2, Limit::FirstPlus(-1)), (4, 1, 4, 1, Limit::FirstPlus(1)),
            (5, 1, 4, 1, Limit::Recovered(2, 0)), (5, 4, 1, 2, Limit::Recovered(2, -1)), (5, 1, 4, 1, Limit::Recovered(2, 1)),
        ];
        if thorough {
            for io in [1usize, 4] { for d in [-1i64, 0, 1] {
                specs.push((5, io, 0, 2, Limit::FirstPlus(d)));
                specs.push((5, io, 999, 1, Limit::Recovered(1, d)));
                specs.push((5, io, 4, 1, Limit::Recovered(3, d)));
            } }
            specs.push((5, 4, 4, 2, Limit::Abs(0)));
        }
        for (n, io, combine, cthreads, limit) in specs { v.push(latency_case(n, io, combine, cthreads, &limit, &sizes)); }
        v
    });
    results.extend(par_map(jobs, 8, |job: Job| { let obs = run_history(&job.cfg, &job.steps); (job, obs) }));
    for (job, obs) in results {
        for k in 0..obs.len() {
            // while a flush is parked, listing and catalogue are comparable only at the step boundaries of the model
            if obs[k].mid && !obs[k].boundary && !obs[k].dead { continue; }
            let ltok = listing_tok(&obs[k].listing);
            let inter_step = matches!(job.steps[obs[k].step], Step::Inter(_));
            // effect phases: not for the sub-observations of an interleaved flush (its effects interleave with those of the ingestions)
            let etok = if inter_step { String::new() } else { format!(" {}", obs[k].effects) };
            let atok = if obs[k].inter { format!(" A={}", obs[k].answered) } else { String::new() };
            let line = format!("{} {}{}", history_line(&job.cfg, &obs, k), ltok, etok);
            let imp = if obs[k].dead { obs[k].dump.clone() } else { format!("{} {}{}{}", ltok, meta_tok(&obs[k].meta), etok, atok) };
            let note = if k + 1 == obs.len() || obs[k].dead { format!("{} | {}", describe(&job.cfg, &job.steps[..=obs[k].step]), obs[k].detail) } else { String::new() };
            cases.push(&format!("{}:{}", job.class, obs[k].kind), &line, &imp, &note);
        }
    }
    for (class, line, out, note) in lat.join().unwrap() { cases.push(&class, &line, &out, &note); }
    cases.finish();
}
