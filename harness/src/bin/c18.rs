//! C18: a finished flush leaves no garbage and unblocks ingestion.
//! Same histories as C08; after every step the recursive listing of db_path and the catalogue file are read.
//!   model line = configuration + history (+ catalogue observed after each flush) + `L<listing>` + `E<effects>` (for the spec);
//!   implementation output = `L<listing> C<catalogue> E<effect phases of the step>` (stores / removals in the order
//!   the implementation performed them, through the `set_fs_callback` hook).
//! The model predicts both (file names through the implementation's own naming functions); the spec is judged
//! after every completed flush: listing = {meta} + files of the catalogue on disk, nothing else.
//! Latency stream: back-to-back ingestion with `max_wal_size_bytes = 1` must keep returning (the background
//! flush resets the accounted log size).
#[path = "store/common.rs"]
mod store_common;
use store_common::*;
use vharness::*;

/// Generous per-call deadline (the machine is shared): the background flush thread polls once per second.
const LAT_DEADLINE_S: u64 = 90;

fn latency_case(n: usize, io: usize, combine: u64, cthreads: usize) -> (String, String, String) {
    let dir = tempfile::tempdir().unwrap();
    let cfg = Cfg { wal_bytes: 1, io, combine, cthreads, ..Cfg::plain() };
    let mut sut = Sut::open(dir.path(), &cfg);
    let t0 = std::time::Instant::now();
    let mut worst = 0u128;
    for i in 0..n {
        if !sut.alive() { break; }
        let db = sut.db.clone().unwrap();
        let ev = event_buffer(&[bat("t", &[("a", vec![Cell::Int(i as i64)])])]);
        let t1 = std::time::Instant::now();
        match with_deadline(LAT_DEADLINE_S, move || ingest_sync(&db, ev)) {
            None => sut.dead = Some("hang:ingest".into()),
            Some(Err(p)) => { sut.dead = Some("panic:ingest".into()); sut.panic_detail = p; }
            Some(Ok(())) => {}
        }
        worst = worst.max(t1.elapsed().as_millis());
    }
    let out = match &sut.dead { Some(d) => d.clone(), None => "returned".to_string() };
    (format!("LAT {} io={} combine={} cthreads={}", n, io, combine, cthreads), out, format!("{} back-to-back ingests with max_wal_size_bytes=1 (each call after the first finds the accounted log size above the limit and waits for the background flush): total {} ms, slowest call {} ms {}", n, t0.elapsed().as_millis(), worst, sut.panic_detail))
}

fn main() {
    let args = parse_args();
    quiet_panics();
    let mut rng = Rng::new(args.seed);
    let mut cases = Cases::create(&args.out);
    install_fs_recorder();
    let null_loss = probe_null_loss();
    let tables: Vec<String> = TABLE_POOL[..3].iter().map(|s| s.to_string()).collect();
    let mut cols = plain_column_pool();
    cols.push(long_name());      // key of its sub-partition is a hash (not file-system safe)
    cols.push("UPPER".to_string());
    let jobs = standard_jobs(&args, &mut rng, &tables, &cols, null_loss);
    let lat = std::thread::spawn(move || vec![latency_case(5, 1, 4, 1), latency_case(4, 4, 1, 2), latency_case(3, 4, 0, 2)]);
    let results = par_map(jobs, 8, |job: Job| { let obs = run_history(&job.cfg, &job.steps); (job, obs) });
    for (job, obs) in results {
        for k in 0..obs.len() {
            let ltok = listing_tok(&obs[k].listing);
            let line = format!("{} {} {}", history_line(&job.cfg, &obs, k), ltok, obs[k].effects);
            let imp = if obs[k].dead { obs[k].dump.clone() } else { format!("{} {} {}", ltok, meta_tok(&obs[k].meta), obs[k].effects) };
            let note = if k + 1 == obs.len() || obs[k].dead { format!("{} | {}", describe(&job.cfg, &job.steps[..=k]), obs[k].detail) } else { String::new() };
            cases.push(&format!("{}:{}", job.class, obs[k].kind), &line, &imp, &note);
        }
    }
    for (line, out, note) in lat.join().unwrap() { cases.push("latency:wal_bytes=1", &line, &out, &note); }
    cases.finish();
}
