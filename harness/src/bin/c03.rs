//! C03: WHERE keeps exactly the rows for which the predicate is true.
//!
//! `SELECT id FROM t WHERE <pred>` on generated tables in several physical layouts (never compacted:
//! compaction is C07's subject).  For every case the harness reads back the *column images* the real
//! database built for every partition (codec ops, section types, dictionary) through the
//! `LocustDB::verif_inner` hook and hands them, together with the logical cells, to the Lean driver:
//! the implementation model (Query/Filter.lean) predicts the kept ids or the error kind from the images,
//! the specification (Query/Sql.lean, Kleene logic) says which ids the property demands.
//!
//! model line:  where <rpn> <ncols> <col cells>… <nparts> <part>…
//!   part  = <start>:<len>:<img>/<img>/…          (one image per logical column, `-` = column absent)
//!   img   = <section types , separated>;<ops + separated | id>;<dictionary , separated hex | ->
//!   ops   = N | A<bits>:<offset> | D<bits> | T<bits> | P<i> | L<bits> | Z<type> | U | H
//! LIKE (differential only):  like <pattern hex> <str col cells>
use std::sync::Arc;
use std::time::Instant;
use vharness::locustdb::verif::engine::EncodingType;
use vharness::locustdb::verif::mem_store::{CodecOp, Column, DataSection, DataSource};
use vharness::locustdb::LocustDB;
use vharness::qcommon::*;
use vharness::*;

const NEVER_COMPACT: u64 = 1_000_000;

fn et(t: &EncodingType) -> String { format!("{:?}", t).to_lowercase() }
fn bits(t: &EncodingType) -> &'static str {
    match t { EncodingType::U8 => "8", EncodingType::U16 => "16", EncodingType::U32 => "32", EncodingType::U64 => "64u", EncodingType::I64 => "64", _ => "0" }
}

fn dict_entries(col: &Column) -> Option<Vec<String>> {
    let d = col.data();
    if d.len() < 3 { return None; }
    match (&d[1], &d[2]) {
        (DataSection::U64(idx), DataSection::U8(bytes)) => Some(idx.iter().map(|ol| {
            let off = (ol >> 24) as usize; let len = (ol & 0x00ff_ffff) as usize;
            hexb(&bytes[off..off + len]) }).collect()),
        _ => None,
    }
}

fn image_tok(col: &Column) -> String {
    let codec = col.codec();
    let mut has_dict = false;
    let ops: Vec<String> = codec.ops().iter().map(|op| match op {
        CodecOp::Nullable => "N".to_string(),
        CodecOp::Add(t, x) => format!("A{}:{}", bits(t), x),
        CodecOp::Delta(t) => format!("D{}", bits(t)),
        CodecOp::ToI64(t) => format!("T{}", bits(t)),
        CodecOp::PushDataSection(i) => format!("P{}", i),
        CodecOp::DictLookup(t) => { has_dict = true; format!("L{}", bits(t)) }
        CodecOp::LZ4(t, _) | CodecOp::Pco(t, _, _) => format!("Z{}", et(t)),
        CodecOp::UnpackStrings => "U".to_string(),
        CodecOp::UnhexpackStrings(..) => "H".to_string(),
        CodecOp::Unknown => "X".to_string(),
    }).collect();
    let secs: Vec<String> = codec.section_types().iter().map(et).collect();
    let dict = if has_dict { dict_entries(col).map(|d| if d.is_empty() { "[]".to_string() } else { d.join(",") }).unwrap_or("?".into()) } else { "-".into() };
    format!("{};{};{}", secs.join(","), if ops.is_empty() { "id".to_string() } else { ops.join("+") }, dict)
}

/// Coverage label of an image: the codec shape without constants.
fn image_class(tok: &str) -> String {
    if tok == "-" { return "absent".into(); }
    let ops = tok.split(';').nth(1).unwrap_or("");
    ops.split('+').map(|o| if let Some(r) = o.strip_prefix('A') { format!("A{}", r.split(':').next().unwrap_or("")) } else if o.starts_with('Z') { "Z".to_string() } else { o.to_string() }).collect::<Vec<_>>().join("+")
}

/// The physical images of table "t": one token per partition, in table order.
fn images(db: &LocustDB, names: &[String]) -> (String, Vec<String>) {
    let mut parts = db.verif_inner().snapshot("t", None).unwrap_or_default();
    parts.sort_by_key(|p| p.range().start);
    let mut classes = vec![];
    let toks: Vec<String> = parts.iter().map(|p| {
        let handles = p.clone_column_handles();
        let imgs: Vec<String> = names.iter().map(|n| {
            let col = handles.iter().find(|h| h.name() == n).and_then(|h| h.try_get().clone());
            let tok = match col { Some(c) => image_tok(&c), None => "-".to_string() };
            classes.push(image_class(&tok));
            tok
        }).collect();
        format!("{}:{}:{}", p.range().start, p.len(), imgs.join("/"))
    }).collect();
    (format!("{} {}", toks.len(), if toks.is_empty() { String::new() } else { toks.join(" ") }).trim_end().to_string(), classes)
}

struct Live { db: Arc<LocustDB>, img: String, img_classes: Vec<String> }

fn build(t: &LTable, r: &Realisation) -> Live {
    let t0 = Instant::now();
    let db = realise(t, r);
    let t1 = t0.elapsed();
    let (img, img_classes) = images(&db, &t.names);
    if std::env::var("C03_TIMING").is_ok() { eprintln!("build {:?} images {:?} flushes {:?}", t1, t0.elapsed() - t1, r.flush); }
    Live { db, img, img_classes }
}

struct Ctx { cases: Cases, t0: Instant, budget_s: u64, rebuilds: usize }

impl Ctx {
    fn over(&self) -> bool { self.t0.elapsed().as_secs() >= self.budget_s }

    /// Run one predicate; a panic / hang costs the database a worker thread, so rebuild it afterwards.
    fn run(&mut self, live: &mut Live, t: &LTable, r: &Realisation, p: &Ex, class: &str) {
        let p = &sanitize(p);
        let q = format!("SELECT id FROM t WHERE {}", p.sql(&t.names));
        let tq = Instant::now();
        let mut out = query_full(&live.db, &q, true, 10);
        if std::env::var("C03_TIMING").is_ok() { eprintln!("query {:?} {}", tq.elapsed(), out.tok().chars().take(12).collect::<String>()); }
        let mut retried = "";
        if out == QOut::Hang {
            // the machine is shared and heavily loaded: one retry on a fresh database with a generous deadline
            // (a hang that does not reproduce is a scheduling question for C10 / C11, not a wrong filter)
            *live = build(t, r); self.rebuilds += 1;
            out = query_full(&live.db, &q, true, 60);
            retried = " | retried-after-hang";
        }
        let model_line = format!("where {} {} {}", p.rpn(), t.tok(), live.img);
        self.cases.push(&format!("{}|p{}", class, r.partitions().min(3)), &model_line, &ids_tok(&out),
            &format!("{} | {} | {} | {} | {}{}", q, t.type_tag(), r.tag(), live.img_classes.join(","), out.detail(), retried));
        let bad = matches!(out, QOut::Panic(_) | QOut::Hang) || matches!(&out, QOut::Err(k) if k == "canceled");
        if bad { *live = build(t, r); self.rebuilds += 1; }
    }
}

/// Constants without a literal syntax are never emitted.  `-9223372036854775808` is not an integer literal for the SQL parser (it negates the positive literal, which is
/// not an i64): the model line would not denote what the SQL text says, so the generators never emit it.
fn sanitize(e: &Ex) -> Ex {
    let b = |x: &Ex| Box::new(sanitize(x));
    match e {
        Ex::Lit(Cell::Int(i)) if *i == i64::MIN => Ex::Lit(Cell::Int(i64::MIN + 1)),
        // inf / NaN have no literal syntax (`-inf` parses as the negation of a column called inf)
        Ex::Lit(Cell::Float(b)) if !f64::from_bits(*b).is_finite() => Ex::Lit(Cell::f(if f64::from_bits(*b) < 0.0 { -1.7e308 } else { 1.7e308 })),
        Ex::Cmp(op, l, r) => Ex::Cmp(op, b(l), b(r)),
        Ex::And(l, r) => Ex::And(b(l), b(r)),
        Ex::Or(l, r) => Ex::Or(b(l), b(r)),
        Ex::Not(x) => Ex::Not(b(x)),
        Ex::IsNull(x) => Ex::IsNull(b(x)),
        Ex::NotNull(x) => Ex::NotNull(b(x)),
        Ex::Arith(op, l, r) => Ex::Arith(*op, b(l), b(r)),
        other => other.clone(),
    }
}

fn no_compaction(mut r: Realisation) -> Realisation { r.combine_factor = NEVER_COMPACT; r }

fn single(n: usize, flush: bool, rng: &mut Rng) -> Realisation {
    Realisation { bounds: vec![0, n], flush: vec![flush], omit_null_cols: false, combine_factor: NEVER_COMPACT, mem_lz4: rng.chance(1, 2),
        batch_size: *rng.pick(&[8usize, 64, 1024]), threads: 2, pref: rng.next() }
}

fn table_of(cols: Vec<(ColType, Vec<Cell>)>) -> LTable {
    let n = cols[0].1.len();
    let mut names = vec!["id".to_string()];
    let mut types = vec![ColType::Id];
    let mut cs = vec![(0..n as i64).map(Cell::Int).collect::<Vec<_>>()];
    for (k, (t, c)) in cols.into_iter().enumerate() { names.push(format!("c{}", k + 1)); types.push(t); cs.push(c); }
    LTable { n, names, types, cols: cs }
}

fn cmp(op: &'static str, l: Ex, r: Ex) -> Ex { Ex::Cmp(op, Box::new(l), Box::new(r)) }
fn flip(op: &'static str) -> &'static str { match op { "<" => ">", "<=" => ">=", ">" => "<", ">=" => "<=", o => o } }

/// Witnesses of DESIGN §8 #1, #2, #23 and of the defects found by this check: they head every run.
fn corpus(cx: &mut Ctx, rng: &mut Rng) {
    let s = ["b", "d", "b", "f", "d", "b", "f", "d"].iter().map(|x| Cell::Str(x.to_string())).collect::<Vec<_>>();
    let n = vec![Cell::Int(1), Cell::Null, Cell::Int(30), Cell::Null, Cell::Null, Cell::Int(7), Cell::Null, Cell::Null];
    let x = [3i64, -5, 100, 7, 8, 9, 10, 11].iter().map(|v| Cell::Int(*v)).collect::<Vec<_>>();
    let pk = (0..8).map(|i| Cell::Str(format!("q{}", i))).collect::<Vec<_>>();
    let t = table_of(vec![(ColType::Str("lowcard"), s), (ColType::Int("small"), n), (ColType::Int("u8off"), x), (ColType::Str("highcard"), pk)]);
    for flush in [false, true] {
        let r = single(8, flush, rng);
        let mut live = build(&t, &r);
        let sc = |c: &str| Ex::Lit(Cell::Str(c.to_string()));
        for op in CMP_OPS {
            for c in ["c", "a", "g", "d", ""] {
                cx.run(&mut live, &t, &r, &cmp(op, Ex::Col(1), sc(c)), &format!("corpus:dict{}{}", op, if ["d"].contains(&c) { "member" } else { "absent" }));
                cx.run(&mut live, &t, &r, &cmp(flip(op), sc(c), Ex::Col(1)), &format!("corpus:dict{}{}~", op, if ["d"].contains(&c) { "member" } else { "absent" }));
            }
        }
        let lt10 = cmp("<", Ex::Col(2), Ex::Lit(Cell::Int(10)));
        let id5 = cmp(">", Ex::Col(0), Ex::Lit(Cell::Int(5)));
        cx.run(&mut live, &t, &r, &Ex::Or(Box::new(lt10.clone()), Box::new(id5.clone())), "corpus:or-null");
        cx.run(&mut live, &t, &r, &Ex::Or(Box::new(id5.clone()), Box::new(lt10.clone())), "corpus:or-null");
        cx.run(&mut live, &t, &r, &Ex::And(Box::new(lt10.clone()), Box::new(id5.clone())), "corpus:and-null");
        cx.run(&mut live, &t, &r, &Ex::Not(Box::new(lt10.clone())), "corpus:not-nullable");
        cx.run(&mut live, &t, &r, &Ex::Not(Box::new(id5.clone())), "corpus:not");
        for op in CMP_OPS {
            for c in [i64::MAX, i64::MAX - 1, i64::MAX - 5, i64::MAX - 6, i64::MIN, i64::MIN + 1, -5, -6, 250, 251] {
                cx.run(&mut live, &t, &r, &cmp(op, Ex::Col(3), Ex::Lit(Cell::Int(c))), &format!("corpus:encode-int{}", op));
            }
        }
        // one string literal compared with a dictionary column and with a packed column (open finding C03-shared-str-const-panic)
        for (a, b, cl) in [("b", "b", "shared-literal"), ("q1", "q1", "shared-literal"), ("b", "q1", "distinct-literals")] {
            let pa = cmp("=", Ex::Col(4), sc(a));
            let sb = cmp("<>", Ex::Col(1), sc(b));
            cx.run(&mut live, &t, &r, &Ex::And(Box::new(pa.clone()), Box::new(sb.clone())), &format!("corpus:{}", cl));
            cx.run(&mut live, &t, &r, &Ex::Or(Box::new(sb.clone()), Box::new(pa.clone())), &format!("corpus:{}", cl));
        }
        // constant and non-boolean WHERE expressions: 0 is false, other integers true, NULL literal / non-boolean = error value
        for (e, cl) in [(Ex::Lit(Cell::Int(0)), "const:0"), (Ex::Lit(Cell::Int(1)), "const:1"), (Ex::Lit(Cell::Int(2)), "const:2"), (Ex::Lit(Cell::Int(-1)), "const:-1"),
            (Ex::Lit(Cell::Null), "const:null"), (Ex::Lit(Cell::f(1.5)), "const:float"), (Ex::Lit(Cell::Str("a".into())), "const:str"),
            (Ex::Col(0), "nonbool:intcol"), (Ex::Col(2), "nonbool:nullable-intcol"), (Ex::Col(3), "nonbool:offset-intcol"), (Ex::Col(1), "nonbool:strcol"),
            (Ex::Not(Box::new(Ex::Lit(Cell::Int(0)))), "const:not0"), (cmp("=", Ex::Lit(Cell::Int(0)), Ex::Lit(Cell::Int(0))), "const:0=0"),
            (Ex::And(Box::new(id5.clone()), Box::new(Ex::Lit(Cell::Int(0)))), "const:and0"), (Ex::Or(Box::new(id5.clone()), Box::new(Ex::Lit(Cell::Int(1)))), "const:or1")] {
            cx.run(&mut live, &t, &r, &e, &format!("corpus:{}", cl));
        }
        // a column that does not exist (in this partition): every comparison with it is not true
        let t2 = { let mut t2 = t.clone(); t2.names.push("zz".into()); t2.types.push(ColType::Int("small")); t2.cols.push(vec![Cell::Null; 8]); t2 };
        let mut r2 = r.clone(); r2.omit_null_cols = true; r2.pref = 2;
        let mut live2 = build(&t2, &r2);
        for op in CMP_OPS {
            let a = cmp(op, Ex::Col(5), Ex::Lit(Cell::Int(3)));
            cx.run(&mut live2, &t2, &r2, &a, &format!("corpus:absent{}", op));
            cx.run(&mut live2, &t2, &r2, &Ex::And(Box::new(a.clone()), Box::new(id5.clone())), &format!("corpus:absent{}-and", op));
            cx.run(&mut live2, &t2, &r2, &Ex::Or(Box::new(id5.clone()), Box::new(a.clone())), &format!("corpus:absent{}-or", op));
        }
        cx.run(&mut live2, &t2, &r2, &Ex::IsNull(Box::new(Ex::Col(5))), "corpus:absent-isnull");
        cx.run(&mut live2, &t2, &r2, &Ex::NotNull(Box::new(Ex::Col(5))), "corpus:absent-notnull");
    }
}

/// Constants positioned relative to an integer column: inside, at the edges, outside the range, around the
/// codec offset's representability limits (c - offset not an i64).
fn int_consts(vals: &[i64]) -> Vec<(i64, &'static str)> {
    let lo = vals.iter().min().copied().unwrap_or(0);
    let hi = vals.iter().max().copied().unwrap_or(0);
    let mut v = vec![(lo, "min"), (hi, "max"), (lo.saturating_sub(1), "min-1"), (hi.saturating_add(1).min(i64::MAX - 1), "max+1"),
        (lo / 2 + hi / 2, "mid"), (vals.get(vals.len() / 2).copied().unwrap_or(0), "member"),
        (lo.saturating_add(255), "lo+255"), (lo.saturating_add(256), "lo+256"), (lo.saturating_add(65536), "lo+65536"),
        (0, "zero"), (-1, "typebound"), (256, "typebound"), (4294967296, "typebound"),
        (i64::MAX, "i64max"), (i64::MAX - 1, "extreme"), (i64::MIN, "i64min"), (i64::MIN + 1, "extreme"),
        // first / last constant whose encoding `c - lo` leaves i64
        (i64::MAX.saturating_add(lo.min(0)), "enc-edge"), (i64::MAX.saturating_add(lo.min(0)).saturating_add(1), "enc-edge+1"),
        (i64::MIN.saturating_add(lo.max(0)), "enc-edge"), (i64::MIN.saturating_add(lo.max(0)).saturating_sub(1), "enc-edge-1")];
    v.dedup();
    v
}

const INT_JOBS: &[&str] = &["u8off", "negoff", "u16", "u32off", "u8", "i64", "u16off", "mono", "u32", "edges", "const", "small"];
const STR_JOBS: &[&str] = &["lowcard", "highcard", "pool"];
const FLOAT_JOBS: &[&str] = &["dyadic", "edges", "f32"];

fn directed_ints(cx: &mut Ctx, rng: &mut Rng, thorough: bool, class: &str) {
    {
        for nullable in [false, true] {
            if cx.over() { return; }
            let n = *rng.pick(&[9usize, 17, 33]);
            let ints: Vec<i64> = if class == "negoff" { let o = -rng.range(1, 1 << 40); (0..n).map(|_| o + rng.range(0, 200)).collect() } else { gen_ints(rng, n, class) };
            let cells: Vec<Cell> = ints.iter().map(|i| Cell::Int(*i)).collect();
            let cells = if nullable { let m: Vec<bool> = (0..n).map(|i| i % 4 == 3 || rng.chance(1, 8)).collect(); apply_nulls(cells, &m) } else { cells };
            let t = table_of(vec![(ColType::Int(if class == "negoff" { "u8off" } else { Box::leak(class.to_string().into_boxed_str()) }), cells)]);
            let r = single(n, rng.chance(1, 2), rng);
            let mut live = build(&t, &r);
            let present: Vec<i64> = t.cols[1].iter().filter_map(|c| if let Cell::Int(i) = c { Some(*i) } else { None }).collect();
            let mut atoms = vec![];
            for (c, pos) in int_consts(&present) { for op in CMP_OPS { atoms.push((c, pos, *op)); } }
            let take = if thorough { atoms.len() } else { 20 };
            for k in 0..take {
                let (c, pos, op) = if thorough { atoms[k] } else { *rng.pick(&atoms) };
                let swap = rng.chance(1, 4);
                let e = if swap { cmp(flip(op), Ex::Lit(Cell::Int(c)), Ex::Col(1)) } else { cmp(op, Ex::Col(1), Ex::Lit(Cell::Int(c))) };
                cx.run(&mut live, &t, &r, &e, &format!("i:{}{}{}{}{}", class, if nullable { "?" } else { "" }, op, pos, if swap { "~" } else { "" }));
            }
            for e in [Ex::IsNull(Box::new(Ex::Col(1))), Ex::NotNull(Box::new(Ex::Col(1))), cmp("<=", Ex::Col(1), Ex::Col(0)), cmp("<>", Ex::Col(0), Ex::Col(1))] {
                let cl = format!("i:{}{}:{}", class, if nullable { "?" } else { "" }, e.shape());
                cx.run(&mut live, &t, &r, &e, &cl);
            }
        }
    }
}

fn directed_strs(cx: &mut Ctx, rng: &mut Rng, thorough: bool, class: &str) {
    {
        for nullable in [false, true] {
            if cx.over() { return; }
            let n = *rng.pick(&[9usize, 17, 33]);
            let strs = gen_strs(rng, n, class);
            let cells: Vec<Cell> = strs.iter().map(|s| Cell::Str(s.clone())).collect();
            let cells = if nullable { let m: Vec<bool> = (0..n).map(|i| i % 5 == 2).collect(); apply_nulls(cells, &m) } else { cells };
            let t = table_of(vec![(ColType::Str(Box::leak(class.to_string().into_boxed_str())), cells)]);
            let r = single(n, rng.chance(1, 2), rng);
            let mut live = build(&t, &r);
            let mut sorted: Vec<String> = strs.clone(); sorted.sort(); sorted.dedup();
            let mut consts: Vec<(String, &'static str)> = vec![(String::new(), "empty"), ("\u{10FFFF}".into(), "after-last"), (sorted[0].clone(), "first"), (sorted[sorted.len() - 1].clone(), "last")];
            for s in sorted.iter().take(4) { consts.push((format!("{}0", s), "between")); consts.push((s.clone(), "member")); }
            if let Some(f) = sorted.iter().find(|s| !s.is_empty()) { let mut b = f.clone(); b.pop(); consts.push((b, "before")); }
            let mut atoms = vec![];
            for (c, pos) in &consts { for op in CMP_OPS { atoms.push((c.clone(), *pos, *op)); } }
            let take = if thorough { atoms.len() } else { 24 };
            for k in 0..take {
                let (c, pos, op) = if thorough { atoms[k].clone() } else { rng.pick(&atoms).clone() };
                let swap = rng.chance(1, 4);
                let e = if swap { cmp(flip(op), Ex::Lit(Cell::Str(c)), Ex::Col(1)) } else { cmp(op, Ex::Col(1), Ex::Lit(Cell::Str(c))) };
                cx.run(&mut live, &t, &r, &e, &format!("s:{}{}{}{}{}", class, if nullable { "?" } else { "" }, op, pos, if swap { "~" } else { "" }));
            }
            for e in [Ex::IsNull(Box::new(Ex::Col(1))), Ex::NotNull(Box::new(Ex::Col(1))), cmp("<=", Ex::Col(1), Ex::Col(1))] {
                let cl = format!("s:{}{}:{}", class, if nullable { "?" } else { "" }, e.shape());
                cx.run(&mut live, &t, &r, &e, &cl);
            }
        }
    }
}

/// LIKE against the reference %/_ matcher of the driver (differential only; the regex rewriting is not modelled).
fn directed_floats(cx: &mut Ctx, rng: &mut Rng, thorough: bool, class: &str) {
    for nullable in [false, true] {
        if cx.over() { return; }
        let n = *rng.pick(&[9usize, 17, 33]);
        let fl = gen_floats(rng, n, class);
        let cells: Vec<Cell> = fl.iter().map(|f| Cell::f(*f)).collect();
        let cells = if nullable { let m: Vec<bool> = (0..n).map(|i| i % 4 == 1).collect(); apply_nulls(cells, &m) } else { cells };
        let ints: Vec<Cell> = (0..n).map(|_| Cell::Int(rng.range(-2000, 2000))).collect();
        let t = table_of(vec![(ColType::Float(Box::leak(class.to_string().into_boxed_str())), cells), (ColType::Int("small"), ints)]);
        let r = single(n, rng.chance(1, 2), rng);
        let mut live = build(&t, &r);
        let mut consts: Vec<(Cell, &'static str)> = vec![(Cell::f(0.0), "zero"), (Cell::f(-0.0), "negzero"), (Cell::f(0.5), "half"), (Cell::f(1e300), "huge"), (Cell::f(-1e300), "-huge"),
            (Cell::Int(0), "intconst"), (Cell::Int(3), "intconst"), (Cell::Int(-1000), "intconst")];
        for f in fl.iter().take(4) { consts.push((Cell::f(*f), "member")); }
        let mut atoms = vec![];
        for (c, pos) in &consts { for op in CMP_OPS { atoms.push((c.clone(), *pos, *op)); } }
        let take = if thorough { atoms.len() } else { 16 };
        for k in 0..take {
            let (c, pos, op) = if thorough { atoms[k].clone() } else { rng.pick(&atoms).clone() };
            let swap = rng.chance(1, 4);
            let e = if swap { cmp(flip(op), Ex::Lit(c), Ex::Col(1)) } else { cmp(op, Ex::Col(1), Ex::Lit(c)) };
            cx.run(&mut live, &t, &r, &e, &format!("f:{}{}{}{}{}", class, if nullable { "?" } else { "" }, op, pos, if swap { "~" } else { "" }));
        }
        for e in [Ex::IsNull(Box::new(Ex::Col(1))), Ex::NotNull(Box::new(Ex::Col(1))), cmp("<", Ex::Col(1), Ex::Col(2)), cmp(">=", Ex::Col(2), Ex::Col(1)), cmp("=", Ex::Col(1), Ex::Col(1))] {
            let cl = format!("f:{}{}:{}", class, if nullable { "?" } else { "" }, e.shape());
            cx.run(&mut live, &t, &r, &e, &cl);
        }
    }
}

fn likes(cx: &mut Ctx, rng: &mut Rng, thorough: bool, class: &str) {
    // `%%` (the engine's spelling of a literal percent sign) and backslash escapes are dialect specific: not generated
    let pats = ["%", "_", "a%", "%a", "_b", "%a%", "a_", "__", "a%b%c", "ab%", "%b%c", "a%c", "", "abc", "a__", "_%", "%_", "b_%", "%0", "d%f", "x y", "%é%", "%_%", "_%_"];
    {
        if cx.over() { return; }
        let n = 17;
        let strs = gen_strs(rng, n, class);
        let t = table_of(vec![(ColType::Str("like"), strs.iter().map(|s| Cell::Str(s.clone())).collect())]);
        let r = single(n, rng.chance(1, 2), rng);
        let live = build(&t, &r);
        for p in pats.iter().take(if thorough { pats.len() } else { 10 }) {
            let q = format!("SELECT id FROM t WHERE c1 LIKE '{}'", p);
            let out = query_full(&live.db, &q, true, 10);
            cx.cases.push(&format!("like:{}", class), &format!("like {} {}", hexs(p), cells_tok(&t.cols[1])), &ids_tok(&out), &q);
        }
    }
}

fn random_table(cx: &mut Ctx, rng: &mut Rng, per_table: usize) {
    let n = *rng.pick(&[1usize, 2, 5, 8, 9, 16, 17, 33, 70]);
    let extra = 1 + rng.below(3) as usize;
    let t = gen_table(rng, n, extra, true, true);
    let r = no_compaction(gen_realisation(rng, n, false));
    let mut live = build(&t, &r);
    for _ in 0..per_table {
        let depth = rng.below(4) as u32;
        let (p, class) = gen_pred(rng, &t, depth, true);
        let shape = if class.len() > 48 || class.contains('(') { format!("tree:{}", p.shape().chars().filter(|c| "&|!".contains(*c)).collect::<String>()) } else { class };
        cx.run(&mut live, &t, &r, &p, &shape);
    }
}

fn main() {
    let args = parse_args();
    quiet_panics();
    let mut rng = Rng::new(args.seed);
    let thorough = args.thorough();
    let mut cx = Ctx { cases: Cases::create(&args.out), t0: Instant::now(), budget_s: if thorough { 420 } else { 60 }, rebuilds: 0 };
    corpus(&mut cx, &mut rng);
    // interleave the directed classes with random tables so that every kind gets its share of the time budget
    let rounds = if thorough { 40 } else { 12 };
    let per_table = if thorough { 40 } else { 18 };
    for k in 0..rounds {
        if cx.over() { break; }
        directed_ints(&mut cx, &mut rng, thorough, INT_JOBS[k % INT_JOBS.len()]);
        random_table(&mut cx, &mut rng, per_table);
        directed_strs(&mut cx, &mut rng, thorough, STR_JOBS[k % STR_JOBS.len()]);
        random_table(&mut cx, &mut rng, per_table);
        if k % 2 == 0 { directed_floats(&mut cx, &mut rng, thorough, FLOAT_JOBS[(k / 2) % FLOAT_JOBS.len()]); }
        if k % 2 == 1 { likes(&mut cx, &mut rng, thorough, STR_JOBS[(k / 2) % STR_JOBS.len()]); }
        for _ in 0..(if thorough { 6 } else { 2 }) { if !cx.over() { random_table(&mut cx, &mut rng, per_table); } }
    }
    eprintln!("c03: {} cases, {} rebuilds, {:.1}s", cx.cases.n, cx.rebuilds, cx.t0.elapsed().as_secs_f64());
    cx.cases.finish();
}
