//! C03: WHERE keeps exactly the rows for which the predicate is true.
//! `SELECT id FROM t WHERE <pred>` on generated tables in several physical layouts; the Lean
//! specification (Kleene row-at-a-time evaluator) computes the expected ids.
use vharness::qcommon::*;
use vharness::*;

fn main() {
    let args = parse_args();
    quiet_panics();
    let mut rng = Rng::new(args.seed);
    let mut cases = Cases::create(&args.out);
    let (tables, per_table) = if args.thorough() { (500, 40) } else { (70, 25) };
    for _ in 0..tables {
        let n = *rng.pick(&[1usize, 2, 5, 8, 9, 16, 17, 33, 70]);
        let extra = 1 + rng.below(3) as usize;
        let t = gen_table(&mut rng, n, extra, true, true);
        let r = gen_realisation(&mut rng, n, true);
        let db = realise(&t, &r);
        let ttok = t.tok();
        for _ in 0..per_table {
            let depth = rng.below(4) as u32;
            let (p, class) = gen_pred(&mut rng, &t, depth, true);
            let q = format!("SELECT id FROM t WHERE {}", p.sql(&t.names));
            let out = query(&db, &q);
            let model_line = format!("where {} {}", p.rpn(), ttok);
            let shape = if class.len() > 60 { format!("tree:{}", p.shape().chars().filter(|c| "&|!".contains(*c)).collect::<String>()) } else { class };
            cases.push(&format!("{}|p{}", shape, r.partitions().min(3)), &model_line, &ids_tok(&out), &format!("{} | {} | {} | {}", q, t.type_tag(), r.tag(), out.detail()));
        }
    }
    cases.finish();
}
