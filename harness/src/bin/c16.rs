//! C16: client/server encodings are lossless.
//!
//! Three streams of cases, each run on the real code:
//!   `ints`  — `MultiQueryResponse{QueryResponse{Column::Int}}` serialize → (layout observed through the capnp
//!             reader) → deserialize;
//!   `rows` / `wire` — `TableBuffer::push_row_and_timestamp` (row API) resp. the capnp wire builder, then
//!             `EventBuffer::serialize → deserialize` and the server-side `InputColumn::from_column_data`;
//!   `xor`   — `xor_float::double::encode / decode`, bytes and decoded bit patterns.
//!   `client` — the real `LoggingClient` (`log` → buffer → `create_request_data` → POST `/insert_bin`) against a local
//!             capture endpoint; every request body is decoded the way the server's `/insert_bin` handler does
//!             (`EventBuffer::deserialize`, then `from_column_data` per column as in `ingest_efficient`).
//! The model line carries the inputs and, after ` :: `, the implementation output (the specification is a
//! relation between input and implementation output, judged by the Lean driver).
use std::collections::{BTreeMap, HashMap};
use std::panic::{catch_unwind, AssertUnwindSafe};

use vharness::locustdb::verif::ingest::input_column::InputColumn;
use vharness::locustdb::Value;
use vharness::locustdb_serialization::api::{AnyVal, Column, MultiQueryResponse, QueryResponse};
use vharness::locustdb_serialization::api_capnp;
use vharness::locustdb_serialization::event_buffer::{ColumnData, EventBuffer, TableBuffer};
use vharness::*;

// ------------------------------------------------------------------------------------------------
// ints

fn ilist<T: std::fmt::Display>(xs: impl Iterator<Item = T>) -> String {
    let v: Vec<String> = xs.map(|x| x.to_string()).collect();
    if v.is_empty() { "[]".into() } else { v.join(",") }
}

/// The union member chosen by the real serializer, read back through the capnp reader.
fn observe_layout(bytes: &[u8]) -> String {
    let reader = capnp::serialize_packed::read_message(bytes, vharness::locustdb_serialization::default_reader_options()).unwrap();
    let mqr = reader.get_root::<api_capnp::multi_query_response::Reader>().unwrap();
    let resp = mqr.get_responses().unwrap().get(0);
    let col = resp.get_columns().unwrap().get(0);
    use api_capnp::column::data::Which;
    match col.get_data().which().unwrap() {
        Which::I64(xs) => format!("plain:{}", ilist(xs.unwrap().iter())),
        Which::Range(r) => format!("range:{}:{}:{}", r.get_start(), r.get_len(), r.get_step()),
        Which::DeltaEncodedI8(d) => format!("d8:{}:{}", d.get_first(), ilist(d.get_data().unwrap().iter())),
        Which::DeltaEncodedI16(d) => format!("d16:{}:{}", d.get_first(), ilist(d.get_data().unwrap().iter())),
        Which::DeltaEncodedI32(d) => format!("d32:{}:{}", d.get_first(), ilist(d.get_data().unwrap().iter())),
        Which::DoubleDeltaEncodedI8(d) => format!("dd8:{}:{}:{}", d.get_first(), d.get_second(), ilist(d.get_data().unwrap().iter())),
        Which::DoubleDeltaEncodedI16(d) => format!("dd16:{}:{}:{}", d.get_first(), d.get_second(), ilist(d.get_data().unwrap().iter())),
        Which::DoubleDeltaEncodedI32(d) => format!("dd32:{}:{}:{}", d.get_first(), d.get_second(), ilist(d.get_data().unwrap().iter())),
        _ => "other".to_string(),
    }
}

fn run_ints(xs: &[i64]) -> String {
    let resp = MultiQueryResponse {
        responses: vec![QueryResponse { columns: HashMap::from([("c".to_string(), Column::Int(xs.to_vec()))]) }],
    };
    let bytes = match catch_unwind(AssertUnwindSafe(|| resp.serialize())) {
        Ok(b) => b,
        Err(_) => return "panic-enc".to_string(),
    };
    let layout = observe_layout(&bytes);
    let decoded = match catch_unwind(AssertUnwindSafe(|| MultiQueryResponse::deserialize(&bytes))) {
        Err(_) => "panic-dec".to_string(),
        Ok(Err(_)) => "err-dec".to_string(),
        Ok(Ok(m)) => match m.responses.get(0).and_then(|r| r.columns.get("c")) {
            Some(Column::Int(v)) => format!("ok:{}", ilist(v.iter())),
            _ => "wrong-type".to_string(),
        },
    };
    format!("{} => {}", layout, decoded)
}

fn layout_class(out: &str) -> String {
    let lay = out.split(':').next().unwrap_or("?").split(' ').next().unwrap_or("?");
    let res = if out.contains("=> ok:") { "ok" } else if out.contains("panic-dec") { "panic-dec" } else if out == "panic-enc" { "panic-enc" } else { "other" };
    format!("ints:{}:{}", lay, res)
}

fn push_ints(cases: &mut Cases, xs: &[i64], note: &str) {
    let out = run_ints(xs);
    let len_class = match xs.len() { 0 => "n0", 1 => "n1", 2 => "n2", 3 => "n3", _ => "n4+" };
    cases.push(&format!("{}:{}", layout_class(&out), len_class), &format!("ints {} :: {}", ilist(xs.iter()), out), &out, note);
}

const I_EDGES: &[i64] = &[0, 1, -1, 127, 128, -128, -129, 32767, 32768, -32768, -32769, 2147483647, 2147483648, -2147483648, -2147483649,
    i64::MAX, i64::MAX - 1, i64::MIN, i64::MIN + 1, 1 << 62, -(1 << 62)];
const BOUNDS: &[i64] = &[127, 128, -128, -129, 32767, 32768, -32768, -32769, 2147483647, 2147483648, -2147483648, -2147483649, 126, -127, 0, 1, -1];

fn walk(start: i64, deltas: &[i64]) -> Option<Vec<i64>> {
    let mut v = vec![start];
    let mut cur = start;
    for d in deltas { cur = cur.checked_add(*d)?; v.push(cur); }
    Some(v)
}

fn gen_ints(cases: &mut Cases, rng: &mut Rng, thorough: bool) {
    // witnesses of the two fixed findings first (kept so that a regression is reported again)
    push_ints(cases, &[i64::MIN, i64::MAX, 0], "witness of fixed finding api-delta-i64-overflow (serializer panicked)");
    push_ints(cases, &[i64::MIN, -1, i64::MAX - 1], "witness of fixed finding api-range-decode-mul-overflow (Range decoder panicked)");
    push_ints(cases, &[i64::MIN, 0, i64::MAX], "first differences overflow i64, second difference fits i8: double-delta with wrapped first differences");
    push_ints(cases, &[i64::MIN, i64::MAX], "two values whose difference overflows i64: double-delta i8 with empty data");
    push_ints(cases, &[i64::MAX, i64::MIN, i64::MAX, i64::MIN], "alternating extremes: plain");
    push_ints(cases, &[0, i64::MAX, -2, i64::MAX - 2], "second differences overflow i64");
    push_ints(cases, &[i64::MAX, 0, -i64::MAX], "range with step -MAX");
    // all sequences of length 0..2 over the small edge alphabet; length 3 over a smaller one
    let small: &[i64] = &[0, 1, -1, 127, 128, -128, -129, i64::MAX, i64::MIN, 32768, -2147483649, 1 << 62];
    push_ints(cases, &[], "len0");
    for a in small { push_ints(cases, &[*a], "len1"); }
    for a in small { for b in small { push_ints(cases, &[*a, *b], "len2"); } }
    let tiny: &[i64] = if thorough { small } else { &[0, 1, -128, 127, i64::MAX, i64::MIN] };
    for a in tiny { for b in tiny { for c in tiny { push_ints(cases, &[*a, *b, *c], "len3 exhaustive"); } } }
    if thorough {
        let t4: &[i64] = &[0, 1, -129, 128, i64::MAX, i64::MIN];
        for a in t4 { for b in t4 { for c in t4 { for d in t4 { push_ints(cases, &[*a, *b, *c, *d], "len4 exhaustive"); } } } }
    }
    // first differences exactly at the i8/i16/i32 boundaries (delta layouts), from several starts
    let starts = [0i64, -5, i64::MIN, i64::MAX, 1 << 40, i64::MIN + 200, i64::MAX - 200];
    for &b in BOUNDS {
        for &c in BOUNDS {
            for &s in &starts {
                if let Some(v) = walk(s, &[b, c]) { push_ints(cases, &v, "delta boundary pair"); }
                if let Some(v) = walk(s, &[b, c, b]) { push_ints(cases, &v, "delta boundary triple"); }
                if !thorough && s == -5 { break; }
            }
        }
    }
    // second differences exactly at the boundaries (double-delta layouts): deltas d, d+b, d+b+c
    let bases = [1i64 << 33, -(1 << 33), 1 << 20, 40000, 300, 0, 1 << 50];
    for &b in BOUNDS {
        for &c in BOUNDS {
            for &d in &bases {
                let ds = [d, d.wrapping_add(b), d.wrapping_add(b).wrapping_add(c)];
                if let Some(v) = walk(-7, &ds) { push_ints(cases, &v, "second-difference boundary"); }
                if !thorough && d == 1 << 20 { break; }
            }
        }
    }
    // constant / arithmetic, including steps whose multiples overflow
    for &step in &[0i64, 1, -1, 127, 128, 1 << 31, 1 << 61, 1 << 62, i64::MAX / 2, i64::MAX / 2 + 1, -(1 << 62), i64::MAX, i64::MIN / 2] {
        for n in [2usize, 3, 4, 5, 9] {
            for &s in &[0i64, i64::MIN, i64::MAX, -3] {
                let mut v = vec![s]; let mut ok = true;
                for _ in 1..n { match v.last().unwrap().checked_add(step) { Some(x) => v.push(x), None => { ok = false; break; } } }
                if ok { push_ints(cases, &v, "arithmetic"); }
            }
        }
    }
    // random walks by delta class
    let n_rand = if thorough { 4000 } else { 400 };
    for _ in 0..n_rand {
        let n = *rng.pick(&[2usize, 3, 4, 5, 8, 17, 40]);
        let class = rng.below(8);
        let start = match rng.below(4) { 0 => 0, 1 => rng.range(-1000, 1000), 2 => rng.next() as i64, _ => *rng.pick(I_EDGES) };
        let mut v = vec![start];
        let mut d: i64 = match class { 4 | 5 | 6 => rng.range(-(1 << 34), 1 << 34), _ => 0 };
        for _ in 1..n {
            let step = match class {
                0 => rng.range(-128, 127),
                1 => rng.range(-32768, 32767),
                2 => rng.range(-2147483648, 2147483647),
                3 => rng.next() as i64,
                4 => { d = d.wrapping_add(rng.range(-128, 127)); d }
                5 => { d = d.wrapping_add(rng.range(-32768, 32767)); d }
                6 => { d = d.wrapping_add(rng.range(-2147483648, 2147483647)); d }
                _ => *rng.pick(BOUNDS),
            };
            let last = *v.last().unwrap();
            // keep most walks inside i64; a wrapped step yields an "extreme" pair whose difference overflows
            v.push(if rng.chance(1, 50) { last.wrapping_add(step) } else { last.checked_add(step).unwrap_or(last) });
        }
        push_ints(cases, &v, "random walk");
    }
    // arbitrary i64 (differences overflow about half of the time)
    for _ in 0..(if thorough { 500 } else { 60 }) {
        let n = 2 + rng.below(4) as usize;
        let v: Vec<i64> = (0..n).map(|_| if rng.chance(1, 3) { *rng.pick(I_EDGES) } else { rng.next() as i64 }).collect();
        push_ints(cases, &v, "arbitrary i64");
    }
}

// ------------------------------------------------------------------------------------------------
// event buffers

fn anyval_tok(v: &AnyVal) -> String {
    match v {
        AnyVal::Null => "_".into(),
        AnyVal::Int(i) => format!("i{}", i),
        AnyVal::Float(f) => format!("f{:016x}", f.to_bits()),
        AnyVal::Str(s) => hexs(s),
    }
}
fn value_tok(v: &Value) -> String { Cell::from_value(v).tok() }
fn fbits(f: f64) -> String { format!("{:016x}", f.to_bits()) }

/// Structural dump of the server-side column.
fn dump_input_column(ic: &InputColumn) -> String {
    match ic {
        InputColumn::Int(v) => format!("I:{}", ilist(v.iter())),
        InputColumn::Float(v) => format!("F:{}", ilist(v.iter().map(|f| fbits(*f)))),
        InputColumn::NullableFloat(rows, v) => format!("NF:{}:{}", rows, ilist(v.iter().map(|(i, f)| format!("{}@{}", i, fbits(*f))))),
        InputColumn::NullableInt(rows, v) => format!("NI:{}:{}", rows, ilist(v.iter().map(|(i, x)| format!("{}@{}", i, x)))),
        InputColumn::Str(v) => format!("T:{}", ilist(v.iter().map(|s| hexs(s)))),
        InputColumn::Null(n) => format!("N:{}", n),
        InputColumn::Mixed(v) => format!("M:{}", ilist(v.iter().map(value_tok))),
    }
}

/// Server side of one table: `from_column_data(col.data, table.len())` per column, sorted by name.
fn dump_server_table(tb: TableBuffer) -> String {
    let rows = tb.len() as u64;
    let cols: BTreeMap<String, ColumnData> = tb.into_columns().into_iter().map(|(k, v)| (k, v.data)).collect();
    let mut out = vec![format!("len={}", rows)];
    for (name, data) in cols {
        let d = match catch_unwind(AssertUnwindSafe(|| InputColumn::from_column_data(data, rows))) {
            Ok(ic) => dump_input_column(&ic),
            Err(_) => "panic".to_string(),
        };
        out.push(format!("{}={}", name, d));
    }
    out.join(" ")
}

/// serialize → deserialize with the real code; `None` if the table vanished.
fn through_wire(eb: &EventBuffer, table: &str) -> Option<TableBuffer> {
    let bytes = eb.serialize();
    let mut back = EventBuffer::deserialize(&bytes).ok()?;
    back.tables.remove(table)
}

type Row = Vec<(String, AnyVal)>;

fn row_tok(r: &Row) -> String {
    if r.is_empty() { "()".into() } else { r.iter().map(|(k, v)| format!("{}={}", k, anyval_tok(v))).collect::<Vec<_>>().join(",") }
}

fn clock_at(data: &ColumnData, i: usize) -> u64 {
    match data {
        ColumnData::Dense(d) => d.get(i).map(|f| f.to_bits()).unwrap_or(0),
        ColumnData::Sparse(d) => d.iter().find(|(j, _)| *j as usize == i).map(|(_, f)| f.to_bits()).unwrap_or(0),
        _ => 0,
    }
}

fn run_rows(cases: &mut Cases, rows: &[Row], note: &str) {
    let mut tb = TableBuffer::default();
    let mut panicked_at = None;
    for (i, r) in rows.iter().enumerate() {
        let r2 = r.clone();
        if catch_unwind(AssertUnwindSafe(|| { tb.push_row_and_timestamp(r2); })).is_err() { panicked_at = Some(i); break; }
    }
    // the clock is an input of the model: read the values the implementation used back from the buffer
    let ts: Option<ColumnData> = tb.columns().find(|(k, _)| k.as_str() == "timestamp").map(|(_, c)| c.data.clone());
    let clock: Vec<String> = rows.iter().enumerate().map(|(i, r)| {
        if r.iter().any(|(k, _)| k == "timestamp") || panicked_at.is_some() { fbits(0.0) }
        else { format!("{:016x}", ts.as_ref().map(|d| clock_at(d, i)).unwrap_or(0)) }
    }).collect();
    let out = match panicked_at {
        Some(i) => format!("panic-push@{}", i),
        None => {
            let mut eb = EventBuffer::default();
            eb.tables.insert("t".to_string(), tb);
            match through_wire(&eb, "t") { Some(t) => dump_server_table(t), None => "lost-table".into() }
        }
    };
    let class = {
        let kinds: Vec<&str> = out.split(' ').skip(1).map(|c| c.split('=').nth(1).unwrap_or("?").split(':').next().unwrap_or("?")).collect();
        let mut k: Vec<&str> = kinds.clone(); k.sort(); k.dedup();
        if out.starts_with("panic") { "rows:panic-push".to_string() } else { format!("rows:{}", k.join("+")) }
    };
    let line = format!("rows {} {} :: {}", ilist(clock.iter()), if rows.is_empty() { "[]".to_string() } else { rows.iter().map(row_tok).collect::<Vec<_>>().join(" ") }, out);
    cases.push(&class, &line, &out, note);
}

const EB_INTS: &[i64] = &[0, 1, -1, 7, 9007199254740992, 9007199254740993, 9007199254740995, -9007199254740993, i64::MAX, i64::MIN, i64::MAX - 1,
    4611686018427387905, 1152921504606846977, 36028797018963967, 36028797018963966, 18014398509481985, -4611686018427388417, 9223372036854775295, 9223372036854775296];
const EB_FLOAT_BITS: &[u64] = &[0, 0x8000000000000000, 0x3ff0000000000000, 0x7ff0000000000000, 0xfff0000000000000, 0x7ff8000000000001, 0x7ffaaaaaaaaaaaaa,
    0xfff8dead0000beef, 1, 0x000fffffffffffff, 0x4059000000000000];

fn gen_val(rng: &mut Rng, kind: u64) -> AnyVal {
    match kind {
        0 => AnyVal::Int(if rng.chance(1, 2) { *rng.pick(EB_INTS) } else if rng.chance(1, 2) { rng.range(-100, 100) } else { rng.next() as i64 }),
        1 => AnyVal::Float(f64::from_bits(if rng.chance(2, 3) { *rng.pick(EB_FLOAT_BITS) } else { rng.next() })),
        2 => AnyVal::Str(rng.pick(STR_POOL).to_string()),
        _ => AnyVal::Null,
    }
}

/// Column behaviour over the rows of one table.
#[derive(Clone, Copy)]
enum ColPlan { Ints, Floats, IntsThenFloats, Numeric, Strs, StrsGappy, Anything }

fn plan_val(rng: &mut Rng, plan: ColPlan, i: usize, n: usize, gap: u64) -> Option<AnyVal> {
    // gap: 0 = never absent, else absent/null with probability 1/gap
    let absent = gap > 0 && rng.chance(1, gap);
    match plan {
        ColPlan::Strs => Some(gen_val(rng, 2)),
        _ if absent => if rng.chance(1, 2) { None } else { Some(AnyVal::Null) },
        ColPlan::Ints => Some(gen_val(rng, 0)),
        ColPlan::Floats => Some(gen_val(rng, 1)),
        ColPlan::IntsThenFloats => Some(gen_val(rng, if i * 2 < n { 0 } else { 1 })),
        ColPlan::Numeric => { let k = rng.below(2); Some(gen_val(rng, k)) }
        ColPlan::StrsGappy => Some(gen_val(rng, 2)),
        ColPlan::Anything => { let k = rng.below(4); Some(gen_val(rng, k)) }
    }
}

fn gen_rows(cases: &mut Cases, rng: &mut Rng, thorough: bool) {
    use AnyVal::*;
    let s = |x: &str| x.to_string();
    // hand-written shapes
    run_rows(cases, &[], "no rows");
    run_rows(cases, &[vec![]], "one empty row: only the implicit timestamp");
    run_rows(cases, &[vec![(s("a"), Int(1))], vec![], vec![(s("a"), Int(3))]], "int column with a hole becomes SparseI64");
    run_rows(cases, &[vec![(s("a"), Int(1))], vec![(s("a"), Int(2))], vec![]], "short dense int column is NULL padded");
    run_rows(cases, &[vec![(s("a"), Int(9007199254740993))], vec![(s("a"), Float(0.5))]], "int promoted to float (rounding)");
    run_rows(cases, &[vec![], vec![(s("a"), Int(i64::MAX))], vec![(s("a"), Float(-0.0))]], "sparse int promoted to sparse float");
    run_rows(cases, &[vec![(s("s"), Str(s("x")))], vec![]], "string column with a missing last row: server-side assert");
    run_rows(cases, &[vec![], vec![(s("s"), Str(s("x")))]], "string column starting late: client-side assert");
    run_rows(cases, &[vec![(s("s"), Str(s("x")))], vec![(s("s"), Int(1))]], "string then int: unimplemented!");
    run_rows(cases, &[vec![(s("timestamp"), Int(5))], vec![]], "supplied int timestamp then implicit float timestamp");
    run_rows(cases, &[vec![(s("timestamp"), Null)], vec![]], "explicit NULL timestamp suppresses the implicit one");
    run_rows(cases, &[vec![(s("a"), Null)]], "a column that only ever saw NULL is transmitted as Empty");
    // exhaustive small shapes: one column `a`, every row one of {absent, Null, Int, Float, Str}
    let alphabet: Vec<Option<AnyVal>> = vec![None, Some(Null), Some(Int(9007199254740993)), Some(Float(1.5)), Some(Str(s("q")))];
    let max_len = if thorough { 5 } else { 4 };
    for len in 1..=max_len {
        let total = alphabet.len().pow(len as u32);
        for code in 0..total {
            let mut c = code;
            let mut rows: Vec<Row> = vec![];
            for _ in 0..len {
                let v = &alphabet[c % alphabet.len()]; c /= alphabet.len();
                let mut r: Row = vec![(s("timestamp"), Float(0.0))];
                if let Some(v) = v { r.push((s("a"), v.clone())); }
                rows.push(r);
            }
            run_rows(cases, &rows, "exhaustive one-column shapes");
        }
    }
    // random tables
    let plans = [ColPlan::Ints, ColPlan::Floats, ColPlan::IntsThenFloats, ColPlan::Numeric, ColPlan::Strs, ColPlan::StrsGappy, ColPlan::Anything];
    let n_tables = if thorough { 3000 } else { 300 };
    for _ in 0..n_tables {
        let n = *rng.pick(&[1usize, 2, 3, 4, 6, 9]);
        let names = ["a", "b", "c", "timestamp"];
        let ncols = 1 + rng.below(4) as usize;
        let cols: Vec<(&str, ColPlan, u64)> = (0..ncols).map(|j| {
            let mut plan = *rng.pick(&plans);
            if matches!(plan, ColPlan::Anything) && rng.chance(2, 3) { plan = ColPlan::Numeric; }
            (names[j], plan, *rng.pick(&[0u64, 0, 2, 4]))
        }).collect();
        let mut rows: Vec<Row> = vec![];
        for i in 0..n {
            let mut r: Row = vec![];
            for (name, plan, gap) in &cols {
                if let Some(v) = plan_val(rng, *plan, i, n, *gap) { r.push((name.to_string(), v)); }
            }
            rows.push(r);
        }
        run_rows(cases, &rows, "random table");
    }
}

// ------------------------------------------------------------------------------------------------
// wire schema

fn rep_tok(rep: &ColRep) -> String {
    match rep {
        ColRep::Empty => "E".into(),
        ColRep::Dense(v) => format!("D:{}", ilist(v.iter().map(|f| fbits(*f)))),
        ColRep::Sparse(v) => format!("S:{}", ilist(v.iter().map(|(i, f)| format!("{}@{}", i, fbits(*f))))),
        ColRep::I64(v) => format!("I:{}", ilist(v.iter())),
        ColRep::SparseI64(v) => format!("SI:{}", ilist(v.iter().map(|(i, x)| format!("{}@{}", i, x)))),
        ColRep::Str(v) => format!("T:{}", ilist(v.iter().map(|s| hexs(s)))),
        ColRep::Mixed(v) => format!("M:{}", ilist(v.iter().map(|c| c.tok()))),
    }
}

fn run_wire(cases: &mut Cases, len: u64, cols: Vec<(String, ColRep)>, note: &str) {
    let batch = Batch { table: "t".into(), len, cols: cols.clone() };
    let other = Batch { table: "u".into(), len: 1, cols: vec![("z".into(), ColRep::I64(vec![1]))] };
    // client message built through the capnp schema, decoded by the real server-side reader
    let eb = event_buffer(&[other, batch]);
    let direct = eb.tables.get("t").cloned().map(dump_server_table).unwrap_or_else(|| "lost-table".into());
    // and once more through the real serializer
    let again = through_wire(&eb, "t").map(dump_server_table).unwrap_or_else(|| "lost-table".into());
    let out = if direct == again { direct } else { format!("reserialize-differs {} <> {}", direct, again) };
    let mut kinds: Vec<&str> = cols.iter().map(|c| c.1.kind()).collect(); kinds.sort(); kinds.dedup();
    let class = format!("wire:{}{}", kinds.join("+"), if out.contains("=panic") { ":panic" } else { "" });
    let mut sorted = cols.clone(); sorted.sort_by(|a, b| a.0.cmp(&b.0));
    let line = format!("wire {} {} :: {}", len, if sorted.is_empty() { "[]".to_string() } else { sorted.iter().map(|(n, r)| format!("{}={}", n, rep_tok(r))).collect::<Vec<_>>().join(" ") }, out);
    cases.push(&class, &line, &out, note);
}

fn gen_cell(rng: &mut Rng) -> Cell {
    match rng.below(4) {
        0 => Cell::Int(if rng.chance(1, 2) { *rng.pick(EB_INTS) } else { rng.next() as i64 }),
        1 => Cell::Float(if rng.chance(1, 2) { *rng.pick(EB_FLOAT_BITS) } else { rng.next() }),
        2 => Cell::Str(rng.pick(STR_POOL).to_string()),
        _ => Cell::Null,
    }
}

fn gen_rep(rng: &mut Rng, len: u64, wellformed: bool) -> ColRep {
    let n = len as usize;
    let short = |rng: &mut Rng| if n == 0 { 0 } else { match rng.below(4) { 0 => n, 1 => n - 1, 2 => rng.below(n as u64 + 1) as usize, _ => n } };
    let fl = |rng: &mut Rng| f64::from_bits(if rng.chance(1, 2) { *rng.pick(EB_FLOAT_BITS) } else { rng.next() });
    let it = |rng: &mut Rng| if rng.chance(1, 2) { *rng.pick(EB_INTS) } else { rng.next() as i64 };
    let idx = |rng: &mut Rng| -> Vec<u64> {
        if wellformed { (0..len).filter(|_| rng.chance(1, 2)).collect() }
        else { (0..rng.below(n as u64 + 2)).map(|_| rng.below(len + 2)).collect() }
    };
    match rng.below(7) {
        0 => ColRep::Empty,
        1 => { let k = if wellformed { short(rng) } else { rng.below(n as u64 + 3) as usize }; ColRep::Dense((0..k).map(|_| fl(rng)).collect()) }
        2 => ColRep::Sparse(idx(rng).into_iter().map(|i| (i, fl(rng))).collect()),
        3 => { let k = if wellformed { short(rng) } else { rng.below(n as u64 + 3) as usize }; ColRep::I64((0..k).map(|_| it(rng)).collect()) }
        4 => ColRep::SparseI64(idx(rng).into_iter().map(|i| (i, it(rng))).collect()),
        5 => { let k = if wellformed || rng.chance(1, 2) { n } else { rng.below(n as u64 + 2) as usize }; ColRep::Str((0..k).map(|_| rng.pick(STR_POOL).to_string()).collect()) }
        _ => { let k = if wellformed || rng.chance(1, 2) { n } else { rng.below(n as u64 + 2) as usize }; ColRep::Mixed((0..k).map(|_| gen_cell(rng)).collect()) }
    }
}

fn gen_wire(cases: &mut Cases, rng: &mut Rng, thorough: bool) {
    run_wire(cases, 0, vec![], "empty table");
    run_wire(cases, 3, vec![("a".into(), ColRep::Empty)], "Empty → Null(rows)");
    run_wire(cases, 3, vec![("a".into(), ColRep::I64(vec![1, 2]))], "short dense → NULL padding");
    run_wire(cases, 3, vec![("a".into(), ColRep::Dense(vec![1.0, 2.0, 3.0]))], "full dense");
    run_wire(cases, 3, vec![("a".into(), ColRep::Str(vec!["x".into()]))], "short string column: assert");
    // every short-dense length for small row counts
    for len in 0..=4u64 {
        for k in 0..=len as usize {
            run_wire(cases, len, vec![("i".into(), ColRep::I64((0..k as i64).map(|x| x * 3 - 1).collect())), ("f".into(), ColRep::Dense((0..k).map(|x| x as f64 * 0.5).collect()))], "dense prefix of every length");
        }
        // every subset of rows as a sparse column
        for mask in 0..(1u32 << len) {
            let idx: Vec<u64> = (0..len).filter(|i| mask >> i & 1 == 1).collect();
            run_wire(cases, len, vec![("si".into(), ColRep::SparseI64(idx.iter().map(|i| (*i, *i as i64 - 2)).collect())), ("sf".into(), ColRep::Sparse(idx.iter().map(|i| (*i, f64::from_bits(0x7ff8000000000000 + *i))).collect()))], "sparse subset");
        }
    }
    let n = if thorough { 3000 } else { 300 };
    for k in 0..n {
        let len = *rng.pick(&[0u64, 1, 2, 3, 5, 8]);
        let ncols = rng.below(4) as usize + 1;
        let wellformed = k % 4 != 0;
        let cols: Vec<(String, ColRep)> = (0..ncols).map(|j| (format!("c{}", j), gen_rep(rng, len, wellformed))).collect();
        run_wire(cases, len, cols, if wellformed { "random well-formed message" } else { "random message (lengths / indices unconstrained)" });
    }
}

// ------------------------------------------------------------------------------------------------
// xor float stream

fn run_xor(cases: &mut Cases, xs: &[u64], regret: u32, mantissa: Option<u32>, note: &str) {
    use vharness_xor::double::{decode, encode};
    let floats: Vec<f64> = xs.iter().map(|b| f64::from_bits(*b)).collect();
    let out = match catch_unwind(AssertUnwindSafe(|| encode(&floats, regret, mantissa))) {
        Err(_) => "panic-enc".to_string(),
        Ok(bytes) => {
            let dec = match catch_unwind(AssertUnwindSafe(|| decode(&bytes))) {
                Err(_) => "panic-dec".to_string(),
                Ok(Err(_)) => "err-dec".to_string(),
                Ok(Ok(v)) => format!("ok:{}", ilist(v.iter().map(|f| fbits(*f)))),
            };
            format!("{} => {}", hexb(&bytes), dec)
        }
    };
    let class = format!("xor:{}:{}:{}", match xs.len() { 0 => "n0", 1 => "n1", 2 => "n2", _ => "n3+" },
        match mantissa { None => "full".to_string(), Some(m) if m > 52 => "m>52".to_string(), Some(m) => format!("m{}", m / 13 * 13) },
        match regret { 0 => "r0", 1..=99 => "r1-99", 100 => "r100", _ => "r>100" });
    let line = format!("xor {} {} {} :: {}", regret, mantissa.map(|m| m.to_string()).unwrap_or("_".into()), ilist(xs.iter().map(|b| format!("{:016x}", b))), out);
    cases.push(&class, &line, &out, note);
}

const X_EDGES: &[u64] = &[0, 0x8000000000000000, 0x3ff0000000000000, 0xbff0000000000000, 0x7ff0000000000000, 0xfff0000000000000,
    0x7ff8000000000000, 0x7ff8000000000001, 0x7ffaaaaaaaaaaaaa, 0xfff8dead0000beef, 0x7ff0000000000001, 1, 2, 0x000fffffffffffff, 0x0010000000000000,
    0xffffffffffffffff, 0x00000001ffffffff, 0x0000000100000000, 0x00000000ffffffff, 0x0000000080000000, 0x4059000000000000, 0x4059000000000001,
    0x4059100000000000, 0x3fb999999999999a, 0x8000000000000001, 0x4000000000000000];

fn gen_xor(cases: &mut Cases, rng: &mut Rng, thorough: bool) {
    let regrets = [0u32, 1, 2, 30, 99, 100];
    run_xor(cases, &[], 100, None, "empty");
    for &a in X_EDGES { run_xor(cases, &[a], 100, None, "single"); }
    // all pairs / short sequences over the edge alphabet
    for &a in X_EDGES { for &b in X_EDGES { run_xor(cases, &[a, b], *rng.pick(&regrets), None, "edge pair"); } }
    let small: &[u64] = if thorough { &X_EDGES[..12] } else { &[0, 0x8000000000000000, 0x3ff0000000000000, 0x7ff8000000000001, 0xffffffffffffffff, 0x0000000100000000, 1] };
    for &a in small { for &b in small { for &c in small {
        run_xor(cases, &[a, b, c], *rng.pick(&regrets), None, "edge triple");
        if thorough { for &d in small { run_xor(cases, &[a, b, c, d], *rng.pick(&regrets), None, "edge quadruple"); } }
    } } }
    // windows: xor patterns with chosen leading / trailing zero counts (incl. the cap at 31 leading zeros)
    for lz in [0u32, 1, 11, 12, 30, 31, 32, 33, 40, 52, 62, 63] {
        for tz in [0u32, 1, 20, 31, 32, 52, 63] {
            if lz + tz > 63 { continue; }
            let width = 64 - lz - tz;
            let pat = if width == 64 { u64::MAX } else { ((1u64 << width) - 1) << tz };
            let edge = (1u64 << (63 - lz)) | (1u64 << tz);
            for &r in &[0u32, 2, 100] {
                let base = 0x4059000000000000u64;
                run_xor(cases, &[base, base ^ pat, base ^ pat ^ edge, base ^ edge, base, base ^ (edge >> 1 << 1)], r, None, "window shapes");
            }
        }
    }
    // mantissa 0..=52 (and the assert beyond)
    for m in 0..=54u32 {
        let xs = [0x4059000000000000u64, 0x4059000000000001, 0x40590000000fffff, 0xc059abcdef012345, 0x7ffaaaaaaaaaaaaa, 0x3ff0000000000000 | (1u64 << (52 - m.min(52))) >> 1, 0x3ff0000000000000 | (1u64 << (52 - m.min(52)))];
        run_xor(cases, &xs, 100, Some(m), "mantissa sweep");
        run_xor(cases, &xs[..2], 0, Some(m), "mantissa sweep pair");
    }
    // regret 0..=100 on a sequence that keeps re-using a wide window
    for r in 0..=101u32 {
        let mut xs = vec![0x4059000000000000u64, 0x4059ffffffffffff];
        for k in 0..12u64 { xs.push(0x4059000000000000 ^ ((k + 1) << 20)); }
        run_xor(cases, &xs, r, None, "regret sweep");
    }
    // random sequences by class
    let n = if thorough { 5000 } else { 500 };
    for _ in 0..n {
        let len = *rng.pick(&[2usize, 3, 4, 5, 8, 16, 33]);
        let class = rng.below(6);
        let mut cur = if rng.chance(1, 2) { *rng.pick(X_EDGES) } else { rng.next() };
        let xs: Vec<u64> = (0..len).map(|_| {
            cur = match class {
                0 => rng.next(),
                1 => if rng.chance(1, 2) { cur } else { cur ^ (1 << rng.below(64)) },
                2 => (f64::from_bits(cur) + rng.range(-3, 3) as f64 * 0.25).to_bits(),
                3 => *rng.pick(X_EDGES),
                4 => cur ^ ((rng.next() >> rng.below(64)) << rng.below(64)),
                _ => if rng.chance(1, 4) { cur ^ 0x8000000000000000 } else { cur.wrapping_add(rng.below(1 << 22)) },
            };
            cur
        }).collect();
        let regret = match rng.below(4) { 0 => 0, 1 => 100, 2 => rng.below(101) as u32, _ => *rng.pick(&[1000u32, u32::MAX, 5]) };
        let mantissa = if rng.chance(1, 3) { Some(rng.below(53) as u32) } else { None };
        run_xor(cases, &xs, regret, mantissa, "random");
    }
}


// ------------------------------------------------------------------------------------------------
// client: LoggingClient::log → background worker → POST /insert_bin (captured) → server-side decode

type Bodies = std::sync::Arc<std::sync::Mutex<HashMap<String, Vec<Vec<u8>>>>>;

async fn capture(path: actix_web::web::Path<String>, body: actix_web::web::Bytes, data: actix_web::web::Data<Bodies>) -> actix_web::HttpResponse {
    data.lock().unwrap().entry(path.into_inner()).or_default().push(body.to_vec());
    actix_web::HttpResponse::Ok().json(r#"{"status": "ok"}"#)
}

/// A local endpoint `POST /<case>/insert_bin` that records request bodies per case.
fn start_capture(store: Bodies) -> u16 {
    let (tx, rx) = std::sync::mpsc::channel();
    std::thread::spawn(move || {
        actix_web::rt::System::new().block_on(async move {
            let data = actix_web::web::Data::new(store);
            let srv = actix_web::HttpServer::new(move || {
                actix_web::App::new().app_data(data.clone()).app_data(actix_web::web::PayloadConfig::new(1 << 26))
                    .route("/{case}/insert_bin", actix_web::web::post().to(capture))
            }).workers(1).bind(("127.0.0.1", 0)).unwrap();
            tx.send(srv.addrs()[0].port()).unwrap();
            srv.run().await.unwrap();
        });
    });
    rx.recv().unwrap()
}

/// What `/insert_bin` makes of one request body: tables sorted by name, each decoded like `ingest_efficient` does.
fn dump_request(body: &[u8]) -> (String, usize) {
    match EventBuffer::deserialize(body) {
        Err(_) => ("undecodable".to_string(), 0),
        Ok(eb) => {
            let tables: BTreeMap<String, TableBuffer> = eb.tables.into_iter().collect();
            let rows: usize = tables.values().map(|t| t.len()).sum();
            (tables.into_iter().map(|(name, tb)| format!("{}:{}", hexs(&name), dump_server_table(tb))).collect::<Vec<_>>().join(" ;; "), rows)
        }
    }
}

struct ClientCtx { rt: tokio::runtime::Runtime, store: Bodies, port: u16, n: usize }

fn run_client(ctx: &mut ClientCtx, cases: &mut Cases, events: &[(String, Row)], interval_ms: u64, pauses: &[usize], note: &str) {
    use vharness::locustdb::logging_client::{BufferFullPolicy, LoggingClient};
    ctx.n += 1;
    let case = format!("c{}", ctx.n);
    let bodies = {
        let _guard = ctx.rt.enter();
        let mut client = LoggingClient::new(std::time::Duration::from_millis(interval_ms), &format!("http://127.0.0.1:{}/{}", ctx.port, case),
            1 << 30, BufferFullPolicy::Drop, None);
        for (i, (table, row)) in events.iter().enumerate() {
            client.log(table, row.clone());
            if pauses.contains(&i) { std::thread::sleep(std::time::Duration::from_millis(interval_ms * 4 + 5)); }
        }
        drop(client); // cancels the worker, waits until everything buffered has been sent
        ctx.store.lock().unwrap().remove(&case).unwrap_or_default()
    };
    let decoded: Vec<(String, usize)> = bodies.iter().map(|b| dump_request(b)).collect();
    // the split of the event sequence into requests depends on timing: it is an input of the model (like the clock)
    let sizes: Vec<usize> = decoded.iter().map(|d| d.1).collect();
    let out = if decoded.is_empty() { "none".to_string() } else { decoded.iter().map(|d| d.0.clone()).collect::<Vec<_>>().join(" ## ") };
    let evs = if events.is_empty() { "[]".to_string() } else { events.iter().map(|(t, r)| format!("{}|{}", hexs(t), row_tok(r))).collect::<Vec<_>>().join(" ") };
    let ntab = events.iter().map(|e| e.0.clone()).collect::<std::collections::BTreeSet<_>>().len();
    let class = format!("client:{}:{}", match ntab { 0 => "t0", 1 => "t1", 2 => "t2", _ => "t3+" }, match sizes.len() { 0 => "m0", 1 => "m1", _ => "m2+" });
    cases.push(&class, &format!("client {} {} :: {}", ilist(sizes.iter()), evs, out), &out, note);
}

const TABLE_POOL: &[&str] = &["t", "T", "u", "", "ünï", "a b", "a/b", "..", "tab.le", "_meta_tables"];

fn gen_client(cases: &mut Cases, rng: &mut Rng, thorough: bool) {
    use AnyVal::*;
    let store: Bodies = Default::default();
    let port = start_capture(store.clone());
    let rt = tokio::runtime::Builder::new_multi_thread().worker_threads(2).enable_all().build().unwrap();
    let mut ctx = ClientCtx { rt, store, port, n: 0 };
    let s = |x: &str| x.to_string();
    let ts = |i: usize| (s("timestamp"), Float(i as f64));
    let hour = 3_600_000u64;
    run_client(&mut ctx, cases, &[], hour, &[], "nothing logged: no request");
    run_client(&mut ctx, cases, &[(s("t"), vec![ts(0), (s("a"), Int(1))])], hour, &[], "one row, one table");
    run_client(&mut ctx, cases, &[(s("t"), vec![ts(0), (s("a"), Int(1))]), (s("u"), vec![ts(1), (s("a"), Str(s("x")))]), (s("t"), vec![ts(2)]),
        (s("t"), vec![ts(3), (s("a"), Float(0.5))])], hour, &[], "two tables interleaved; sparse int promoted to float");
    run_client(&mut ctx, cases, &[(s(""), vec![ts(0), (s("a"), Int(i64::MIN))]), (s("T"), vec![ts(1)]), (s("t"), vec![ts(2), (s("A"), Null)])], hour, &[], "empty table name, case pair, NULL-only column");
    run_client(&mut ctx, cases, &[(s("t"), vec![ts(0), (s("a"), Int(1))]), (s("t"), vec![ts(1), (s("a"), Int(2))]), (s("t"), vec![ts(2), (s("a"), Int(3))])], 2, &[0, 1],
        "a tick between rows: the second request starts from an empty buffer");
    let long = "L".repeat(300);
    run_client(&mut ctx, cases, &[(long.clone(), vec![ts(0), (s("a"), Int(7))])], hour, &[], "300-byte table name");
    let n = if thorough { 1200 } else { 120 };
    for k in 0..n {
        let ntab = 1 + rng.below(3) as usize;
        let tables: Vec<String> = (0..ntab).map(|_| rng.pick(TABLE_POOL).to_string()).collect();
        // per table: columns with a fixed plan (string columns are present in every row so that any split keeps them dense)
        let plans: Vec<Vec<(&str, ColPlan, u64)>> = tables.iter().map(|_| {
            let nc = rng.below(4) as usize;
            ["a", "b", "A", "a.b"][..nc].iter().map(|c| {
                let p = *rng.pick(&[ColPlan::Ints, ColPlan::Floats, ColPlan::IntsThenFloats, ColPlan::Numeric, ColPlan::Strs]);
                (*c, p, *rng.pick(&[0u64, 2, 3]))
            }).collect()
        }).collect();
        let nev = *rng.pick(&[1usize, 2, 3, 5, 8, 13]);
        let mut events: Vec<(String, Row)> = vec![];
        for i in 0..nev {
            let ti = rng.below(ntab as u64) as usize;
            // the same table name may have been drawn twice: use the plan of its first occurrence
            let ti = tables.iter().position(|t| *t == tables[ti]).unwrap();
            let mut row: Row = vec![ts(i)];
            for (name, plan, gap) in &plans[ti] {
                if let Some(v) = plan_val(rng, *plan, i, nev, *gap) { row.push((name.to_string(), v)); }
            }
            // column order within a row is arbitrary
            if rng.chance(1, 2) { row.reverse(); }
            events.push((tables[ti].clone(), row));
        }
        let ticking = k % 4 == 0;
        let pauses: Vec<usize> = if ticking { (0..nev).filter(|_| rng.chance(1, 3)).collect() } else { vec![] };
        run_client(&mut ctx, cases, &events, if ticking { 2 } else { hour }, &pauses, if ticking { "random events, worker ticking every 2 ms" } else { "random events, one request at drop" });
    }
}

use vharness_xor_reexport as vharness_xor;
mod vharness_xor_reexport { pub use locustdb_compression_utils::xor_float::*; }

fn main() {
    let args = parse_args();
    quiet_panics();
    let mut rng = Rng::new(args.seed);
    let mut cases = Cases::create(&args.out);
    let only = args.rest.first().cloned();
    let want = |k: &str| only.as_deref().map(|o| o == k).unwrap_or(true);
    if want("ints") { gen_ints(&mut cases, &mut rng.fork(), args.thorough()); }
    if want("rows") { gen_rows(&mut cases, &mut rng.fork(), args.thorough()); }
    if want("wire") { gen_wire(&mut cases, &mut rng.fork(), args.thorough()); }
    if want("xor") { gen_xor(&mut cases, &mut rng.fork(), args.thorough()); }
    if want("client") { gen_client(&mut cases, &mut rng.fork(), args.thorough()); }
    cases.finish();
}
