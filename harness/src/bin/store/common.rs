//! Shared helpers of the storage-history harnesses (c08, c13, c18): configurations, history steps,
//! canonical dumps of a database (tables, catalogue tables, directory listing, on-disk catalogue),
//! and the line protocol towards the Lean drivers (`LocustModel/Drv/StoreProto.lean`).
//!
//! Included with `#[path = "store_common.rs"] mod store_common;` (not a bin of its own).
#![allow(dead_code)]
use std::collections::BTreeMap;
use std::path::{Path, PathBuf};
use std::sync::Arc;
use std::time::{Duration, Instant};

use vharness::locustdb::verif::{BlobWriter, FileBlobWriter, MetaStore, VersionedChecksummedBlobWriter};
use vharness::locustdb::{LocustDB, Options};
use vharness::*;

// ---------------------------------------------------------------------------------------------
// Configuration of one history.
#[derive(Clone, Debug)]
pub struct Cfg {
    pub combine: u64,
    pub part_bytes: u64,
    pub io: usize,
    pub cthreads: usize,
    pub wal_files: usize,
    pub wal_bytes: u64,
    /// `Options::mem_lz4` (default true); false: columns loaded from partition files go through `lz4_or_pco_decode`
    pub mem_lz4: bool,
    /// harness only: record which storage layouts (pco / pco-f32 / lz4 / dictionary / packed strings …) the partition files use
    pub track_codecs: bool,
}

impl Cfg {
    pub fn plain() -> Cfg {
        let d = Options::default();
        Cfg { combine: d.partition_combine_factor, part_bytes: d.max_partition_size_bytes, io: 1, cthreads: 1, wal_files: d.max_wal_files, wal_bytes: d.max_wal_size_bytes,
              mem_lz4: true, track_codecs: false }
    }
    pub fn random(rng: &mut Rng, background: bool) -> Cfg {
        let d = Options::default();
        Cfg {
            combine: *rng.pick(&[0u64, 1, 1, 4, 4, 999]),
            part_bytes: *rng.pick(&[1u64, 64, 300, d.max_partition_size_bytes, d.max_partition_size_bytes]),
            io: *rng.pick(&[1usize, 4]),
            cthreads: *rng.pick(&[1usize, 2]),
            wal_files: if background && rng.chance(2, 3) { *rng.pick(&[0usize, 1, 2]) } else { d.max_wal_files },
            wal_bytes: if background && rng.chance(1, 2) { *rng.pick(&[1u64, 200, 600]) } else { d.max_wal_size_bytes },
            mem_lz4: !rng.chance(1, 3),
            track_codecs: false,
        }
    }
    /// Can a flush start without `force_flush` being called?
    pub fn background(&self) -> bool {
        let d = Options::default();
        self.wal_files < d.max_wal_files || self.wal_bytes < d.max_wal_size_bytes
    }
    pub fn options(&self, path: &Path) -> Options {
        Options {
            partition_combine_factor: self.combine,
            max_partition_size_bytes: self.part_bytes,
            io_threads: self.io,
            wal_flush_compaction_threads: self.cthreads,
            max_wal_files: self.wal_files,
            max_wal_size_bytes: self.wal_bytes,
            mem_lz4: self.mem_lz4,
            ..disk_options(path)
        }
    }
    /// `cfg <combine> <part_bytes> <io> <cthreads> <wal_files> <wal_bytes> <mem_lz4>`
    pub fn tok(&self) -> String {
        format!("{},{},{},{},{},{},{}", self.combine, self.part_bytes, self.io, self.cthreads, self.wal_files, self.wal_bytes, self.mem_lz4 as u8)
    }
    pub fn class(&self) -> String {
        format!("cf{}{}{}{}", self.combine, if self.part_bytes < 1000 { "+sub" } else { "" }, if self.background() { "+bg" } else { "" }, if self.mem_lz4 { "" } else { "+lz4off" })
    }
}

// ---------------------------------------------------------------------------------------------
// History steps.
#[derive(Clone, Debug)]
pub enum Step {
    Ingest(Vec<Batch>),
    Flush,
    Restart,
    /// one flush run step by step (parked at sync points) with other calls in between
    Inter(Inter),
}

impl Step {
    pub fn kind(&self) -> &'static str {
        match self { Step::Ingest(_) => "I", Step::Flush => "F", Step::Restart => "R", Step::Inter(_) => "Z" }
    }
}

/// How the flush of an `Inter` step is started.
#[derive(Clone, Debug)]
pub enum Trigger {
    /// a `force_flush()` call from a helper thread (it blocks until the flush thread answers)
    Request,
    /// an ingestion that crosses `max_wal_files` (the configuration must have `wal_files = 0`): the background thread flushes
    Background(Vec<Batch>),
}

/// What happens while the flush thread is parked at a sync point.
#[derive(Clone, Debug)]
pub enum Act {
    Ingest(Vec<Batch>),
    /// a further `force_flush()` call from another helper thread
    Request,
}

#[derive(Clone, Debug)]
pub struct Inter {
    pub trigger: Trigger,
    /// park points in flush order: index into `PARK_LABELS`, actions performed while the flush thread is parked there
    pub parks: Vec<(usize, Vec<Act>)>,
}

/// Sync points (all on the flush thread, all after the freeze block) where a flush is parked:
/// (label, short name, number of model steps of the flush completed there — 1 = freeze … 5 = delete_wal_segments,
///  is the label exactly a step boundary of the model)
pub const PARK_LABELS: &[(&str, &str, usize, bool)] = &[
    ("flush:freeze:after", "freeze", 1, true),
    ("flush:batching:done", "batching", 1, false),
    ("flush:persist:after", "persist", 1, false),
    ("flush:compaction:done", "compaction", 2, true),
    ("flush:meta:after", "meta", 3, true),
    ("flush:gc:partitions:after", "gcparts", 4, true),
    ("flush:gc:wal:after", "gcwal", 5, true),
];

/// One table share as a protocol token: `<hex table>:<nrows>:<hex col>=<cells>/<hex col>=<cells>` (cells `.`-separated).
pub fn batch_tok(b: &Batch) -> String {
    let cols: Vec<String> = b.cols.iter().map(|(n, rep)| {
        let cells = rep.cells(b.len);
        format!("{}={}", hexs(n), cells.iter().map(|c| c.tok()).collect::<Vec<_>>().join("."))
    }).collect();
    format!("{}:{}:{}", hexs(&b.table), b.len, cols.join("/"))
}

/// `I<share>;<share>…`
pub fn ingest_tok(batches: &[Batch]) -> String {
    format!("I{}", batches.iter().map(batch_tok).collect::<Vec<_>>().join(";"))
}

// ---------------------------------------------------------------------------------------------
// Name pools.
pub const TABLE_POOL: &[&str] = &["t", "u2", "Tab", "t.x-y", "größe"];

/// A column name longer than 64 bytes (not file-system safe => its sub-partition key is a hash).  The tail is
/// pseudo-random so that LZ4 does not shrink a string column holding it: compaction of an LZ4-compressed string
/// section panics in the flush pool (stringpack.rs:111, C07 decode path) — see `long_name_compressible`.
pub fn long_name() -> String {
    let mut r = Rng::new(77);
    let tail: String = (0..70).map(|_| (b'a' + r.below(26) as u8) as char).collect();
    format!("long_{}", tail)
}
pub fn long_name_compressible() -> String { format!("long_{}", "n".repeat(70)) }

/// Column-name pool of C13: case pairs, non-ASCII, > 64 bytes, names sorting before / after all others,
/// and the names the catalogue tables use themselves.
pub fn column_pool() -> Vec<String> {
    let mut v: Vec<String> = ["a", "A", "b", "B", "zeta", "Zeta", "ünï", "日本", "!first", "~last", "\u{10FFFF}end",
        "column_names", "column_name", "name", "timestamp", "with space", "q\"uote", "0", "_"].iter().map(|s| s.to_string()).collect();
    v.push(long_name());
    // a second long name; independent tail (two long names sharing a prefix make the catalogue's string column
    // LZ4-compressible, see long_name)
    let mut r = Rng::new(78);
    v.push(format!("Long_{}", (0..66).map(|_| (b'A' + r.below(26) as u8) as char).collect::<String>()));
    v
}

/// Plain pool (C08 / C18): short safe names.
pub fn plain_column_pool() -> Vec<String> {
    ["a", "b", "c", "d", "e_long_column_name", "f"].iter().map(|s| s.to_string()).collect()
}

/// The value kind of a column is a function of its name (a column never changes type inside one history;
/// type-divergent columns are C01 / C11 territory).
pub fn col_kind(name: &str) -> u8 {
    let mut h: u32 = 2166136261;
    for b in name.bytes() { h = (h ^ b as u32).wrapping_mul(16777619); }
    (h % 3) as u8
}

const STRS: &[&str] = &["", "a", "b", "ab", "Zebra", "ünï", "日本", "x y", "it's", "%", "q0", "zz top"];

/// Random cells for column `name` (ints / strings / floats by name), with NULLs when `nulls`.
pub fn gen_cells(rng: &mut Rng, name: &str, n: usize, nulls: bool) -> Vec<Cell> {
    let kind = col_kind(name);
    (0..n).map(|_| {
        if nulls && rng.chance(1, 4) { return Cell::Null; }
        match kind {
            0 => Cell::Int(rng.range(-50, 400)),
            1 => Cell::Str(rng.pick(STRS).to_string()),
            _ => Cell::f(rng.range(-40, 40) as f64 * 0.25),
        }
    }).collect()
}

/// A random request: shares for a non-empty subset of `tables`, each with a non-empty random column subset.
pub fn gen_request(rng: &mut Rng, tables: &[String], cols: &[String], nulls: bool, max_rows: u64) -> Vec<Batch> {
    let mut out = vec![];
    let mut picked: Vec<&String> = tables.iter().filter(|_| rng.chance(1, 2)).collect();
    if picked.is_empty() { picked.push(rng.pick(tables)); }
    for t in picked {
        let n = 1 + rng.below(max_rows);
        let mut cs: Vec<&String> = cols.iter().filter(|_| rng.chance(2, 5)).collect();
        if cs.is_empty() { cs.push(rng.pick(cols)); }
        let cols = cs.into_iter().map(|c| {
            let cells = gen_cells(rng, c, n as usize, nulls);
            let rep = if cells.iter().all(|x| *x == Cell::Null) { ColRep::Mixed(cells) } else { ColRep::from_cells(&cells, rng.next()) };
            (c.clone(), rep)
        }).collect();
        out.push(Batch { table: t.clone(), len: n, cols });
    }
    out
}

// ---------------------------------------------------------------------------------------------
// Running database.
pub struct Sut {
    pub path: PathBuf,
    pub cfg: Cfg,
    pub db: Option<Arc<LocustDB>>,
    /// first failure (`hang:<where>` / `panic:<where>`), sticky
    pub dead: Option<String>,
    pub panic_detail: String,
    /// seconds after which a call counts as a hang
    pub deadline: u64,
}

pub const STEP_DEADLINE_S: u64 = 60;

impl Sut {
    pub fn open(path: &Path, cfg: &Cfg) -> Sut {
        let mut s = Sut { path: path.to_path_buf(), cfg: cfg.clone(), db: None, dead: None, panic_detail: String::new(), deadline: STEP_DEADLINE_S };
        s.reopen();
        s
    }

    fn reopen(&mut self) {
        let opts = self.cfg.options(&self.path);
        match with_deadline(STEP_DEADLINE_S, move || Arc::new(LocustDB::new(&opts))) {
            None => self.dead = Some("hang:open".into()),
            Some(Err(p)) => { self.dead = Some("panic:open".into()); self.panic_detail = p; }
            Some(Ok(db)) => self.db = Some(db),
        }
    }

    pub fn alive(&self) -> bool { self.dead.is_none() && self.db.is_some() }

    pub fn apply(&mut self, step: &Step) {
        if !self.alive() { return; }
        match step {
            Step::Ingest(batches) => {
                let db = self.db.clone().unwrap();
                let ev = event_buffer(batches);
                match with_deadline(self.deadline, move || ingest_sync(&db, ev)) {
                    None => self.dead = Some("hang:ingest".into()),
                    Some(Err(p)) => { self.dead = Some("panic:ingest".into()); self.panic_detail = p; }
                    Some(Ok(())) => {}
                }
                if self.alive() { self.settle(); }
            }
            Step::Flush => {
                let db = self.db.clone().unwrap();
                match with_deadline(self.deadline, move || db.force_flush()) {
                    None => self.dead = Some("hang:flush".into()),
                    Some(Err(p)) => { self.dead = Some("panic:flush".into()); self.panic_detail = p; }
                    Some(Ok(())) => {}
                }
            }
            Step::Restart => {
                self.settle();
                self.db = None; // drop: LocustDB::drop -> stop()
                self.reopen();
            }
            Step::Inter(_) => unreachable!("interleaved flushes are run by run_inter"),
        }
    }

    /// Bytes accounted for the log by the implementation (`data.len()` of every segment = file size - 48 header bytes).
    pub fn wal_bytes_on_disk(&self) -> u64 {
        wal_files(&self.path).iter().map(|p| std::fs::metadata(p).map(|m| m.len().saturating_sub(48)).unwrap_or(0)).sum()
    }

    /// Is a background flush due (the conditions `enforce_wal_limit` polls)?
    pub fn background_due(&self) -> bool {
        let files = wal_files(&self.path).len();
        files > self.cfg.wal_files || self.wal_bytes_on_disk() > self.cfg.wal_bytes
    }

    /// Wait for quiescence: if the background thread is going to flush, wait until it is done
    /// (the last effect of a flush is the removal of the captured log segments).
    pub fn settle(&mut self) {
        if !self.cfg.background() { return; }
        let t0 = Instant::now();
        while self.background_due() {
            if t0.elapsed() > Duration::from_secs(STEP_DEADLINE_S) { self.dead = Some("hang:background-flush".into()); return; }
            std::thread::sleep(Duration::from_millis(20));
        }
        // the removal loop may still be running on io threads for a moment: stable listing twice
        let mut last = listing(&self.path);
        loop {
            std::thread::sleep(Duration::from_millis(15));
            let now = listing(&self.path);
            if now == last { break; }
            last = now;
            if t0.elapsed() > Duration::from_secs(STEP_DEADLINE_S) { break; }
        }
    }
}

/// Drive `LocustDB::ingest_efficient` (an `async fn` without await points) to completion with a no-op waker.
/// NOT `futures::executor::block_on`: after a restart the call loads column names with a nested
/// `futures::executor::block_on`, which panics ("cannot execute LocalPool executor from within another
/// executor") when the caller itself runs on the futures executor; the server drives it from tokio.
pub fn ingest_sync(db: &Arc<LocustDB>, ev: vharness::locustdb_serialization::event_buffer::EventBuffer) {
    use std::future::Future;
    let waker = futures::task::noop_waker();
    let mut cx = std::task::Context::from_waker(&waker);
    let mut fut = Box::pin(db.ingest_efficient(ev));
    loop {
        if let std::task::Poll::Ready(()) = fut.as_mut().poll(&mut cx) { return; }
        std::thread::sleep(Duration::from_millis(1));
    }
}

pub fn wal_files(path: &Path) -> Vec<PathBuf> {
    let mut v = vec![];
    if let Ok(rd) = std::fs::read_dir(path.join("wal")) {
        for e in rd.flatten() { v.push(e.path()); }
    }
    v
}

/// Recursive listing of regular files relative to `root`, sorted.
pub fn listing(root: &Path) -> Vec<String> {
    fn walk(dir: &Path, root: &Path, out: &mut Vec<String>) {
        if let Ok(rd) = std::fs::read_dir(dir) {
            for e in rd.flatten() {
                let p = e.path();
                if p.is_dir() { walk(&p, root, out); } else { out.push(p.strip_prefix(root).unwrap().to_string_lossy().to_string()); }
            }
        }
    }
    let mut out = vec![];
    walk(root, root, &mut out);
    out.sort();
    out
}

#[derive(Clone, Debug, PartialEq, Eq, PartialOrd, Ord)]
pub struct PartMeta { pub table: String, pub id: u64, pub offset: u64, pub len: u64, pub keys: Vec<String> }

/// The catalogue file as stored on disk: (cursor, partitions sorted by (table, offset, id)); `None` if absent / unreadable.
pub fn read_meta(root: &Path) -> Option<(u64, Vec<PartMeta>)> {
    let p = root.join("meta");
    if !p.exists() { return None; }
    let w = VersionedChecksummedBlobWriter::new(Box::new(FileBlobWriter::new()));
    let data = w.load(&p).ok()?;
    let ms = MetaStore::deserialize(&data).ok()?;
    let mut parts: Vec<PartMeta> = ms.partitions().map(|md| PartMeta {
        table: md.tablename.clone(), id: md.id, offset: md.offset as u64, len: md.len as u64,
        keys: md.subpartitions.iter().map(|s| s.subpartition_key.clone()).collect(),
    }).collect();
    parts.sort_by(|a, b| (&a.table, a.offset, a.id).cmp(&(&b.table, b.offset, b.id)));
    Some((ms.earliest_uncommited_wal_id(), parts))
}

/// `C<cursor>|<hex table>:<hex dir>:<id>:<offset>:<len>:<hex key>+<hex key>|…` or `C_` when there is no catalogue file.
pub fn meta_tok(m: &Option<(u64, Vec<PartMeta>)>) -> String {
    match m {
        None => "C_".into(),
        Some((cur, parts)) => {
            let mut s = format!("C{}", cur);
            for p in parts {
                let dir = vharness::locustdb::verif::verif_sanitize_table_name(&p.table);
                s.push_str(&format!("|{}:{}:{}:{}:{}:{}", hexs(&p.table), hexs(&dir), p.id, p.offset, p.len, p.keys.iter().map(|k| hexs(k)).collect::<Vec<_>>().join("+")));
            }
            s
        }
    }
}

/// Directory listing token: `L<hex path>,<hex path>…` (`L[]` when empty).
pub fn listing_tok(l: &[String]) -> String { format!("L{}", toks(l, |p| hexs(p))) }

/// File names the catalogue refers to (relative paths), computed with the implementation's own naming functions.
pub fn catalogue_files(parts: &[PartMeta]) -> Vec<String> {
    let mut v = vec![];
    for p in parts {
        let dir = vharness::locustdb::verif::verif_sanitize_table_name(&p.table);
        for k in &p.keys {
            v.push(format!("tables/{}/{}", dir, vharness::locustdb::verif::verif_partition_filename(p.id, k)));
        }
    }
    v.sort();
    v
}

pub fn quote_ident(t: &str) -> String { format!("\"{}\"", t.replace('"', "\"\"")) }

fn out_tok(o: &QOut) -> Option<String> {
    match o {
        QOut::Ok { .. } => None,
        QOut::Err(k) => Some(format!("err:{}", k)),
        QOut::Panic(_) => Some("panic".into()),
        QOut::Hang => Some("hang".into()),
    }
}

/// `SELECT * FROM t`: `<hex col>=<cells>/<hex col>=<cells>` columns sorted by name (bytes), cells in row order
/// (`.`-separated); `empty` for a result without rows and columns; `err:<kind>` / `panic` / `hang`.
pub fn select_star(db: &Arc<LocustDB>, table: &str) -> String {
    let o = query_full(db, &format!("SELECT * FROM {} LIMIT 1000000", quote_ident(table)), true, QUERY_DEADLINE_S);
    if let Some(e) = out_tok(&o) { return e; }
    if let QOut::Ok { colnames, rows: Some(rows), .. } = &o {
        let mut cols: BTreeMap<Vec<u8>, Vec<String>> = BTreeMap::new();
        for (i, n) in colnames.iter().enumerate() {
            let cells: Vec<String> = rows.iter().map(|r| r.get(i).map(|c| c.tok()).unwrap_or("?".into())).collect();
            let key = n.as_bytes().to_vec();
            if cols.contains_key(&key) {
                // duplicate output column: keep both visible
                let mut k2 = key.clone(); k2.extend_from_slice(b"\x00dup");
                cols.insert(k2, cells);
            } else { cols.insert(key, cells); }
        }
        if cols.is_empty() { return format!("empty{}", rows.len()); }
        return cols.iter().map(|(k, v)| format!("{}={}", hexb(k), v.join("."))).collect::<Vec<_>>().join("/");
    }
    "err:shape".into()
}

/// One string column as a sorted multiset of hex names (duplicates stay visible); NULLs as `_`.
pub fn name_column(db: &Arc<LocustDB>, table: &str, col: &str) -> String {
    let o = query_full(db, &format!("SELECT {} FROM {} LIMIT 1000000", col, quote_ident(table)), true, QUERY_DEADLINE_S);
    if let Some(e) = out_tok(&o) { return e; }
    if let QOut::Ok { rows: Some(rows), .. } = &o {
        let mut names: Vec<String> = rows.iter().map(|r| match r.get(0) { Some(Cell::Str(s)) => hexs(s), Some(c) => c.tok(), None => "?".into() }).collect();
        names.sort();
        return toks(&names, |s| s.clone());
    }
    "err:shape".into()
}

/// Set by c13: also dump `LocustDB::search_column_names(t, ".*")` per table (`SC<hex t>=<names>`, sorted multiset).
pub static DUMP_SEARCH: std::sync::atomic::AtomicBool = std::sync::atomic::AtomicBool::new(false);

/// `LocustDB::search_column_names(table, ".*")` as a sorted multiset of hex names.
pub fn search_names(db: &Arc<LocustDB>, table: &str) -> String {
    let db2 = db.clone();
    let t = table.to_string();
    match with_deadline(QUERY_DEADLINE_S, move || futures::executor::block_on(db2.search_column_names(&t, ".*")).map_err(|e| e.to_string())) {
        None => "hang".into(),
        Some(Err(_)) => "panic".into(),
        Some(Ok(Err(_))) => "err".into(),
        Some(Ok(Ok(names))) => { let mut v: Vec<String> = names.iter().map(|s| hexs(s)).collect(); v.sort(); toks(&v, |s| s.clone()) }
    }
}

/// Deadline of one dump query (generous: the machine is shared).
pub const QUERY_DEADLINE_S: u64 = 60;

/// Canonical dump of the logical state: user tables (sorted), table catalogue, column catalogues.
///   `T<hex t>=<select star>`  `MT=<names>`  `MC<hex t>=<names>`  (`SC<hex t>=<names>` when `DUMP_SEARCH`)
pub fn dump(db: &Arc<LocustDB>, tables: &[String]) -> String {
    let mut ts: Vec<&String> = tables.iter().collect();
    ts.sort_by(|a, b| a.as_bytes().cmp(b.as_bytes()));
    let mut out = vec![];
    for t in &ts { out.push(format!("T{}={}", hexs(t), select_star(db, t))); }
    out.push(format!("MT={}", name_column(db, "_meta_tables", "name")));
    for t in &ts { out.push(format!("MC{}={}", hexs(t), name_column(db, &format!("_meta_columns_{}", t), "column_name"))); }
    if DUMP_SEARCH.load(std::sync::atomic::Ordering::Relaxed) {
        for t in &ts { out.push(format!("SC{}={}", hexs(t), search_names(db, t))); }
    }
    out.join(" ")
}

pub fn sut_dump(s: &Sut, tables: &[String]) -> String {
    match (&s.dead, &s.db) {
        (Some(d), _) => d.clone(),
        (None, Some(db)) => dump(db, tables),
        _ => "closed".into(),
    }
}

/// Tables mentioned by the first `n` steps.
pub fn tables_of(steps: &[Step]) -> Vec<String> {
    let mut v: Vec<String> = vec![];
    let mut add = |bs: &Vec<Batch>| for b in bs { if !v.contains(&b.table) { v.push(b.table.clone()); } };
    for s in steps {
        match s {
            Step::Ingest(bs) => add(bs),
            Step::Inter(it) => {
                if let Trigger::Background(bs) = &it.trigger { add(bs); }
                for (_, acts) in &it.parks { for a in acts { if let Act::Ingest(bs) = a { add(bs); } } }
            }
            _ => {}
        }
    }
    v
}

// ---------------------------------------------------------------------------------------------
// File-system effect recorder (hook `verif::set_fs_callback`): completed renames (= stores) and removals, in the
// order the implementation performed them.  The callback is process-global; events are attributed to a database
// by its directory.
static FS_EVENTS: std::sync::Mutex<Vec<(String, PathBuf)>> = std::sync::Mutex::new(Vec::new());

static FS_RECORDER_INSTALLED: std::sync::atomic::AtomicBool = std::sync::atomic::AtomicBool::new(false);

pub fn install_fs_recorder() {
    FS_RECORDER_INSTALLED.store(true, std::sync::atomic::Ordering::SeqCst);
    vharness::locustdb::verif::set_fs_callback(Some(Box::new(|label, path, _data| {
        if label == "store:renamed" || label == "delete:done" {
            FS_EVENTS.lock().unwrap().push((label.to_string(), path.to_path_buf()));
        }
    })));
}

/// Remove and return the events below `root`: (kind, relative path) with kind
/// w = segment stored, s = partition file stored, m = catalogue stored, d = partition file removed, x = segment removed.
pub fn take_events(root: &Path) -> Vec<(char, String)> {
    let mut g = FS_EVENTS.lock().unwrap();
    let mut mine = vec![];
    let mut rest = vec![];
    for (label, p) in g.drain(..) {
        match p.strip_prefix(root) {
            Ok(rel) => {
                let rel = rel.to_string_lossy().to_string();
                let store = label == "store:renamed";
                let kind = if rel == "meta" { if store { 'm' } else { '?' } }
                    else if rel.starts_with("wal/") { if store { 'w' } else { 'x' } }
                    else if rel.starts_with("tables/") { if store { 's' } else { 'd' } }
                    else { '?' };
                mine.push((kind, rel));
            }
            Err(_) => rest.push((label, p)),
        }
    }
    *g = rest;
    mine
}

/// `E<kind>:<hex path>,…><kind>:…`: maximal runs of events of one kind (= the phases of a flush; the effects of one
/// phase run concurrently on the io threads, so they are sorted), `E_` when nothing happened.
/// Files of TRANSIENT partitions (stored and removed again in the same step: a new partition that the same flush
/// merges away) are left out — their sub-partition keys never reach the catalogue, so the model cannot name them.
pub fn effects_tok(ev: &[(char, String)]) -> String {
    let stored: std::collections::HashSet<&String> = ev.iter().filter(|e| e.0 == 's').map(|e| &e.1).collect();
    let transient: std::collections::HashSet<&String> = ev.iter().filter(|e| e.0 == 'd' && stored.contains(&e.1)).map(|e| &e.1).collect();
    let mut phases: Vec<(char, Vec<String>)> = vec![];
    for (k, p) in ev {
        if (*k == 's' || *k == 'd') && transient.contains(p) { continue; }
        match phases.last_mut() {
            Some((lk, ps)) if *lk == *k => ps.push(hexs(p)),
            _ => phases.push((*k, vec![hexs(p)])),
        }
    }
    if phases.is_empty() { return "E_".into(); }
    let toks: Vec<String> = phases.into_iter().map(|(k, mut ps)| { ps.sort(); format!("{}:{}", k, ps.join(",")) }).collect();
    format!("E{}", toks.join(">"))
}

/// Events of the step that just ended.  The callback `delete:done` runs AFTER the file is gone, so the listing can be
/// stable before the last removal of a background flush was recorded: wait until every log segment that existed
/// (before the step or stored during it) and is no longer in `wal/` has its removal event.
pub fn collect_step_events(root: &Path, wal_before: &[String]) -> Vec<(char, String)> {
    let t0 = Instant::now();
    let mut ev: Vec<(char, String)> = vec![];
    // without the recorder (c08, c13) no removal event ever arrives: waiting for one cost 20 s per flush step
    if !FS_RECORDER_INSTALLED.load(std::sync::atomic::Ordering::SeqCst) { return ev; }
    loop {
        ev.extend(take_events(root));
        let present: std::collections::HashSet<String> = wal_files(root).iter()
            .filter_map(|p| p.strip_prefix(root).ok().map(|r| r.to_string_lossy().to_string())).collect();
        let mut known: Vec<String> = wal_before.to_vec();
        for (k, p) in &ev { if *k == 'w' { known.push(p.clone()); } }
        let pending = known.iter().any(|p| !present.contains(p) && !ev.iter().any(|(k, q)| *k == 'x' && q == p));
        if !pending || t0.elapsed() > Duration::from_secs(20) { break; }
        std::thread::sleep(Duration::from_millis(10));
    }
    ev
}

// ---------------------------------------------------------------------------------------------
// Running a whole history and observing after every step.
#[derive(Clone, Debug)]
pub struct StepObs {
    /// protocol tokens this step adds to the history line (an ingest may be followed by a background flush `B…`)
    pub toks: String,
    /// `I` | `F` | `R`, plus `+B` when a background flush was observed
    pub kind: String,
    pub dump: String,
    pub listing: Vec<String>,
    pub meta: Option<(u64, Vec<PartMeta>)>,
    pub dead: bool,
    pub detail: String,
    /// effect phases observed during this step (`E_` unless `install_fs_recorder` was called)
    pub effects: String,
    /// the history so far contains an interleaved flush (the line has `Q` / `Z…` / `A…` tokens)
    pub inter: bool,
    /// observed while a flush was parked at a sync point …
    pub mid: bool,
    /// … which is exactly a step boundary of the model (listing / catalogue comparable)
    pub boundary: bool,
    /// number of helper `force_flush()` calls that have returned so far
    pub answered: usize,
    /// index of the history step this observation belongs to
    pub step: usize,
    /// storage layouts found in the partition files of the user tables (only with `Cfg::track_codecs`)
    pub tags: String,
}

/// Run `steps` on a fresh directory; one observation per step (stops after the first hang / panic).
pub fn run_history(cfg: &Cfg, steps: &[Step]) -> Vec<StepObs> { run_history_deadline(cfg, steps, STEP_DEADLINE_S) }

pub fn run_history_deadline(cfg: &Cfg, steps: &[Step], deadline: u64) -> Vec<StepObs> {
    let dir = tempfile::tempdir().unwrap();
    let mut sut = Sut::open(dir.path(), cfg);
    sut.deadline = deadline;
    let mut out: Vec<StepObs> = vec![];
    let mut prev_meta = read_meta(dir.path());
    let _ = take_events(dir.path());
    let mut inter_seen = false;
    let mut answered = 0usize;
    let mut requests = 0usize;
    for (i, st) in steps.iter().enumerate() {
        if let Step::Inter(inter) = st {
            inter_seen = true;
            let tables = tables_of(&steps[..i]);
            let mut sub = run_inter(&mut sut, dir.path(), inter, &tables, &mut answered, &mut requests);
            for o in sub.iter_mut() { o.step = i; }
            let _ = take_events(dir.path());
            prev_meta = read_meta(dir.path());
            let dead = sub.last().map(|o| o.dead).unwrap_or(true);
            out.extend(sub);
            if dead { break; }
            continue;
        }
        let wal_before: Vec<String> = wal_files(dir.path()).iter()
            .filter_map(|p| p.strip_prefix(dir.path()).ok().map(|r| r.to_string_lossy().to_string())).collect();
        // a flush started by a step of an interleaving job must not meet a gate armed by another job
        let guard = if GATE_INSTALLED.load(std::sync::atomic::Ordering::SeqCst) && (matches!(st, Step::Flush) || cfg.background()) {
            Some(FLUSH_TOKEN.lock().unwrap_or_else(|e| e.into_inner()))
        } else { None };
        sut.apply(st);
        if let Step::Restart = st { if sut.alive() { sut.settle(); } }
        drop(guard);
        let effects = effects_tok(&collect_step_events(dir.path(), &wal_before));
        let meta = read_meta(dir.path());
        let mut kind = st.kind().to_string();
        let toks = match st {
            Step::Ingest(bs) => {
                let mut t = ingest_tok(bs);
                if meta != prev_meta { t.push_str(&format!(" B{}", meta_tok(&meta))); kind.push_str("+B"); }
                t
            }
            Step::Flush => format!("F{}", meta_tok(&meta)),
            Step::Restart => {
                let mut t = "R".to_string();
                if meta != prev_meta { t.push_str(&format!(" B{}", meta_tok(&meta))); kind.push_str("+B"); }
                t
            }
            Step::Inter(_) => unreachable!(),
        };
        prev_meta = meta.clone();
        let tables = tables_of(&steps[..=i]);
        let dump = sut_dump(&sut, &tables);
        let dead = !sut.alive();
        out.push(StepObs { toks, kind, dump, listing: listing(dir.path()), meta, dead, detail: sut.panic_detail.clone(), effects,
            inter: inter_seen, mid: false, boundary: true, answered, step: i,
            tags: if cfg.track_codecs { codec_tags(dir.path()) } else { String::new() } });
        if dead { break; }
    }
    // dropping the database stops its threads; the directory is removed afterwards
    drop(sut);
    out
}

/// History line for the first `k+1` steps.
pub fn history_line(cfg: &Cfg, obs: &[StepObs], k: usize) -> String {
    let mut s = format!("cfg={}", cfg.tok());
    for o in &obs[..=k] { s.push(' '); s.push_str(&o.toks); }
    s
}

/// Short human-readable rendering of a history for the case note.
pub fn describe(cfg: &Cfg, steps: &[Step]) -> String {
    let mut s = format!("combine={} part_bytes={} io={} cthreads={} wal_files={} wal_bytes={} mem_lz4={} :", cfg.combine, cfg.part_bytes, cfg.io, cfg.cthreads, cfg.wal_files, cfg.wal_bytes, cfg.mem_lz4);
    for st in steps {
        match st {
            Step::Ingest(bs) => {
                s.push_str(" ingest{");
                for b in bs { s.push_str(&format!("{}[{}]({}) ", b.table, b.len, b.cols.iter().map(|c| c.0.chars().take(12).collect::<String>()).collect::<Vec<_>>().join(","))); }
                s.push('}');
            }
            Step::Flush => s.push_str(" flush"),
            Step::Restart => s.push_str(" restart"),
            Step::Inter(it) => {
                s.push_str(match it.trigger { Trigger::Request => " FLUSH[by force_flush from thread A", Trigger::Background(_) => " FLUSH[by background trigger after an ingest" });
                for (p, acts) in &it.parks {
                    s.push_str(&format!("; parked at {}:", PARK_LABELS[*p].0));
                    for a in acts { s.push_str(match a { Act::Ingest(_) => " ingest", Act::Request => " force_flush-from-another-thread" }); }
                }
                s.push(']');
            }
        }
    }
    s
}

/// Start-up probe for the open finding `compaction-null-loss` (C07, owner build-c07): does a compacting flush
/// still turn NULL cells of an integer column into 0?  While it does, explicit NULLs are kept out of histories
/// that compact (partition_combine_factor < 999) so that the storage checks report their own properties.
pub fn probe_null_loss() -> bool {
    let cfg = Cfg { combine: 1, ..Cfg::plain() };
    let b1 = Batch { table: "p".into(), len: 2, cols: vec![("v".into(), ColRep::Mixed(vec![Cell::Int(1), Cell::Null]))] };
    let b2 = Batch { table: "p".into(), len: 1, cols: vec![("w".into(), ColRep::I64(vec![5]))] };
    let b3 = Batch { table: "p".into(), len: 1, cols: vec![("v".into(), ColRep::I64(vec![7]))] };
    let obs = run_history(&cfg, &[Step::Ingest(vec![b1]), Step::Flush, Step::Ingest(vec![b2]), Step::Flush, Step::Ingest(vec![b3]), Step::Flush]);
    match obs.last() {
        Some(o) => !o.dump.contains("x76=i1._._.i7/x77=_._.i5._"),
        None => true,
    }
}

/// Start-up probe for the open finding `compaction-lz4-packed-strings` (C07, owner build-c07): does compacting a
/// string column whose packed bytes were LZ4-compressed still panic in the flush pool (=> force_flush hangs)?
/// While it does, the compressible long column name stays out of the C13 pool.
pub fn probe_lz4_strings() -> bool {
    let cfg = Cfg { combine: 0, ..Cfg::plain() };
    let ln = long_name_compressible();
    let b1 = Batch { table: "p".into(), len: 1, cols: vec![(ln, ColRep::I64(vec![1])), ("a".into(), ColRep::I64(vec![2]))] };
    let obs = run_history_deadline(&cfg, &[Step::Ingest(vec![b1]), Step::Flush], 6);
    match obs.last() { Some(o) => o.dead, None => true }
}

pub const LZ4_NOTE: &str = "note: open finding compaction-lz4-packed-strings (C07) reproduces on this tree; the compressible > 64-byte column name stays out of the pool until it is repaired";

/// Run `jobs` on `threads` worker threads, results in job order.
pub fn par_map<T: Send + 'static, R: Send + 'static, F: Fn(T) -> R + Send + Sync + 'static>(jobs: Vec<T>, threads: usize, f: F) -> Vec<R> {
    let n = jobs.len();
    let queue = Arc::new(std::sync::Mutex::new(jobs.into_iter().enumerate().collect::<std::collections::VecDeque<_>>()));
    let results = Arc::new(std::sync::Mutex::new((0..n).map(|_| None).collect::<Vec<Option<R>>>()));
    let f = Arc::new(f);
    let mut hs = vec![];
    for _ in 0..threads.max(1) {
        let (queue, results, f) = (queue.clone(), results.clone(), f.clone());
        hs.push(std::thread::spawn(move || loop {
            let job = queue.lock().unwrap().pop_front();
            match job { None => break, Some((i, j)) => { let r = f(j); results.lock().unwrap()[i] = Some(r); } }
        }));
    }
    for h in hs { let _ = h.join(); }
    let mut g = results.lock().unwrap();
    g.iter_mut().map(|r| r.take().expect("job finished")).collect()
}

/// Random history over {ingest, flush, restart}.  `stable`: every table keeps one column set for the whole
/// history and no cell is NULL (used while the open finding `compaction-null-loss` reproduces, for histories
/// that compact).
pub fn gen_history(rng: &mut Rng, tables: &[String], cols: &[String], nulls: bool, stable: bool, len: usize) -> Vec<Step> {
    let mut steps = vec![];
    let mut have_data = false;
    let fixed: Vec<Vec<String>> = tables.iter().map(|_| {
        let mut cs: Vec<String> = cols.iter().filter(|_| rng.chance(2, 5)).cloned().collect();
        if cs.is_empty() { cs.push(rng.pick(cols).clone()); }
        cs
    }).collect();
    for _ in 0..len {
        let r = rng.below(10);
        if !have_data || r < 5 {
            let req = if stable {
                let mut out = vec![];
                let mut picked: Vec<usize> = (0..tables.len()).filter(|_| rng.chance(1, 2)).collect();
                if picked.is_empty() { picked.push(rng.below(tables.len() as u64) as usize); }
                for ti in picked {
                    let n = 1 + rng.below(4);
                    let cols = fixed[ti].iter().map(|c| { let cells = gen_cells(rng, c, n as usize, false); (c.clone(), ColRep::from_cells(&cells, rng.next())) }).collect();
                    out.push(Batch { table: tables[ti].clone(), len: n, cols });
                }
                out
            } else { gen_request(rng, tables, cols, nulls, 4) };
            steps.push(Step::Ingest(req)); have_data = true;
        }
        else if r < 8 { steps.push(Step::Flush); }
        else { steps.push(Step::Restart); }
    }
    steps
}

// ---------------------------------------------------------------------------------------------
// Interleaved flushes: a gate on the sync-point hook parks the flush thread at a label while other threads act.
// The hook is process-global, so only ONE database of this process may be inside a flush while a gate is armed:
// every gated section (and every other flush started by a job of the interleaving phase) holds `FLUSH_TOKEN`.
pub static FLUSH_TOKEN: std::sync::Mutex<()> = std::sync::Mutex::new(());
pub static GATE_INSTALLED: std::sync::atomic::AtomicBool = std::sync::atomic::AtomicBool::new(false);

#[derive(Default)]
struct GateSt { on: bool, armed: Option<String>, parked_at: Option<String>, go: u64, trace: Vec<String> }
pub struct Gate { st: std::sync::Mutex<GateSt>, cv: std::sync::Condvar }
static GATE: std::sync::OnceLock<Gate> = std::sync::OnceLock::new();
pub fn gate() -> &'static Gate { GATE.get_or_init(|| Gate { st: std::sync::Mutex::new(GateSt::default()), cv: std::sync::Condvar::new() }) }

impl Gate {
    fn on_label(&self, label: &str) {
        let mut g = self.st.lock().unwrap();
        if !g.on { return; }
        if g.trace.len() < 4000 && (label.starts_with("flush:") || label.starts_with("forceflush:")) { g.trace.push(label.to_string()); }
        if g.armed.as_deref() == Some(label) {
            g.armed = None;
            g.parked_at = Some(label.to_string());
            let my = g.go;
            self.cv.notify_all();
            while g.go == my && g.on { g = self.cv.wait(g).unwrap(); }
            g.parked_at = None;
            self.cv.notify_all();
        }
    }
    pub fn begin(&self) { let mut g = self.st.lock().unwrap(); *g = GateSt { on: true, ..GateSt::default() }; }
    pub fn end(&self) { let mut g = self.st.lock().unwrap(); g.on = false; g.armed = None; g.go += 1; self.cv.notify_all(); }
    pub fn arm(&self, label: &str) { self.st.lock().unwrap().armed = Some(label.to_string()); }
    /// let the parked thread go on; `next` = label to park it at next
    pub fn release(&self, next: Option<&str>) {
        let mut g = self.st.lock().unwrap();
        g.armed = next.map(|s| s.to_string());
        g.go += 1;
        self.cv.notify_all();
    }
    pub fn parked_at(&self, label: &str) -> bool { self.st.lock().unwrap().parked_at.as_deref() == Some(label) }
    pub fn count(&self, label: &str) -> usize { self.st.lock().unwrap().trace.iter().filter(|l| *l == label).count() }
    /// wait until the flush thread is parked at `label`, or `stop()` says it will not get there; true = parked
    pub fn wait_parked(&self, label: &str, secs: u64, mut stop: impl FnMut() -> bool) -> bool {
        let t0 = Instant::now();
        loop {
            if self.parked_at(label) { return true; }
            if stop() { return self.parked_at(label); }
            if t0.elapsed() > Duration::from_secs(secs) { return false; }
            std::thread::sleep(Duration::from_millis(2));
        }
    }
}

pub fn install_gate() {
    vharness::locustdb::verif::set_sync_callback(Some(Box::new(|l| gate().on_label(l))));
    GATE_INSTALLED.store(true, std::sync::atomic::Ordering::SeqCst);
}
pub fn uninstall_gate() {
    gate().end();
    vharness::locustdb::verif::set_sync_callback(None);
    GATE_INSTALLED.store(false, std::sync::atomic::Ordering::SeqCst);
}

fn wait_until(secs: u64, mut f: impl FnMut() -> bool) -> bool {
    let t0 = Instant::now();
    loop {
        if f() { return true; }
        if t0.elapsed() > Duration::from_secs(secs) { return false; }
        std::thread::sleep(Duration::from_millis(2));
    }
}

/// Tokens of the model steps of a flush (1 = freeze … 5 = delete_wal_segments, 6 = requests answered) from `done`
/// (exclusive) to `upto` (inclusive) completed steps; the catalogue of
/// `Zp` is filled in when the flush has completed (`@CAT@`).
fn flush_toks(done: usize, upto: usize, k: usize) -> Vec<String> {
    let mut v = vec![];
    for step in (done + 1)..=upto {
        v.push(match step { 1 => format!("Zb{}", k), 2 => "Zp@CAT@".to_string(), 3 => "Zm".into(), 4 => "Zd".into(), 5 => "Zx".into(), _ => "Za".into() });
    }
    v
}

/// Run one flush step by step.  Returns one observation per ingestion performed while the flush was parked (`mid`),
/// one when the flush has completed (before a possible follow-up flush runs), and one after the follow-up flush.
pub fn run_inter(sut: &mut Sut, root: &Path, inter: &Inter, tables_before: &[String], answered: &mut usize, requests: &mut usize) -> Vec<StepObs> {
    let _token = FLUSH_TOKEN.lock().unwrap_or_else(|e| e.into_inner());
    // tables that exist at each observation: those of the earlier steps + those ingested so far in this step
    let tables: std::cell::RefCell<Vec<String>> = std::cell::RefCell::new(tables_before.to_vec());
    let note_tables = |bs: &Vec<Batch>| { let mut t = tables.borrow_mut(); for b in bs { if !t.contains(&b.table) { t.push(b.table.clone()); } } };
    let g = gate();
    g.begin();
    let db = sut.db.clone().unwrap();
    let dl = sut.deadline;
    let mut out: Vec<StepObs> = vec![];
    let mut pend_toks: Vec<String> = vec![];
    // helper force_flush calls of THIS step: (global request index, returned flag)
    let mut helpers: Vec<(usize, Arc<std::sync::atomic::AtomicBool>)> = vec![];
    let mut unanswered_before_flush1 = 0usize;
    let spawn_request = |helpers: &mut Vec<(usize, Arc<std::sync::atomic::AtomicBool>)>, requests: &mut usize| -> bool {
        let before = g.count("forceflush:registered");
        let flag = Arc::new(std::sync::atomic::AtomicBool::new(false));
        let (db2, f2) = (db.clone(), flag.clone());
        std::thread::spawn(move || { db2.force_flush(); f2.store(true, std::sync::atomic::Ordering::SeqCst); });
        helpers.push((*requests, flag));
        *requests += 1;
        wait_until(dl, || g.count("forceflush:registered") > before)
    };
    let obs = |sut: &Sut, toks: Vec<String>, kind: String, mid: bool, boundary: bool, answered: usize, dead: Option<&str>| -> StepObs {
        let dump = match dead { Some(d) => d.to_string(), None => sut_dump(sut, &tables.borrow()) };
        StepObs { toks: toks.join(" "), kind, dump, listing: listing(root), meta: read_meta(root), dead: dead.is_some() || !sut.alive(),
            detail: sut.panic_detail.clone(), effects: "E_".into(), inter: true, mid, boundary, answered, step: 0, tags: String::new() }
    };
    macro_rules! fail { ($why:expr) => {{
        sut.dead = Some($why.to_string());
        let o = obs(sut, std::mem::take(&mut pend_toks), "Zdead".into(), true, false, *answered, Some($why));
        out.push(o);
        g.end();
        return out;
    }}; }

    // start the flush, parked at the first label
    let first = PARK_LABELS[inter.parks[0].0].0;
    g.arm(first);
    let k1 = match &inter.trigger {
        Trigger::Request => {
            if !spawn_request(&mut helpers, requests) { fail!("hang:force_flush-register"); }
            pend_toks.push("Q".into());
            unanswered_before_flush1 = 1;
            1
        }
        Trigger::Background(bs) => {
            let ev = event_buffer(bs);
            let db2 = db.clone();
            match with_deadline(dl, move || ingest_sync(&db2, ev)) {
                None => fail!("hang:ingest"),
                Some(Err(p)) => { sut.panic_detail = p; fail!("panic:ingest"); }
                Some(Ok(())) => {}
            }
            pend_toks.push(ingest_tok(bs));
            note_tables(bs);
            0
        }
    };
    let mut steps_done = 0usize;
    for (pi, (p, acts)) in inter.parks.iter().enumerate() {
        let (label, short, upto, boundary) = PARK_LABELS[*p];
        if !g.wait_parked(label, dl, || false) { fail!("hang:flush-before-label"); }
        pend_toks.extend(flush_toks(steps_done, upto, k1));
        steps_done = upto;
        for a in acts {
            match a {
                Act::Ingest(bs) => {
                    let ev = event_buffer(bs);
                    let db2 = db.clone();
                    match with_deadline(dl, move || ingest_sync(&db2, ev)) {
                        None => fail!("hang:ingest-during-flush"),
                        Some(Err(p)) => { sut.panic_detail = p; fail!("panic:ingest-during-flush"); }
                        Some(Ok(())) => {}
                    }
                    pend_toks.push(ingest_tok(bs));
                    note_tables(bs);
                    let o = obs(sut, std::mem::take(&mut pend_toks), format!("mid@{}", short), true, boundary, *answered, None);
                    out.push(o);
                }
                Act::Request => {
                    if !spawn_request(&mut helpers, requests) { fail!("hang:force_flush-register"); }
                    pend_toks.push("Q".into());
                }
            }
        }
        let next = inter.parks.get(pi + 1).map(|(q, _)| PARK_LABELS[*q].0);
        // the follow-up flush (if one comes) is parked before its freeze block so that the state after THIS flush can be read
        g.release(Some(next.unwrap_or("flush:freeze:before")));
    }
    // flush 1 runs to its end
    if !wait_until(dl, || g.count("flush:gc:wal:after") >= 1) { fail!("hang:flush"); }
    pend_toks.extend(flush_toks(steps_done, 6, k1));
    // the requests taken by flush 1 must be answered now
    for (_, flag) in helpers.iter().take(unanswered_before_flush1) {
        if !wait_until(dl, || flag.load(std::sync::atomic::Ordering::SeqCst)) { fail!("hang:force_flush"); }
    }
    // does a follow-up flush come?  It must while a request is unanswered; it does when the file-count trigger holds.
    let all_back = |helpers: &Vec<(usize, Arc<std::sync::atomic::AtomicBool>)>| helpers.iter().all(|(_, f)| f.load(std::sync::atomic::Ordering::SeqCst));
    let second = g.wait_parked("flush:freeze:before", dl, || {
        all_back(&helpers) && !(sut.cfg.background() && sut.background_due())
    }) || {
        // requests were all answered and no trigger holds: give a starting flush a moment to show up
        std::thread::sleep(Duration::from_millis(30));
        g.parked_at("flush:freeze:before")
    };
    if !second && !all_back(&helpers) { fail!("hang:force_flush"); }
    // state after flush 1 (nothing is running: the follow-up flush, if any, is parked before its freeze block)
    let returned_now: Vec<usize> = helpers.iter().filter(|(_, f)| f.load(std::sync::atomic::Ordering::SeqCst)).map(|(i, _)| *i).collect();
    for i in &returned_now { pend_toks.push(format!("A{}", i)); }
    *answered += returned_now.len();
    helpers.retain(|(_, f)| !f.load(std::sync::atomic::Ordering::SeqCst));
    let cat1 = meta_tok(&read_meta(root));
    for o in out.iter_mut() { o.toks = o.toks.replace("@CAT@", &cat1); }
    for t in pend_toks.iter_mut() { *t = t.replace("@CAT@", &cat1); }
    let o = obs(sut, std::mem::take(&mut pend_toks), "Zend".into(), false, true, *answered, None);
    out.push(o);
    if second {
        let k2 = helpers.len();
        g.release(None);
        if !wait_until(dl, || g.count("flush:gc:wal:after") >= 2) { fail!("hang:flush2"); }
        for (_, flag) in helpers.iter() {
            if !wait_until(dl, || flag.load(std::sync::atomic::Ordering::SeqCst)) { fail!("hang:force_flush"); }
        }
        // wait for a possible third flush to be over (file-count trigger): quiescence as in `settle`
        g.end();
        sut.settle();
        let cat2 = meta_tok(&read_meta(root));
        let mut toks = vec![format!("Zb{}", k2), format!("Zp{}", cat2), "Zm".into(), "Zd".into(), "Zx".into(), "Za".into()];
        for (i, _) in &helpers { toks.push(format!("A{}", i)); }
        *answered += helpers.len();
        let o = obs(sut, toks, "Zend2".into(), false, true, *answered, None);
        out.push(o);
    }
    g.end();
    out
}

// ---------------------------------------------------------------------------------------------
// The job lists shared by c08 / c13 / c18.
pub struct Job { pub class: String, pub cfg: Cfg, pub steps: Vec<Step> }

pub fn bat(table: &str, cols: &[(&str, Vec<Cell>)]) -> Batch {
    let len = cols[0].1.len() as u64;
    Batch { table: table.into(), len, cols: cols.iter().map(|(n, c)| (n.to_string(), ColRep::from_cells(c, 0))).collect() }
}

/// Fixed histories that run first: witnesses of repaired findings and the cursor positions C08 names.
/// (Every table keeps one column set: they must pass while `compaction-null-loss` is open.)
pub fn corpus() -> Vec<Job> {
    let ints = |v: &[i64]| v.iter().map(|x| Cell::Int(*x)).collect::<Vec<_>>();
    let ing = |t: &str, c: &str, v: &[i64]| Step::Ingest(vec![bat(t, &[(c, ints(v))])]);
    let mut jobs = vec![];
    // finding metacols-compaction-typo (fixed in a0c515f): combine factor 0, flush, restart, flush
    for io in [1usize, 4] {
        jobs.push(Job { class: "corpus:metacols-compaction-typo".into(), cfg: Cfg { combine: 0, io, ..Cfg::plain() },
            steps: vec![ing("t", "a", &[1, 2]), Step::Flush, Step::Restart, Step::Flush, ing("t", "a", &[3]), Step::Restart, Step::Flush, Step::Restart] });
    }
    // restart at every position relative to flush (cursor arithmetic)
    for cf in [1u64, 4, 999] {
        jobs.push(Job { class: "corpus:cursor".into(), cfg: Cfg { combine: cf, ..Cfg::plain() },
            steps: vec![ing("t", "a", &[1]), Step::Restart, ing("t", "a", &[2]), ing("t", "a", &[3]), Step::Flush, ing("t", "a", &[4]), Step::Restart,
                        ing("t", "a", &[5]), Step::Restart, Step::Flush, Step::Restart, Step::Flush, ing("u", "a", &[6]), Step::Restart,
                        ing("t", "a", &[7]), ing("u", "a", &[8]), Step::Flush, Step::Flush, Step::Restart] });
    }
    // empty flushes and double restarts
    jobs.push(Job { class: "corpus:empty-flush".into(), cfg: Cfg::plain(),
        steps: vec![Step::Flush, Step::Restart, ing("t", "a", &[1]), Step::Flush, Step::Flush, Step::Restart, Step::Restart, ing("t", "a", &[2]), Step::Restart] });
    jobs
}

/// All histories of length `n` over {ingest t, ingest t+u, flush, restart} that start with an ingest.
/// `vary`: the column of `t` alternates (only without compaction or once `compaction-null-loss` is repaired).
pub fn exhaustive(n: usize, cfg: &Cfg, class: &str, vary: bool) -> Vec<Job> {
    let mut jobs = vec![];
    let total = 4usize.pow(n as u32 - 1);
    for code in 0..total {
        let mut steps = vec![Step::Ingest(vec![bat("t", &[("a", vec![Cell::Int(0)])])])];
        let mut c = code;
        for k in 1..n {
            let x = c % 4; c /= 4;
            steps.push(match x {
                0 => Step::Ingest(vec![bat("t", &[(if !vary || k % 2 == 0 { "a" } else { "b" }, vec![Cell::Int(k as i64)])])]),
                1 => Step::Ingest(vec![bat("t", &[("a", vec![Cell::Int(10 + k as i64)])]), bat("u", &[("c", vec![Cell::Int(20 + k as i64), Cell::Int(21)])])]),
                2 => Step::Flush,
                _ => Step::Restart,
            });
        }
        jobs.push(Job { class: class.to_string(), cfg: cfg.clone(), steps });
    }
    jobs
}

/// Corpus + random + background + (thorough) bounded-exhaustive histories.
pub fn standard_jobs(args: &Args, rng: &mut Rng, tables: &[String], cols: &[String], null_loss: bool) -> Vec<Job> {
    let mut jobs = corpus();
    let (n_random, n_bg) = if args.thorough() { (1500, 200) } else { (150, 24) };
    for i in 0..n_random {
        let cfg = Cfg::random(rng, false);
        // while the open C07 finding reproduces, histories that compact keep one column set per table and no NULLs
        let stable = null_loss && cfg.combine != 999;
        let with_nulls = rng.chance(1, 2);
        let len = 3 + rng.below(6) as usize;
        let steps = gen_history(rng, &tables[..1 + (i % tables.len().min(3))], cols, with_nulls, stable, len);
        jobs.push(Job { class: format!("rand:{}{}", cfg.class(), if stable { "" } else { "+vary" }), cfg, steps });
    }
    for _ in 0..n_bg {
        let cfg = Cfg::random(rng, true);
        let stable = null_loss && cfg.combine != 999;
        let with_nulls = rng.chance(1, 2);
        let len = 3 + rng.below(4) as usize;
        let steps = gen_history(rng, &tables[..2.min(tables.len())], cols, with_nulls, stable, len);
        jobs.push(Job { class: format!("bg:{}{}", cfg.class(), if stable { "" } else { "+vary" }), cfg, steps });
    }
    if args.thorough() {
        for cf in [0u64, 1, 4, 999] {
            for io in [1usize, 4] {
                jobs.extend(exhaustive(5, &Cfg { combine: cf, io, ..Cfg::plain() }, &format!("exh5:cf{}:io{}", cf, io), !null_loss || cf == 999));
            }
        }
    } else {
        jobs.extend(exhaustive(4, &Cfg { combine: 1, ..Cfg::plain() }, "exh4:cf1", !null_loss));
        jobs.extend(exhaustive(4, &Cfg { combine: 999, io: 4, ..Cfg::plain() }, "exh4:cf999", true));
    }
    jobs
}

/// Histories with ONE flush run step by step and other calls in between (quick: every park label with one overlapped
/// ingestion followed at once by a clean restart; two overlapped ingestions at two labels; a force_flush requested by a
/// second thread while the flush is past its freeze; a flush started by the background trigger.  thorough: all label
/// pairs, more configurations, random requests).
pub fn inter_jobs(args: &Args, rng: &mut Rng, tables: &[String], cols: &[String], null_loss: bool) -> Vec<Job> {
    let ints = |v: &[i64]| v.iter().map(|x| Cell::Int(*x)).collect::<Vec<_>>();
    let ing = |t: &str, c: &str, v: &[i64]| vec![bat(t, &[(c, ints(v))])];
    let n = PARK_LABELS.len();
    let plain = Cfg::plain();
    let all_cfgs = vec![
        Cfg { combine: 4, io: 1, ..plain.clone() },
        Cfg { combine: 1, io: 4, cthreads: 2, ..plain.clone() },
        Cfg { combine: 0, io: 4, ..plain.clone() },
        Cfg { combine: 999, part_bytes: 64, io: 1, ..plain.clone() },
    ];
    let cfgs: Vec<Cfg> = if args.thorough() { all_cfgs.clone() } else { all_cfgs[..2].to_vec() };
    let mut jobs = vec![];
    // the column the overlapped batches use: a second column only where compaction cannot hit the open C07 finding
    let col2 = |cfg: &Cfg| if null_loss && cfg.combine != 999 { "a" } else { "b" };
    for p in 0..n {
        let short = PARK_LABELS[p].1;
        for cfg in &cfgs {
            // one ingestion overlaps the flush; clean restart at once (no further flush), then life goes on
            jobs.push(Job { class: format!("inter:overlap:{}", short), cfg: cfg.clone(), steps: vec![
                Step::Ingest(ing("t", "a", &[1, 2])),
                Step::Inter(Inter { trigger: Trigger::Request, parks: vec![(p, vec![Act::Ingest(ing("t", col2(cfg), &[3]))])] }),
                Step::Restart, Step::Ingest(ing("t", "a", &[4])), Step::Restart] });
        }
        // with earlier partitions (so that combine factor 1 compacts inside the interleaved flush) and a flush before the restart
        let cfg = &all_cfgs[1];
        jobs.push(Job { class: format!("inter:overlap-compacting:{}", short), cfg: cfg.clone(), steps: vec![
            Step::Ingest(ing("t", "a", &[1])), Step::Flush, Step::Ingest(vec![bat("t", &[("a", ints(&[2]))]), bat("u", &[("c", ints(&[7, 8]))])]),
            Step::Inter(Inter { trigger: Trigger::Request, parks: vec![(p, vec![Act::Ingest(vec![bat("t", &[("a", ints(&[3]))]), bat("u", &[("c", ints(&[9]))])])])] }),
            Step::Restart, Step::Flush, Step::Restart] });
        // a second thread calls force_flush while the flush is past its freeze (after having ingested): it must be answered by a LATER flush
        let cfg = &cfgs[p % cfgs.len()];
        jobs.push(Job { class: format!("inter:late-request:{}", short), cfg: cfg.clone(), steps: vec![
            Step::Ingest(ing("t", "a", &[1])),
            Step::Inter(Inter { trigger: Trigger::Request, parks: vec![(p, vec![Act::Ingest(ing("t", "a", &[2, 3])), Act::Request])] }),
            Step::Restart] });
    }
    for p in if args.thorough() { (0..n).collect::<Vec<_>>() } else { vec![0, 4] } {
        let short = PARK_LABELS[p].1;
        // late request without any overlapped ingestion (the follow-up flush has nothing to do)
        jobs.push(Job { class: format!("inter:late-request-empty:{}", short), cfg: cfgs[0].clone(), steps: vec![
            Step::Ingest(ing("t", "a", &[1])),
            Step::Inter(Inter { trigger: Trigger::Request, parks: vec![(p, vec![Act::Request])] }),
            Step::Ingest(ing("t", "a", &[2])), Step::Restart] });
        // request first, ingestion after it (not covered by that request), both while parked
        jobs.push(Job { class: format!("inter:late-request-then-ingest:{}", short), cfg: cfgs[1 % cfgs.len()].clone(), steps: vec![
            Step::Ingest(ing("t", "a", &[1])),
            Step::Inter(Inter { trigger: Trigger::Request, parks: vec![(p, vec![Act::Request, Act::Ingest(ing("t", "a", &[2]))])] }),
            Step::Restart] });
    }
    // two park points, ingestion at both (the second one also creates a table the flush has never seen)
    let mut pairs: Vec<(usize, usize)> = vec![];
    for a in 0..n { for b in (a + 1)..n { pairs.push((a, b)); } }
    if !args.thorough() {
        let mut picked = vec![];
        for _ in 0..6 { let i = rng.below(pairs.len() as u64) as usize; picked.push(pairs.remove(i)); }
        pairs = picked;
    }
    for (i, (a, b)) in pairs.into_iter().enumerate() {
        let cfg = &cfgs[i % cfgs.len()];
        jobs.push(Job { class: format!("inter:overlap2:{}+{}", PARK_LABELS[a].1, PARK_LABELS[b].1), cfg: cfg.clone(), steps: vec![
            Step::Ingest(ing("t", "a", &[1])), Step::Flush, Step::Ingest(vec![bat("t", &[("a", ints(&[2]))]), bat("u", &[("c", ints(&[7]))])]),
            Step::Inter(Inter { trigger: Trigger::Request, parks: vec![
                (a, vec![Act::Ingest(ing("t", col2(cfg), &[3]))]),
                (b, vec![Act::Ingest(ing("u", "c", &[8])), Act::Ingest(ing("Tab", "a", &[5, 6]))])] }),
            Step::Restart, Step::Ingest(ing("t", "a", &[4])), Step::Flush, Step::Restart] });
    }
    // the flush is started by the background thread (file-count / size trigger), not by a request
    for (i, p) in (if args.thorough() { (0..n).collect::<Vec<_>>() } else { vec![0, 3, 4] }).into_iter().enumerate() {
        let by_size = i % 2 == 1;
        let cfg = if by_size { Cfg { wal_bytes: 1, ..cfgs[i % cfgs.len()].clone() } } else { Cfg { wal_files: 0, ..cfgs[i % cfgs.len()].clone() } };
        jobs.push(Job { class: format!("inter:bg-trigger-{}:{}", if by_size { "size" } else { "files" }, PARK_LABELS[p].1), cfg, steps: vec![
            Step::Inter(Inter { trigger: Trigger::Background(ing("t", "a", &[1])), parks: vec![(p, vec![Act::Ingest(ing("t", "a", &[2]))])] }),
            Step::Restart] });
    }
    // random requests at random labels
    let n_rand = if args.thorough() { 120 } else { 6 };
    for i in 0..n_rand {
        let cfg = Cfg { wal_files: Cfg::plain().wal_files, wal_bytes: Cfg::plain().wal_bytes, ..Cfg::random(rng, false) };
        let stable = null_loss && cfg.combine != 999;
        let ts = &tables[..1 + (i % tables.len().min(3))];
        let fixed = vec![cols[rng.below(cols.len() as u64) as usize].clone()];
        let req = |rng: &mut Rng| if stable { gen_request(rng, ts, &fixed, false, 3) } else { let nulls = rng.chance(1, 2); gen_request(rng, ts, cols, nulls, 3) };
        let a = rng.below(n as u64) as usize;
        let b = rng.below(n as u64) as usize;
        let (a, b) = (a.min(b), a.max(b));
        let mut parks = vec![(a, vec![Act::Ingest(req(rng))])];
        if b > a { parks.push((b, if rng.chance(1, 2) { vec![Act::Ingest(req(rng)), Act::Request] } else { vec![Act::Ingest(req(rng))] })); }
        let mut steps = vec![Step::Ingest(req(rng))];
        if rng.chance(1, 2) { steps.push(Step::Flush); steps.push(Step::Ingest(req(rng))); }
        steps.push(Step::Inter(Inter { trigger: Trigger::Request, parks }));
        steps.push(Step::Restart);
        if rng.chance(1, 2) { steps.push(Step::Ingest(req(rng))); steps.push(Step::Flush); steps.push(Step::Restart); }
        jobs.push(Job { class: format!("inter:rand:{}{}", cfg.class(), if stable { "" } else { "+vary" }), cfg, steps });
    }
    jobs
}

/// Which storage layouts do the partition files of the user tables use?  (`pcofp32` = pco over values narrowed to f32,
/// `pco`, `lz4`, `dict`, `strpack`, `strhex`, `raw`; `+`-joined, sorted.)  Read with the implementation's own readers.
pub fn codec_tags(root: &Path) -> String {
    use vharness::locustdb::verif::PartitionSegment;
    let mut tags: std::collections::BTreeSet<&'static str> = Default::default();
    if let Some((_, parts)) = read_meta(root) {
        let w = VersionedChecksummedBlobWriter::new(Box::new(FileBlobWriter::new()));
        for p in parts.iter().filter(|p| !p.table.starts_with("_meta_")) {
            let dir = root.join("tables").join(vharness::locustdb::verif::verif_sanitize_table_name(&p.table));
            for k in &p.keys {
                let path = dir.join(vharness::locustdb::verif::verif_partition_filename(p.id, k));
                if let Some(seg) = w.load(&path).ok().and_then(|d| PartitionSegment::deserialize(&d).ok()) {
                    for c in &seg.columns {
                        let ops = format!("{:?}", vharness::locustdb::verif::mem_store::column::DataSource::codec(c).ops());
                        let mut any = false;
                        if ops.contains("Pco(") { any = true; tags.insert(if ops.contains(", true)") { "pcofp32" } else { "pco" }); }
                        if ops.contains("LZ4(") { any = true; tags.insert("lz4"); }
                        if ops.contains("DictLookup") { any = true; tags.insert("dict"); }
                        if ops.contains("UnpackStrings") { any = true; tags.insert("strpack"); }
                        if ops.contains("UnhexpackStrings") { any = true; tags.insert("strhex"); }
                        if !any { tags.insert("raw"); }
                    }
                }
            }
        }
    }
    if tags.is_empty() { "none".into() } else { tags.into_iter().collect::<Vec<_>>().join("+") }
}

/// Two clean (lower-case alphanumeric) table names of 195 bytes that agree in their first 193 bytes: the sanitised
/// directory name is cut to 189 bytes, only the hash of the full name keeps the two tables apart.
pub fn long_table_pair() -> (String, String) {
    let base: String = (0..193).map(|i| (b'a' + (i % 26) as u8) as char).collect();
    (format!("{}01", base), format!("{}02", base))
}

/// Table-name pairs whose directories are equal up to what `sanitize_table_name` adds: > 189 bytes with a common
/// prefix, case pairs, names the sanitiser rewrites to the same stem / to the empty stem.
pub fn table_name_pairs() -> Vec<(&'static str, String, String)> {
    let (l1, l2) = long_table_pair();
    vec![
        ("long-common-prefix", l1.clone(), l2),
        ("long-vs-upper", l1.clone(), l1.to_uppercase()),
        ("case-pair", "tab".into(), "Tab".into()),
        ("same-stem", "ab".into(), "a/b".into()),
        ("same-stem-space", "with space".into(), "withspace".into()),
        ("leading-dot-dash", ".hidden".into(), "-hidden".into()),
        ("empty-stem", "日本".into(), "größe".into()),
    ]
}

/// Histories for table-name pairs: both tables get different rows, flush, restart, more rows, flush (compacting), restart.
pub fn name_jobs(args: &Args) -> Vec<Job> {
    let ints = |v: &[i64]| v.iter().map(|x| Cell::Int(*x)).collect::<Vec<_>>();
    let mut jobs = vec![];
    for (i, (what, x, y)) in table_name_pairs().into_iter().enumerate() {
        let cfgs: Vec<Cfg> = if args.thorough() {
            vec![Cfg { combine: 1, io: 1, ..Cfg::plain() }, Cfg { combine: 1, io: 4, ..Cfg::plain() }, Cfg { combine: 999, io: 4, mem_lz4: false, ..Cfg::plain() }, Cfg { combine: 0, io: 1, ..Cfg::plain() }]
        } else { vec![Cfg { combine: 1, io: if i % 2 == 0 { 1 } else { 4 }, mem_lz4: i % 3 != 0, ..Cfg::plain() }] };
        for cfg in cfgs {
            jobs.push(Job { class: format!("names:{}", what), cfg, steps: vec![
                Step::Ingest(vec![bat(&x, &[("a", ints(&[1, 2]))]), bat(&y, &[("a", ints(&[10]))])]),
                Step::Flush, Step::Restart,
                Step::Ingest(vec![bat(&x, &[("a", ints(&[3]))])]),
                Step::Ingest(vec![bat(&y, &[("a", ints(&[11, 12]))])]),
                Step::Flush, Step::Restart] });
        }
    }
    jobs
}

/// A table with one column per storage layout, `n` rows: floats exactly representable as f32 (pco narrows them),
/// irregular doubles, wide-range integers, small integers, dictionary strings, unique strings, hex strings, a column
/// with NULLs.
pub fn layout_batch(rng: &mut Rng, table: &str, n: usize, with_nulls: bool) -> Batch {
    let f32x: Vec<f64> = (0..n).map(|_| rng.range(-4000, 4000) as f64 * 0.25).collect();
    let f64x: Vec<f64> = (0..n).map(|_| (rng.range(-1_000_000, 1_000_000) as f64) / 3.0 + 1e-7).collect();
    let wide: Vec<i64> = (0..n).map(|_| rng.range(-1_000_000_000_000, 1_000_000_000_000)).collect();
    let small: Vec<i64> = (0..n).map(|_| rng.range(0, 200)).collect();
    let dict: Vec<String> = (0..n).map(|_| rng.pick(&["red", "green", "blue", "a longer colour name"]).to_string()).collect();
    let uniq: Vec<String> = (0..n).map(|i| format!("row-{}-{}", i, rng.below(1_000_000))).collect();
    let hexc: Vec<String> = (0..n).map(|_| format!("{:016x}", rng.next())).collect();
    let mut cols = vec![
        ("f32x".to_string(), ColRep::Dense(f32x)), ("f64x".to_string(), ColRep::Dense(f64x)), ("wide".to_string(), ColRep::I64(wide)),
        ("small".to_string(), ColRep::I64(small)), ("dict".to_string(), ColRep::Str(dict)), ("uniq".to_string(), ColRep::Str(uniq)), ("hexc".to_string(), ColRep::Str(hexc)),
    ];
    if with_nulls {
        let cells: Vec<Cell> = (0..n).map(|_| if rng.chance(1, 4) { Cell::Null } else { Cell::f(rng.range(-100, 100) as f64 * 0.5) }).collect();
        cols.push(("fnul".to_string(), ColRep::Mixed(cells)));
    }
    Batch { table: table.into(), len: n as u64, cols }
}

/// Histories that put every storage layout through flush + restart (+ compaction + restart), with `mem_lz4` on and off.
pub fn layout_jobs(args: &Args, rng: &mut Rng, null_loss: bool) -> Vec<Job> {
    let mut jobs = vec![];
    let n = 300;
    let combos: Vec<(bool, usize, u64)> = if args.thorough() {
        vec![(false, 1, 4), (false, 4, 4), (true, 1, 4), (false, 1, 1), (false, 4, 0), (true, 4, 1), (false, 1, 999), (true, 4, 999)]
    } else { vec![(false, 1, 4), (false, 4, 1), (true, 4, 4)] };
    for (mem_lz4, io, combine) in combos {
        let cfg = Cfg { mem_lz4, io, combine, track_codecs: true, ..Cfg::plain() };
        let nulls = !(null_loss && combine != 999);
        jobs.push(Job { class: format!("layouts:{}", if mem_lz4 { "lz4on" } else { "lz4off" }), cfg, steps: vec![
            Step::Ingest(vec![layout_batch(rng, "m", n, nulls)]), Step::Flush, Step::Restart,
            Step::Ingest(vec![layout_batch(rng, "m", n / 3, nulls)]), Step::Flush, Step::Restart] });
    }
    jobs
}

pub const NULL_LOSS_NOTE: &str = "note: open finding compaction-null-loss (C07) reproduces on this tree; histories that compact keep one column set per table and no NULL cells until it is repaired";

// ---------------------------------------------------------------------------------------------
// Columns that are NULL in every row of a batch (seeded change C13-all-null-first-batch-unregistered: a column whose
// FIRST batch carries no value must still reach the catalogue, and its later values must survive flush + restart +
// compaction).  Every representation of "no value in this batch" the wire format allows, before / after batches with
// values, separated by every combination of flush / restart / compacting flush.

/// Wire representations of a column without a single value in a batch of `n` rows.
pub const NULL_REPS: &[&str] = &["empty", "sparsef0", "sparsei0", "dense0", "i64x0", "mixednull"];

pub fn all_null_rep(rep: &str, n: usize) -> ColRep {
    match rep {
        "empty" => ColRep::Empty,
        "sparsef0" => ColRep::Sparse(vec![]),
        "sparsei0" => ColRep::SparseI64(vec![]),
        "dense0" => ColRep::Dense(vec![]),      // dense vector shorter than the batch: the missing tail is NULL
        "i64x0" => ColRep::I64(vec![]),
        _ => ColRep::Mixed(vec![Cell::Null; n]),
    }
}

/// `n` values of kind 0 (ints) / 1 (strings) / 2 (floats), starting at `base`.
pub fn value_rep(kind: usize, base: i64, n: usize) -> ColRep {
    match kind % 3 {
        0 => ColRep::I64((0..n as i64).map(|i| base + i).collect()),
        1 => ColRep::Str((0..n as i64).map(|i| format!("v{}", base + i)).collect()),
        _ => ColRep::Dense((0..n as i64).map(|i| (base + i) as f64 + 0.5).collect()),
    }
}

/// What separates the two batches of a directed NULL-column history.
pub const NULL_SEPS: &[(&str, &[u8])] = &[("same", b""), ("F", b"F"), ("R", b"R"), ("FR", b"FR"), ("FRF", b"FRF")];

fn sep_steps(code: &[u8]) -> Vec<Step> { code.iter().map(|c| if *c == b'F' { Step::Flush } else { Step::Restart }).collect() }

/// Directed histories around a column `c` of table `t` (companion column `a` always has values):
///  * `nullfirst`: the first batch that names `c` has no value for it; a later batch brings values; then flush, restart,
///    a batch that does not mention `c`, a (compacting) flush, restart, and one more all-NULL batch;
///  * `nulllate`:  the same, but `t` already exists (one flushed partition, restart: the name set comes from the catalogue);
///  * `nulllast`:  values first, all-NULL batches afterwards;
///  * `nullonly`:  the table's very first batch consists of the all-NULL column alone.
/// quick: every (representation × separator) once, value kind and combine factor cycling; thorough: the full product.
pub fn null_column_jobs(args: &Args, null_loss: bool, cname: &str) -> Vec<Job> {
    let mut jobs = vec![];
    let a = |base: i64, n: usize| ("a".to_string(), ColRep::I64((0..n as i64).map(|i| base + i).collect()));
    let b = |cols: Vec<(String, ColRep)>, n: u64| Step::Ingest(vec![Batch { table: "t".into(), len: n, cols }]);
    let cfs = [1u64, 0, 999, 4];
    let mut idx = 0usize;
    for (ri, rep) in NULL_REPS.iter().enumerate() {
        for (si, (sname, scode)) in NULL_SEPS.iter().enumerate() {
            let combos: Vec<(usize, u64, usize)> = if args.thorough() {
                let mut v = vec![];
                for kind in 0..3 { for cf in cfs { for io in [1usize, 4] { v.push((kind, cf, io)); } } }
                v
            } else { vec![((ri + si) % 3, cfs[(ri + 2 * si) % 3], if idx % 2 == 0 { 1 } else { 4 })] };
            idx += 1;
            for (kind, cf, io) in combos {
                if null_loss && cf != 999 { continue; }
                let cfg = Cfg { combine: cf, io, mem_lz4: (ri + si) % 2 == 0, ..Cfg::plain() };
                let c = |rep: ColRep| (cname.to_string(), rep);
                let rep2 = NULL_REPS[(ri + 1) % NULL_REPS.len()];
                // first appearance without a value, values later
                let mut steps = vec![b(vec![a(1, 2), c(all_null_rep(rep, 2))], 2)];
                steps.extend(sep_steps(scode));
                steps.extend(vec![b(vec![a(3, 1), c(value_rep(kind, 7, 1))], 1), Step::Flush, Step::Restart, b(vec![a(4, 1)], 1), Step::Flush, Step::Restart,
                    b(vec![a(5, 1), c(all_null_rep(rep2, 1))], 1), Step::Flush, Step::Restart]);
                jobs.push(Job { class: format!("nullfirst:{}:{}:cf{}", rep, sname, cf), cfg: cfg.clone(), steps });
                // the table exists already; its name set is loaded from the catalogue after a restart
                let mut steps = vec![b(vec![a(1, 1)], 1), Step::Flush, Step::Restart, b(vec![a(2, 2), c(all_null_rep(rep, 2))], 2)];
                steps.extend(sep_steps(scode));
                steps.extend(vec![b(vec![c(value_rep(kind, 7, 2)), a(4, 2)], 2), Step::Flush, Step::Restart, b(vec![a(6, 1)], 1), Step::Flush, Step::Restart]);
                jobs.push(Job { class: format!("nulllate:{}:{}:cf{}", rep, sname, cf), cfg: cfg.clone(), steps });
                // values first, no value afterwards
                let mut steps = vec![b(vec![a(1, 2), c(value_rep(kind, 7, 2))], 2)];
                steps.extend(sep_steps(scode));
                steps.extend(vec![b(vec![a(3, 1), c(all_null_rep(rep, 1))], 1), Step::Flush, Step::Restart, b(vec![c(all_null_rep(rep2, 2)), a(4, 2)], 2), Step::Flush, Step::Restart]);
                jobs.push(Job { class: format!("nulllast:{}:{}:cf{}", rep, sname, cf), cfg, steps });
            }
        }
        // the table's very first batch is the all-NULL column alone
        for cf in if args.thorough() { vec![1u64, 0, 999] } else { vec![cfs[ri % 3]] } {
            if null_loss && cf != 999 { continue; }
            let c = |rep: ColRep| (cname.to_string(), rep);
            jobs.push(Job { class: format!("nullonly:{}:cf{}", rep, cf), cfg: Cfg { combine: cf, ..Cfg::plain() }, steps: vec![
                b(vec![c(all_null_rep(rep, 2))], 2), Step::Flush, b(vec![c(value_rep(ri, 7, 1))], 1), Step::Restart, b(vec![a(1, 1)], 1), Step::Flush, Step::Restart] });
        }
    }
    jobs
}

/// A random request in which every column is, with probability 1/3, without a single value (random representation).
pub fn gen_request_nullish(rng: &mut Rng, tables: &[String], cols: &[String], max_rows: u64) -> Vec<Batch> {
    let mut out = gen_request(rng, tables, cols, true, max_rows);
    for bt in out.iter_mut() {
        let n = bt.len as usize;
        // at least one column keeps its cells unless the dice say otherwise for all of them (an all-NULL batch is legal too)
        for (_, rep) in bt.cols.iter_mut() {
            if rng.chance(1, 3) { *rep = all_null_rep(*rng.pick(NULL_REPS), n); }
        }
    }
    out
}

/// Random histories over {ingest (nullish requests), flush, restart} with random configurations.
pub fn null_random_jobs(args: &Args, rng: &mut Rng, tables: &[String], cols: &[String], null_loss: bool) -> Vec<Job> {
    let mut jobs = vec![];
    let n = if args.thorough() { 400 } else { 30 };
    // a small column pool makes "no value first, values later" likely inside one history
    let mut few: Vec<String> = vec![];
    for _ in 0..4 { let c = rng.pick(cols).clone(); if !few.contains(&c) { few.push(c); } }
    for i in 0..n {
        let mut cfg = Cfg::random(rng, false);
        if null_loss { cfg.combine = 999; }
        let ts = &tables[..1 + (i % tables.len().min(2))];
        let len = 4 + rng.below(5) as usize;
        let mut steps = vec![];
        for k in 0..len {
            let r = rng.below(10);
            if k == 0 || r < 5 { steps.push(Step::Ingest(gen_request_nullish(rng, ts, &few, 3))); }
            else if r < 8 { steps.push(Step::Flush); } else { steps.push(Step::Restart); }
        }
        steps.push(Step::Flush); steps.push(Step::Restart);
        jobs.push(Job { class: format!("randnull:{}", cfg.class()), cfg, steps });
    }
    jobs
}
