//! C13: columns may come and go; the catalogue lists each exactly once.
//! Same history machinery as C08, but batches carry arbitrary subsets of the C13 name pool (case pairs,
//! non-ASCII, > 64 bytes, names sorting before / after all others, the catalogue's own column names) and the
//! table names are exotic too.  After every step: `SELECT *` per table (columns sorted by name), the table
//! catalogue and every column catalogue as sorted multisets (duplicates stay visible), and
//! `LocustDB::search_column_names(t, ".*")` per table.
#[path = "store/common.rs"]
mod store_common;
use store_common::*;
use vharness::*;

fn main() {
    let args = parse_args();
    if args.rest.iter().any(|a| a == "dbg-long") {
        // loud reproduction helper: combine factor 0 + one column whose name is longer than 64 bytes
        let ln = long_name();
        let cf: u64 = std::env::var("CF").ok().and_then(|s| s.parse().ok()).unwrap_or(0);
        let steps = vec![Step::Ingest(vec![bat("t", &[(ln.as_str(), vec![Cell::Int(1)]), ("a", vec![Cell::Int(2)])])]), Step::Flush, Step::Ingest(vec![bat("t", &[("a", vec![Cell::Int(3)])])]), Step::Flush];
        let obs = run_history(&Cfg { combine: cf, part_bytes: std::env::var("PB").ok().and_then(|s| s.parse().ok()).unwrap_or(8 << 20), ..Cfg::plain() }, &steps);
        for o in obs { println!("{} -> {} {:?} {}", o.toks, o.dump, o.listing, o.detail); }
        return;
    }
    if args.rest.iter().any(|a| a == "dbg-null") {
        // loud helper: the directed NULL-column histories one by one with a short deadline; prints the last observation of each
        let only: Option<String> = std::env::var("ONLY").ok();
        for job in null_column_jobs(&args, false, "c") {
            if let Some(o) = &only { if !job.class.starts_with(o.as_str()) { continue; } }
            let t0 = std::time::Instant::now();
            let obs = run_history_deadline(&job.cfg, &job.steps, 8);
            let last = obs.last().unwrap();
            println!("{} steps={}/{} {:.1}s dead={} {}", job.class, obs.len(), job.steps.len(), t0.elapsed().as_secs_f64(), last.dead, if last.dead { format!("{} | {} | {}", last.dump, last.detail, describe(&job.cfg, &job.steps[..=last.step])) } else { String::new() });
        }
        return;
    }
    quiet_panics();
    DUMP_SEARCH.store(true, std::sync::atomic::Ordering::Relaxed);
    let mut rng = Rng::new(args.seed);
    let mut cases = Cases::create(&args.out);
    let null_loss = probe_null_loss();
    let tables: Vec<String> = ["t", "Tab", "größe", "t.x-y"].iter().map(|s| s.to_string()).collect();
    let lz4_defect = probe_lz4_strings();
    let mut pool = column_pool();
    if !lz4_defect { pool.push(long_name_compressible()); }
    let mut jobs = standard_jobs(&args, &mut rng, &tables, &pool, null_loss);
    // directed: a late column, a column that disappears, case pairs, the catalogue's own names; no compaction
    // (combine 999) so that the stream is independent of the open C07 finding, plus the same with compaction
    // once that finding is repaired
    let ints = |v: &[i64]| v.iter().map(|x| Cell::Int(*x)).collect::<Vec<_>>();
    for cf in [999u64, 1, 0] {
        if cf != 999 && null_loss { continue; }
        for io in [1usize, 4] {
            let ln = long_name();
            let steps = vec![
                Step::Ingest(vec![bat("t", &[("a", ints(&[1, 2])), ("column_names", ints(&[3, 4]))])]),
                Step::Flush,
                Step::Ingest(vec![bat("t", &[("A", ints(&[5])), ("name", ints(&[6])), (ln.as_str(), ints(&[7]))])]),
                Step::Restart,
                Step::Ingest(vec![bat("t", &[("a", ints(&[8])), ("~last", ints(&[9])), ("!first", ints(&[10]))]), bat("Tab", &[("column_name", ints(&[11]))])]),
                Step::Flush,
                Step::Restart,
                Step::Ingest(vec![bat("t", &[("timestamp", ints(&[12])), ("A", ints(&[13]))])]),
                Step::Flush,
                Step::Flush,
                Step::Restart,
                Step::Ingest(vec![bat("t", &[("a", ints(&[14]))]), bat("Tab", &[("column_name", ints(&[15])), ("日本", ints(&[16]))])]),
                Step::Restart,
            ];
            jobs.push(Job { class: format!("directed:cf{}", cf), cfg: Cfg { combine: cf, io, ..Cfg::plain() }, steps });
        }
    }
    // table names that differ only in what sanitize_table_name adds (their column catalogues live in `_meta_columns_<name>`)
    jobs.extend(name_jobs(&args));
    // columns without a single value in a batch (every wire representation), before / after batches with values
    jobs.extend(null_column_jobs(&args, null_loss, "c"));
    jobs.extend(null_random_jobs(&args, &mut rng, &tables, &pool, null_loss));
    let results = par_map(jobs, 8, |job: Job| { let obs = run_history(&job.cfg, &job.steps); (job, obs) });
    if lz4_defect {
        cases.push("probe:compaction-lz4-packed-strings-present", "cfg=4,8388608,1,1,1000,67108864", "MT=[]", LZ4_NOTE);
    }
    if null_loss {
        cases.push("probe:compaction-null-loss-present", "cfg=4,8388608,1,1,1000,67108864", "MT=[]", NULL_LOSS_NOTE);
    }
    for (job, obs) in results {
        for k in 0..obs.len() {
            let line = history_line(&job.cfg, &obs, k);
            let note = if k + 1 == obs.len() || obs[k].dead { format!("{} | {}", describe(&job.cfg, &job.steps[..=obs[k].step]), obs[k].detail) } else { String::new() };
            cases.push(&format!("{}:{}", job.class, obs[k].kind), &line, &obs[k].dump, &note);
        }
    }
    cases.finish();
}
