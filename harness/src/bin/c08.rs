//! C08: acknowledged data survives a clean restart, exactly once.
//! Histories over {ingest into a subset of 1..3 tables, force_flush, restart}, with compaction factor,
//! sub-partition size, io / compaction threads varied and (in some runs) small max_wal_files /
//! max_wal_size_bytes so that background flushes trigger.  After EVERY step the database is dumped
//! (`SELECT *` per table, `_meta_tables`, `_meta_columns_<t>`); one case per step:
//!   model line = configuration + the history up to that step (with the catalogue observed after each flush),
//!   implementation output = the dump.
//! Interleaved stream (`inter:*`): one flush is run step by step — the flush thread is parked at a sync point after its
//! freeze block (hook `set_sync_callback`) while the main thread ingests (and a second thread may call force_flush), at
//! every labelled boundary; released; quiescence; clean restart; dump.  The history line carries the flush as its
//! steps (`Zb Zp Zm Zd Zx`) with the calls in between; dumps are also taken while the flush is parked.
#[path = "store/common.rs"]
mod store_common;
use store_common::*;
use vharness::*;

fn main() {
    let args = parse_args();
    if std::env::var("VERIF_LOUD").is_err() { quiet_panics(); }
    let mut rng = Rng::new(args.seed);
    let mut cases = Cases::create(&args.out);
    let null_loss = probe_null_loss();
    let tables: Vec<String> = TABLE_POOL[..3].iter().map(|s| s.to_string()).collect();
    // interleaved phase first (the sync-point gate is process-global: no other flush may run in this process meanwhile)
    let ijobs = inter_jobs(&args, &mut rng, &tables, &plain_column_pool(), null_loss);
    install_gate();
    let mut results = par_map(ijobs, 8, |job: Job| { let obs = run_history(&job.cfg, &job.steps); (job, obs) });
    uninstall_gate();
    let mut jobs = if args.rest.iter().any(|a| a == "--only-inter") { vec![] } else { standard_jobs(&args, &mut rng, &tables, &plain_column_pool(), null_loss) };
    if !args.rest.iter().any(|a| a == "--only-inter") || args.rest.iter().any(|a| a == "--wide") {
        // table names that differ only in what sanitize_table_name adds; every storage layout through flush + restart, mem_lz4 on / off
        jobs.extend(name_jobs(&args));
        jobs.extend(layout_jobs(&args, &mut rng, null_loss));
        // columns without a single value in a batch (every wire representation), before / after batches with values
        jobs.extend(null_column_jobs(&args, null_loss, "c"));
        jobs.extend(null_random_jobs(&args, &mut rng, &tables, &plain_column_pool(), null_loss));
    }
    results.extend(par_map(jobs, 8, |job: Job| { let obs = run_history(&job.cfg, &job.steps); (job, obs) }));
    if null_loss {
        cases.push("probe:compaction-null-loss-present", "cfg=4,8388608,1,1,1000,67108864", "MT=[]", NULL_LOSS_NOTE);
    }
    for (job, obs) in results {
        for k in 0..obs.len() {
            let line = history_line(&job.cfg, &obs, k);
            let note = if k + 1 == obs.len() || obs[k].dead { format!("{} | {}", describe(&job.cfg, &job.steps[..=obs[k].step]), obs[k].detail) } else { String::new() };
            let tags = if obs[k].tags.is_empty() { String::new() } else { format!(":{}", obs[k].tags) };
            cases.push(&format!("{}{}:{}", job.class, tags, obs[k].kind), &line, &obs[k].dump, &note);
        }
    }
    cases.finish();
}
