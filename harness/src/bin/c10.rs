//! C10: a concurrent query sees a clean prefix of every table.
//!
//! Part 1 (placements, `place`): a flush (or an ingestion) is parked at one named sync point at a time; while it
//! is parked another thread optionally evicts the cache, issues a query (present / absent / `*` / extra column),
//! optionally a second ingestion and a second query, each under a deadline; then the parked thread is released,
//! the flush must complete and a final query must see everything.
//! Labels inside a critical section (`flush:batch:taken:t`, `flush:compact:swap:mid:t`): the query must BLOCK there
//! (q1=blocked) and answer with everything once the step is over (q2) — a witness that the lock is held across.
//! Part 1b (held queries, `hold`): a QUERY is parked right after it took its snapshot (sync point `cols:enter:t`,
//! before the first `get_cols`); a whole flush + compaction runs (to completion, or up to a second label where the
//! flush is parked too); then the query is released and must still answer with the content of its snapshot.
//! Part 2 (stress): N ingest threads (two tables per request), one flusher (+ evictions), M query threads; every
//! query result must be a batch-whole set of batches that contains every batch acknowledged before the query
//! began and, per ingest thread, a prefix of that thread's batches.
//!
//! Model line grammar (consumed by lean/LocustModel/Drv/C10.lean) — `key=value` tokens after the two head tokens:
//!   place <label> st=<mem|disk> ev=<0|1> cf=<n> pre=<sizes> buf=<sizes> x=<0|1> two=<0|1> mid=<_|evict>
//!         q=<present|absent|star|extra> ing2=<size|_> comp=<k> hit=<0|1> q1=<res> i2=<tok> q2=<res|_> fl=<ok|hang|panic> fin=<res>
//!   hold <upto> st=disk ev=<0|1> rs=<0|1> cf=<n> pre=<sizes> buf=<sizes> x=<0|1> mid=<_|evict> q=<kind> comp=<k> hit=<0|1>
//!         qh=<res> fl=<ok|hang|panic> fin=<res>
//!   stress th=<threads> in=<ingesters> qr=<queriers> st=<mem|disk> mode=<clean|rough> nq=<n> bad=<n> badq=<n>
//!         first=<text|_> fl=<ok|hang> fin=<ok|bad:…>
//! <res> = ok:<n>:<b.i,b.i,…>(sorted) | ok:0: | err:<kind> | panic | hang | bad<what>
//! comp = number of partitions of table t the parked flush compacted (0 = no compaction), read off the trace —
//!        plan_compaction depends on allocator-reported sizes, so this is an input of the model, not a prediction.
use std::collections::{BTreeMap, BTreeSet};
use std::sync::atomic::{AtomicBool, AtomicU64, Ordering};
use std::sync::{Arc, Condvar, Mutex};
use std::time::{Duration, Instant};
use vharness::locustdb::LocustDB;
use vharness::*;

// ------------------------------------------------------------------------------------------------
// Gate: several armed labels; the first thread that reaches an armed label parks there until released.
struct Slot {
    label: String,
    /// how many threads to park here (the held query: one per worker, so that EVERY partition of its snapshot is
    /// looked at only after the release — which worker carries which partition is up to the scheduler)
    capacity: usize,
    fired: usize,
    parked: usize,
    release: bool,
}
#[derive(Default)]
struct GateState {
    slots: Vec<Slot>,
    tracing: bool,
    trace: Vec<String>,
}
struct Gate {
    st: Mutex<GateState>,
    cv: Condvar,
}
static GATE: std::sync::OnceLock<Arc<Gate>> = std::sync::OnceLock::new();
fn gate() -> &'static Arc<Gate> {
    GATE.get_or_init(|| Arc::new(Gate { st: Mutex::new(GateState::default()), cv: Condvar::new() }))
}
impl Gate {
    fn on_label(&self, label: &str) {
        let mut g = self.st.lock().unwrap();
        if !g.tracing { return; }
        if g.trace.len() < 600 && !label.starts_with("cols:") && !label.starts_with("load:") { g.trace.push(label.to_string()); }
        if let Some(i) = g.slots.iter().position(|s| s.fired < s.capacity && !s.release && s.label == label) {
            g.slots[i].fired += 1;
            g.slots[i].parked += 1;
            self.cv.notify_all();
            while !g.slots.get(i).map(|s| s.release).unwrap_or(true) { g = self.cv.wait(g).unwrap(); }
            if let Some(s) = g.slots.get_mut(i) { s.parked -= 1; }
            self.cv.notify_all();
        }
    }
    fn reset(&self) {
        let mut g = self.st.lock().unwrap();
        for s in g.slots.iter_mut() { s.release = true; }
        self.cv.notify_all();
        *g = GateState { slots: vec![], tracing: true, trace: vec![] };
    }
    /// returns the slot index
    fn arm(&self, label: &str) -> usize { self.arm_n(label, 1) }
    fn arm_n(&self, label: &str, capacity: usize) -> usize {
        let mut g = self.st.lock().unwrap();
        g.slots.push(Slot { label: label.to_string(), capacity, fired: 0, parked: 0, release: false });
        g.slots.len() - 1
    }
    fn clear_trace(&self) { self.st.lock().unwrap().trace.clear(); }
    /// all the threads the slot waits for are parked
    fn is_parked(&self, i: usize) -> bool { let g = self.st.lock().unwrap(); g.slots[i].parked >= g.slots[i].capacity }
    fn release(&self, i: usize) {
        let mut g = self.st.lock().unwrap();
        if let Some(s) = g.slots.get_mut(i) { s.release = true; }
        self.cv.notify_all();
    }
    fn finish(&self) -> Vec<String> {
        let mut g = self.st.lock().unwrap();
        for s in g.slots.iter_mut() { s.release = true; }
        g.tracing = false;
        self.cv.notify_all();
        std::mem::take(&mut g.trace)
    }
}

/// Wait until slot `i` is parked, or `done` reports that the operation that should reach it finished. true = parked.
fn wait_parked_or_done(i: usize, secs: u64, mut done: impl FnMut() -> bool) -> bool {
    let t0 = Instant::now();
    loop {
        if gate().is_parked(i) { return true; }
        if done() { return gate().is_parked(i); }
        if t0.elapsed() > Duration::from_secs(secs) { return false; }
        std::thread::sleep(Duration::from_millis(2));
    }
}

// ------------------------------------------------------------------------------------------------
const T: &str = "t";
const U: &str = "u";
/// generous: the machine is shared; nothing in a healthy run comes near it
const DL: u64 = 40;

/// batch `b` with `n` rows: bid = b, idx = 0..n, val = 1000*b + idx, tag = "g<b%3>"; `extra` adds a column
/// only this batch has (so other partitions lack it).
fn mk_batch(table: &str, b: i64, n: usize, extra: bool) -> Batch {
    let mut cols = vec![
        ("bid".to_string(), ColRep::I64(vec![b; n])),
        ("idx".to_string(), ColRep::I64((0..n as i64).collect())),
        ("val".to_string(), ColRep::I64((0..n as i64).map(|i| 1000 * b + i).collect())),
        ("tag".to_string(), ColRep::Str((0..n).map(|_| format!("g{}", b % 3)).collect())),
    ];
    if extra { cols.push(("xtr".to_string(), ColRep::I64(vec![7; n]))); }
    Batch { table: table.into(), len: n as u64, cols }
}

fn request(b: i64, n: usize, extra: bool, two: bool) -> Vec<Batch> {
    let mut v = vec![mk_batch(T, b, n, extra)];
    if two { v.push(mk_batch(U, b, n + 1, false)); }
    v
}

fn canon(out: &QOut, qkind: &str) -> String {
    match out {
        QOut::Ok { colnames, rows: Some(rows), .. } => {
            let bi = colnames.iter().position(|c| c == "bid");
            let ii = colnames.iter().position(|c| c == "idx");
            let (bi, ii) = match (bi, ii) { (Some(a), Some(b)) => (a, b), _ => return if rows.is_empty() { "ok:0:".into() } else { "badcols".into() } };
            let mut v: Vec<(i64, i64)> = vec![];
            for r in rows {
                match (&r[bi], &r[ii]) {
                    (Cell::Int(b), Cell::Int(i)) => v.push((*b, *i)),
                    _ => return "badcell".into(),
                }
                if qkind == "absent" {
                    if let Some(ni) = colnames.iter().position(|c| c == "nosuch") { if r[ni] != Cell::Null { return "badnull".into(); } }
                }
                if let Some(vi) = colnames.iter().position(|c| c == "val") {
                    if let (Cell::Int(b), Cell::Int(i)) = (&r[bi], &r[ii]) { if r[vi] != Cell::Int(1000 * b + i) { return "badval".into(); } }
                }
            }
            v.sort();
            format!("ok:{}:{}", v.len(), v.iter().map(|(b, i)| format!("{}.{}", b, i)).collect::<Vec<_>>().join(","))
        }
        QOut::Ok { .. } => "badfmt".into(),
        other => other.tok(),
    }
}

fn sql_for(qkind: &str, table: &str) -> String {
    match qkind {
        "present" => format!("SELECT bid, idx, val FROM {}", table),
        "absent" => format!("SELECT bid, idx, nosuch FROM {}", table),
        "extra" => format!("SELECT bid, idx, xtr FROM {}", table),
        _ => format!("SELECT * FROM {}", table),
    }
}

fn run_q(db: &Arc<LocustDB>, qkind: &str, secs: u64) -> (String, String) {
    let out = query_full(db, &sql_for(qkind, T), true, secs);
    (canon(&out, qkind), out.detail())
}

fn is_ok(res: &str) -> bool { res.starts_with("ok:") }

fn tmp_root() -> std::path::PathBuf {
    // children put their databases under a directory of the parent, which removes it at the end (a faulted database is
    // leaked on purpose — its threads still use the files — so its TempDir is never dropped)
    if let Ok(d) = std::env::var("C10_TMP") { return std::path::PathBuf::from(d); }
    let shm = std::path::Path::new("/dev/shm");
    if shm.is_dir() { shm.to_path_buf() } else { std::env::temp_dir() }
}
fn new_tmp() -> tempfile::TempDir { tempfile::Builder::new().prefix("c10-").tempdir_in(tmp_root()).unwrap() }

fn opts(dir: Option<&std::path::Path>, threads: usize, cf: u64) -> vharness::locustdb::Options {
    let mut o = match dir { Some(d) => disk_options(d), None => base_options() };
    o.threads = threads;
    o.partition_combine_factor = cf;
    o
}

pub const FLUSH_LABELS: &[&str] = &[
    "flush:freeze:before", "flush:freeze:after", "flush:batch:after:t", "flush:handles:after:t", "flush:batching:done",
    "flush:persist:files:t", "flush:persist:after", "flush:compact:swap:before:t", "flush:compact:swap:after:t", "flush:compact:files:t",
    "flush:compact:prepare:after:t", "flush:compaction:done", "flush:meta:after", "flush:gc:partitions:after", "flush:gc:wal:after",
];
const STORAGE_ONLY: &[&str] = &["flush:persist:files:t", "flush:compact:files:t", "flush:meta:after", "flush:gc:partitions:after", "flush:gc:wal:after",
    "flush:persist:files:u", "flush:compact:files:u"];

#[derive(Clone, Debug)]
struct Placement {
    hold: bool,
    /// `place`: the label the flush / ingestion is parked at. `hold`: the label the flush is parked at while the
    /// held query is released (`done` = the flush ran to completion first).
    label: String,
    disk: bool,
    evict: bool,
    restart: bool,
    cf: u64,
    pre: Vec<usize>,
    buf: Vec<usize>,
    /// first batch of `buf` carries the extra column (so the fresh partition has it and older ones lack it)
    extra_in_buf: bool,
    two: bool,
    mid_evict: bool,
    qkind: String,
    ing2: Option<usize>,
}

fn sizes(v: &[usize]) -> String { fmt_list(v) }

/// number of distinct partitions of table `t` that fed a compaction, from `compact:input:t:<col>:<part>:…` labels
fn compacted_parts(trace: &[String]) -> usize {
    let mut ids = BTreeSet::new();
    for l in trace {
        let f: Vec<&str> = l.split(':').collect();
        if f.len() >= 5 && f[0] == "compact" && f[1] == "input" && f[2] == T { ids.insert(f[4].to_string()); }
    }
    ids.len()
}

struct Outcome {
    line: String,
    impl_out: String,
    class: String,
    note: String,
    trace: Vec<String>,
    suspicious_hang: bool,
}

/// history: every `pre` batch flushed into its own partition (compaction may already merge some); optional restart
/// (all partitions restored non-resident); the `buf` batches stay in the open buffer; optional eviction.
fn setup(p: &Placement, tmp: &Option<tempfile::TempDir>, next_b: &mut i64) -> Option<Arc<LocustDB>> {
    let dir = tmp.as_ref().map(|d| d.path().to_path_buf());
    let o = opts(dir.as_deref(), 2, p.cf);
    let mut db = Arc::new(LocustDB::new(&o));
    for n in &p.pre {
        ingest(&db, &request(*next_b, *n, false, p.two));
        *next_b += 1;
        let d = db.clone();
        with_deadline(DL, move || d.force_flush())?.ok()?;
    }
    if p.restart && p.disk {
        drop(db);
        std::thread::sleep(Duration::from_millis(30));
        let o2 = o.clone();
        db = with_deadline(DL, move || Arc::new(LocustDB::new(&o2)))?.ok()?;
    }
    for (k, n) in p.buf.iter().enumerate() {
        ingest(&db, &request(*next_b, *n, p.extra_in_buf && k == 0, p.two));
        *next_b += 1;
    }
    if p.evict && p.disk { db.evict_cache(); }
    Some(db)
}

fn run_place(p: &Placement) -> Outcome {
    gate().reset();
    let tmp = if p.disk { Some(new_tmp()) } else { None };
    let mut next_b = 1i64; // (batch 0 would encode `val` without an offset and be smaller: sizes steer compaction)
    let db = setup(p, &tmp, &mut next_b);
    let setup_ok = db.is_some();
    let db = db.unwrap_or_else(|| Arc::new(LocustDB::new(&opts(None, 2, p.cf))));
    let is_ingest_label = p.label.starts_with("ingest:");
    gate().clear_trace(); // `comp` counts the compaction of the parked flush only
    let slot = gate().arm(&p.label);
    // the parked operation
    let d = db.clone();
    let ing_parked = p.ing2.unwrap_or(2);
    let parked_b = next_b;
    let two = p.two;
    let (ptx, prx) = std::sync::mpsc::channel();
    std::thread::spawn(move || {
        let r = std::panic::catch_unwind(std::panic::AssertUnwindSafe(|| {
            if is_ingest_label { ingest(&d, &request(parked_b, ing_parked, false, two)); } else { d.force_flush(); }
        }));
        let _ = ptx.send(r.is_ok());
    });
    if is_ingest_label { next_b += 1; }
    let mut early: Option<bool> = None;
    let hit = setup_ok && wait_parked_or_done(slot, DL, || { if early.is_none() { early = prx.try_recv().ok(); } early.is_some() });
    let mut q1 = ("_".to_string(), String::new());
    let mut i2 = "_".to_string();
    let mut q2 = ("_".to_string(), String::new());
    let inner = p.label.contains(":taken:") || p.label.contains(":swap:mid:");
    if hit && inner {
        // parked INSIDE a critical section (lock held): the query must block until the step is over
        let (qtx, qrx) = std::sync::mpsc::channel();
        let (d, k) = (db.clone(), p.qkind.clone());
        std::thread::spawn(move || { let _ = qtx.send(run_q(&d, &k, 3 * DL)); });
        match qrx.recv_timeout(Duration::from_millis(1500)) {
            Ok(r) => q1 = r,
            Err(_) => {
                q1 = ("blocked".to_string(), String::new());
                gate().release(slot);
                q2 = qrx.recv_timeout(Duration::from_secs(DL)).unwrap_or(("hang".into(), String::new()));
            }
        }
    } else if hit {
        if p.mid_evict && p.disk { db.evict_cache(); }
        q1 = run_q(&db, &p.qkind, DL);
        if is_ingest_label {
            // a flush started now must wait for the ingestion lock: it may not complete while the ingestion is parked
            let d = db.clone();
            let (ftx, frx) = std::sync::mpsc::channel();
            std::thread::spawn(move || { d.force_flush(); let _ = ftx.send(()); });
            i2 = if frx.recv_timeout(Duration::from_millis(1500)).is_ok() { "flushed".into() } else { "blocked".into() };
            q2 = run_q(&db, &p.qkind, DL);
            gate().release(slot);
            let _ = frx.recv_timeout(Duration::from_secs(DL));
        } else if let (Some(n), true) = (p.ing2, is_ok(&q1.0)) {
            // (after a failed query the worker pool is in a state that belongs to C11: nothing more is learnt here)
            let d = db.clone();
            let req = request(next_b, n, false, p.two);
            i2 = match with_deadline(DL, move || ingest(&d, &req)) { Some(Ok(())) => "ok".into(), Some(Err(_)) => "panic".into(), None => "hang".into() };
            q2 = run_q(&db, &p.qkind, DL);
        }
    }
    gate().release(slot);
    let faulted = hit && ((!is_ok(&q1.0) && q1.0 != "blocked") || (q2.0 != "_" && !is_ok(&q2.0)));
    let fl = match early {
        Some(ok) => if ok { "ok" } else { "panic" },
        None => match prx.recv_timeout(Duration::from_secs(if faulted { 6 } else { DL })) { Ok(true) => "ok", Ok(false) => "panic", Err(_) => "hang" },
    };
    let trace = gate().finish();
    let fin = run_q(&db, "present", if faulted || fl != "ok" { 4 } else { DL });
    let comp = compacted_parts(&trace);
    let st = if p.disk { "disk" } else { "mem" };
    let line = format!(
        "place {} st={} ev={} cf={} pre={} buf={} x={} two={} mid={} q={} ing2={} comp={} hit={} q1={} i2={} q2={} fl={} fin={}",
        p.label, st, p.evict as u8, p.cf, sizes(&p.pre), sizes(&p.buf), p.extra_in_buf as u8, p.two as u8, if p.mid_evict { "evict" } else { "_" },
        p.qkind, p.ing2.map(|n| n.to_string()).unwrap_or("_".into()), comp, hit as u8, q1.0, i2, q2.0, fl, fin.0);
    let impl_out = format!("q1={} i2={} q2={} fl={} fin={}", q1.0, i2, q2.0, fl, fin.0);
    let class = format!("{}|{}|{}{}{}{}|{}", p.label, p.qkind, st, if p.evict { "+ev" } else { "" }, if p.mid_evict { "+midev" } else { "" },
        if p.two { "+two" } else { "" }, if hit { "hit" } else { "nothit" });
    let note = format!("{} {} {}", q1.1, q2.1, fin.1);
    let suspicious_hang = !faulted && (q1.0 == "hang" || q2.0 == "hang" || i2 == "hang" || fl == "hang" || fin.0 == "hang" || !hit);
    if fl != "ok" || faulted { std::mem::forget(db); std::mem::forget(tmp); }
    Outcome { line, impl_out, class, note: note.trim().to_string(), trace, suspicious_hang }
}

fn run_hold(p: &Placement) -> Outcome {
    gate().reset();
    let tmp = if p.disk { Some(new_tmp()) } else { None };
    let mut next_b = 1i64;
    let db = setup(p, &tmp, &mut next_b);
    let setup_ok = db.is_some();
    let db = db.unwrap_or_else(|| Arc::new(LocustDB::new(&opts(None, 2, p.cf))));
    gate().clear_trace();
    // the held query: parks in its first get_cols on table t, i.e. right after Table::snapshot
    // (2 worker threads, at least 2 partitions in the snapshot: both workers park, each holding one partition)
    let qslot = gate().arm_n("cols:enter:t", 2);
    let (qtx, qrx) = std::sync::mpsc::channel();
    {
        let (d, k) = (db.clone(), p.qkind.clone());
        std::thread::spawn(move || { let _ = qtx.send(run_q(&d, &k, 4 * DL)); });
    }
    let mut qres: Option<(String, String)> = None;
    let held = setup_ok && wait_parked_or_done(qslot, DL, || { if qres.is_none() { qres = qrx.try_recv().ok(); } qres.is_some() });
    // the flush that runs underneath the held query; `mid=evict`: the cache is evicted while the flush is parked right
    // before the compaction swap (the old partitions are still registered, compaction has just re-read them)
    let eslot = if p.mid_evict { Some(gate().arm("flush:compact:swap:before:t")) } else { None };
    let fslot = if p.label != "done" { Some(gate().arm(&p.label)) } else { None };
    let (ftx, frx) = std::sync::mpsc::channel();
    {
        let d = db.clone();
        std::thread::spawn(move || {
            let r = std::panic::catch_unwind(std::panic::AssertUnwindSafe(|| d.force_flush()));
            let _ = ftx.send(r.is_ok());
        });
    }
    let mut fdone: Option<bool> = None;
    let mut hit = held;
    if let (true, Some(e)) = (held, eslot) {
        if wait_parked_or_done(e, DL, || { if fdone.is_none() { fdone = frx.try_recv().ok(); } fdone.is_some() }) { db.evict_cache(); } else { hit = false; }
        gate().release(e);
    }
    if held && hit {
        match fslot {
            Some(s) => { hit = wait_parked_or_done(s, DL, || { if fdone.is_none() { fdone = frx.try_recv().ok(); } fdone.is_some() }); }
            None => { fdone = frx.recv_timeout(Duration::from_secs(DL)).ok(); hit = fdone == Some(true); }
        }
    }
    gate().release(qslot);
    let qh = match qres { Some(r) => r, None => qrx.recv_timeout(Duration::from_secs(DL)).unwrap_or(("hang".into(), String::new())) };
    if let Some(s) = fslot { gate().release(s); }
    let faulted = !is_ok(&qh.0);
    let fl = match fdone {
        Some(ok) => if ok { "ok" } else { "panic" },
        None => match frx.recv_timeout(Duration::from_secs(if faulted { 6 } else { DL })) { Ok(true) => "ok", Ok(false) => "panic", Err(_) => "hang" },
    };
    let trace = gate().finish();
    let fin = run_q(&db, "present", if faulted || fl != "ok" { 4 } else { DL });
    let comp = compacted_parts(&trace);
    let line = format!(
        "hold {} st={} ev={} rs={} cf={} pre={} buf={} x={} mid={} q={} comp={} hit={} qh={} fl={} fin={}",
        p.label, if p.disk { "disk" } else { "mem" }, p.evict as u8, p.restart as u8, p.cf, sizes(&p.pre), sizes(&p.buf), p.extra_in_buf as u8,
        if p.mid_evict { "evict" } else { "_" }, p.qkind, comp, hit as u8, qh.0, fl, fin.0);
    let impl_out = format!("qh={} fl={} fin={}", qh.0, fl, fin.0);
    let class = format!("hold:{}|{}|{}{}{}{}|{}", p.label, p.qkind, if p.disk { "disk" } else { "mem" }, if p.evict { "+ev" } else { "" }, if p.restart { "+restart" } else { "" },
        if p.mid_evict { "+midev" } else { "" }, if hit { "hit" } else { "nothit" });
    let note = format!("{} {}", qh.1, fin.1);
    let suspicious_hang = !faulted && (fl == "hang" || fin.0 == "hang" || !hit);
    if fl != "ok" || faulted { std::mem::forget(db); std::mem::forget(tmp); }
    Outcome { line, impl_out, class, note: note.trim().to_string(), trace, suspicious_hang }
}

fn run_placement(p: &Placement, cases: &mut Cases, verbose: bool) {
    let run = |p: &Placement| if p.hold { run_hold(p) } else { run_place(p) };
    let mut o = run(p);
    if o.suspicious_hang {
        // an unexplained hang / unreached label on a loaded machine: believe it only if it happens twice
        let o2 = run(p);
        let first = std::mem::replace(&mut o, o2);
        o.note = format!("{} [rerun after: {}]", o.note, first.impl_out);
    }
    if verbose { eprintln!("{}\n    trace={:?}\n    {}", o.line, o.trace.iter().filter(|l| !l.contains("_meta")).collect::<Vec<_>>(), o.note); }
    cases.push(&o.class, &o.line, &o.impl_out, &o.note);
}

// ------------------------------------------------------------------------------------------------
// Stress: batches are identified by (ingester k, sequence j): bid = (k << 40) + j. Every request also carries a
// share for table u (one row more); queries go to t or u.
// (The ids are this wide on purpose: `bid` and `val` then need the I64 encoding. With narrower ids the columns become
// lz4-compressed u16/u32 sections once a partition has a few dozen rows, and compaction runs into the OPEN C07 findings
// compaction-decode-lz4-narrow-type — flush pool panics, flush hangs — which are not this property's business.)
const KSHIFT: i64 = 1 << 40;
const SEED_BID: i64 = 7 * KSHIFT;
/// `rough` = evictions + all query kinds (on a disk-backed database this can run into the open finding
/// c10-uncatalogued-partition-lookup); `clean` = no eviction, queries only for columns every partition has.
fn run_stress(seed: u64, threads: usize, ningest: usize, nquery: usize, millis: u64, disk: bool, rough: bool, cases: &mut Cases) {
    gate().reset();
    gate().finish();
    let tmp = if disk { Some(new_tmp()) } else { None };
    let db = Arc::new(LocustDB::new(&opts(tmp.as_ref().map(|d| d.path()), threads, 3)));
    let stop = Arc::new(AtomicBool::new(false));
    // acked[k] = number of batches of ingester k acknowledged (ingest call returned)
    let acked: Arc<Vec<AtomicU64>> = Arc::new((0..ningest).map(|_| AtomicU64::new(0)).collect());
    let lens: Arc<Mutex<BTreeMap<i64, usize>>> = Arc::new(Mutex::new(BTreeMap::new()));
    let mut handles = vec![];
    // seed tables so that they exist
    {
        lens.lock().unwrap().insert(SEED_BID, 1);
        ingest(&db, &request(SEED_BID, 1, false, true));
    }
    for k in 0..ningest {
        let (db, stop, acked, lens) = (db.clone(), stop.clone(), acked.clone(), lens.clone());
        let mut rng = Rng::new(seed.wrapping_mul(31).wrapping_add(k as u64));
        handles.push(std::thread::spawn(move || {
            let mut j = 0u64;
            while !stop.load(Ordering::SeqCst) && j < 4000 {
                let n = 1 + rng.below(5) as usize;
                let bid = (k as i64) * KSHIFT + j as i64;
                lens.lock().unwrap().insert(bid, n);
                ingest(&db, &request(bid, n, rough && rng.chance(1, 8), true));
                j += 1;
                acked[k].store(j, Ordering::SeqCst);
                if rng.chance(1, 3) { std::thread::sleep(Duration::from_micros(200 + rng.below(2000))); }
            }
        }));
    }
    let flush_ok = Arc::new(AtomicBool::new(true));
    {
        let (db, stop, flush_ok) = (db.clone(), stop.clone(), flush_ok.clone());
        let mut rng = Rng::new(seed ^ 0xF1);
        handles.push(std::thread::spawn(move || {
            while !stop.load(Ordering::SeqCst) {
                let d = db.clone();
                if with_deadline(DL, move || d.force_flush()).is_none() { flush_ok.store(false, Ordering::SeqCst); return; }
                if disk && rough && rng.chance(1, 3) { db.evict_cache(); }
                std::thread::sleep(Duration::from_millis(3 + rng.below(25)));
            }
        }));
    }
    let bad: Arc<Mutex<Vec<String>>> = Arc::new(Mutex::new(vec![]));
    let badq = Arc::new(AtomicU64::new(0));
    let nq = Arc::new(AtomicU64::new(0));
    for m in 0..nquery {
        let (db, stop, acked, lens, bad, badq, nq) = (db.clone(), stop.clone(), acked.clone(), lens.clone(), bad.clone(), badq.clone(), nq.clone());
        let mut rng = Rng::new(seed ^ (0xABC0 + m as u64));
        handles.push(std::thread::spawn(move || {
            while !stop.load(Ordering::SeqCst) {
                let before: Vec<u64> = acked.iter().map(|a| a.load(Ordering::SeqCst)).collect();
                let qkind = if rough { *rng.pick(&["present", "present", "star", "absent", "extra"]) } else { "present" };
                let table = if rng.chance(1, 3) { U } else { T };
                let out = query_full(&db, &sql_for(qkind, table), true, DL);
                nq.fetch_add(1, Ordering::SeqCst);
                let verdict = judge_stress(&out, &before, &lens.lock().unwrap(), ningest, table == U);
                if let Some(v) = verdict {
                    if v.starts_with("err:") || v == "panic" || v == "hang" { badq.fetch_add(1, Ordering::SeqCst); }
                    bad.lock().unwrap().push(format!("{}:{}:{}", table, qkind, v));
                    // a failed query has killed a worker (C11): everything after it would only measure that
                    if v.starts_with("err:") || v == "panic" || v == "hang" { stop.store(true, Ordering::SeqCst); }
                }
                if rng.chance(1, 2) { std::thread::sleep(Duration::from_micros(rng.below(1500))); }
            }
        }));
    }
    let t0 = Instant::now();
    while t0.elapsed() < Duration::from_millis(millis) && !stop.load(Ordering::SeqCst) { std::thread::sleep(Duration::from_millis(10)); }
    stop.store(true, Ordering::SeqCst);
    let t0 = Instant::now();
    for h in handles { while !h.is_finished() && t0.elapsed() < Duration::from_secs(2 * DL) { std::thread::sleep(Duration::from_millis(5)); } }
    let failed_q = badq.load(Ordering::SeqCst) > 0;
    // a failed query is re-issued once on the now quiescent database (nothing has been flushed since): the same failure
    // again = it depends on the data layout the concurrent activity left behind, not on the overlap itself
    let again = if failed_q {
        let first = bad.lock().unwrap().iter().find(|b| b.contains(":err:") || b.ends_with(":panic") || b.ends_with(":hang")).cloned().unwrap_or_default();
        let f: Vec<&str> = first.split(':').collect();
        if f.len() >= 2 { let out = query_full(&db, &sql_for(f[1], f[0]), true, 10); match out { QOut::Ok { .. } => "ok".to_string(), o => o.tok() } } else { "_".into() }
    } else { "_".into() };
    let d = db.clone();
    let fl = flush_ok.load(Ordering::SeqCst) && with_deadline(if failed_q { 12 } else { DL }, move || d.force_flush()).is_some();
    // final: everything acknowledged is there exactly once
    let total: Vec<u64> = acked.iter().map(|a| a.load(Ordering::SeqCst)).collect();
    let out = query_full(&db, &sql_for("present", T), true, if failed_q { 8 } else { DL });
    let lens_final = lens.lock().unwrap().clone();
    let fin = match judge_stress(&out, &total, &lens_final, ningest, false) {
        None => { // and nothing beyond the acknowledged
            let want: usize = lens_final.iter().filter(|(b, _)| **b == SEED_BID || ((**b % KSHIFT) as u64) < total[(**b / KSHIFT) as usize]).map(|(_, n)| *n).sum();
            let got = out.rows().map(|r| r.len()).unwrap_or(0);
            if got == want { "ok".to_string() } else { format!("bad:count{}vs{}", got, want) }
        }
        Some(v) => format!("bad:{}", v),
    };
    let bad = bad.lock().unwrap();
    let st = if disk { "disk" } else { "mem" };
    let mode = if rough { "rough" } else { "clean" };
    let line = format!("stress th={} in={} qr={} st={} mode={} nq={} bad={} badq={} first={} fl={} fin={}", threads, ningest, nquery, st, mode,
        nq.load(Ordering::SeqCst), bad.len(), badq.load(Ordering::SeqCst), bad.first().cloned().unwrap_or("_".into()).replace(' ', "_"), if fl { "ok" } else { "hang" }, fin);
    let impl_out = format!("bad={} fl={} fin={}", bad.len(), if fl { "ok" } else { "hang" }, fin);
    cases.push(&format!("stress|{}w|{}i|{}q|{}|{}", threads, ningest, nquery, st, mode), &line, &impl_out, &format!("seed={} batches={:?} again={}", seed, total, again));
    if !fl || failed_q { std::mem::forget(db); std::mem::forget(tmp); }
}

/// None = fine. The result must consist of whole batches, contain every batch acknowledged before the query
/// began, and per ingester the batch numbers present must be exactly 0..k (a prefix of its history).
fn judge_stress(out: &QOut, before: &[u64], lens: &BTreeMap<i64, usize>, ningest: usize, table_u: bool) -> Option<String> {
    let (colnames, rows) = match out {
        QOut::Ok { colnames, rows: Some(rows), .. } => (colnames, rows),
        other => return Some(other.tok()),
    };
    let bi = match colnames.iter().position(|c| c == "bid") { Some(i) => i, None => return Some("nocol:bid".into()) };
    let ii = match colnames.iter().position(|c| c == "idx") { Some(i) => i, None => return Some("nocol:idx".into()) };
    let mut seen: BTreeMap<i64, BTreeSet<i64>> = BTreeMap::new();
    for r in rows {
        let (b, i) = match (&r[bi], &r[ii]) { (Cell::Int(b), Cell::Int(i)) => (*b, *i), _ => return Some("badcell".into()) };
        if !seen.entry(b).or_default().insert(i) { return Some(format!("dup:{}.{}", b, i)); }
    }
    for (b, idxs) in &seen {
        let n = match lens.get(b) { Some(n) => *n + table_u as usize, None => return Some(format!("unknown-batch:{}", b)) };
        if idxs.len() != n || *idxs.iter().next_back().unwrap() != n as i64 - 1 { return Some(format!("torn:{}:{}of{}", b, idxs.len(), n)); }
    }
    if !seen.contains_key(&SEED_BID) { return Some("missing-seed".into()); }
    for k in 0..ningest {
        let present: Vec<i64> = seen.keys().filter(|b| **b / KSHIFT == k as i64).map(|b| b % KSHIFT).collect();
        for (pos, j) in present.iter().enumerate() { if *j != pos as i64 { return Some(format!("gap:ingester{}:missing{}", k, pos)); } }
        if (present.len() as u64) < before[k] { return Some(format!("lost-acked:ingester{}:{}of{}", k, present.len(), before[k])); }
    }
    None
}

// ------------------------------------------------------------------------------------------------
fn pl(label: &str, disk: bool, evict: bool, cf: u64, pre: &[usize], buf: &[usize], x: bool, q: &str, ing2: Option<usize>) -> Placement {
    Placement { hold: false, label: label.into(), disk, evict, restart: false, cf, pre: pre.to_vec(), buf: buf.to_vec(), extra_in_buf: x, two: false,
        mid_evict: false, qkind: q.into(), ing2 }
}

fn kv<'a>(toks: &'a [&'a str], k: &str) -> &'a str {
    toks.iter().find_map(|t| t.strip_prefix(k).and_then(|r| r.strip_prefix('='))).unwrap_or("_")
}
fn parse_sizes(s: &str) -> Vec<usize> { if s == "[]" || s == "_" { vec![] } else { s.split(',').filter_map(|x| x.parse().ok()).collect() } }

/// `--replay <file>`: re-run the case whose model line a replay file of ./check carries.
fn placement_from_line(line: &str) -> Option<Placement> {
    let toks: Vec<&str> = line.split(' ').collect();
    if toks.len() < 3 || (toks[0] != "place" && toks[0] != "hold") { return None; }
    Some(Placement {
        hold: toks[0] == "hold", label: toks[1].to_string(), disk: kv(&toks, "st") == "disk", evict: kv(&toks, "ev") == "1", restart: kv(&toks, "rs") == "1",
        cf: kv(&toks, "cf").parse().unwrap_or(4), pre: parse_sizes(kv(&toks, "pre")), buf: parse_sizes(kv(&toks, "buf")), extra_in_buf: kv(&toks, "x") == "1",
        two: kv(&toks, "two") == "1", mid_evict: kv(&toks, "mid") == "evict", qkind: kv(&toks, "q").to_string(), ing2: kv(&toks, "ing2").parse().ok(),
    })
}
fn find_model_line(v: &serde_json::Value) -> Option<String> {
    match v {
        serde_json::Value::Object(m) => {
            if let Some(serde_json::Value::String(s)) = m.get("model_line") { return Some(s.clone()); }
            m.values().find_map(find_model_line)
        }
        serde_json::Value::Array(a) => a.iter().find_map(find_model_line),
        _ => None,
    }
}

/// Past failures (witnesses of fixed and open findings) — always run, first.
fn corpus() -> Vec<Placement> {
    let mut v = vec![];
    // fixed finding c10-fresh-partition-placeholder (DESIGN §8 #18): placeholder handle / eviction between batch() and the handle read
    v.push(pl("flush:batch:after:t", false, false, 4, &[1], &[3, 1], false, "absent", None));
    v.push(Placement { mid_evict: true, ..pl("flush:batch:after:t", true, false, 4, &[1], &[2, 1], false, "absent", None) });
    // open finding c10-uncatalogued-partition-lookup: merged partition visible before it is catalogued
    v.push(pl("flush:compact:swap:after:t", true, false, 1, &[1], &[3, 2], false, "absent", Some(2)));
    // … and (DESIGN §8 #19) a held query whose partitions were compacted away and garbage-collected underneath it:
    // restored after a restart (no handles yet) + a column they lack; or evicted just before the swap
    v.push(Placement { hold: true, restart: true, ..pl("done", true, false, 1, &[2], &[1, 2], false, "absent", None) });
    v.push(Placement { hold: true, mid_evict: true, ..pl("done", true, false, 1, &[2], &[1, 2], false, "present", None) });
    // (evicted BEFORE the flush is harmless: compaction re-reads — and so re-loads — every column of its inputs)
    v.push(Placement { hold: true, ..pl("done", true, true, 1, &[2], &[1, 2], false, "present", None) });
    v
}

fn main() {
    let args = parse_args();
    if std::env::var("C10_LOUD").is_err() { quiet_panics(); }
    let verbose = args.rest.iter().any(|a| a == "--verbose");
    let only: Option<String> = args.rest.iter().position(|a| a == "--only").map(|i| args.rest[i + 1].clone());
    let g = gate().clone();
    vharness::locustdb::verif::set_sync_callback(Some(Box::new(move |l| g.on_label(l))));
    let mut rng = Rng::new(args.seed);
    if args.rest.iter().any(|a| a == "--probe-star") {
        // sequential probe (no concurrency at all): the OLD stress workload (narrow ids) replayed by ONE thread
        let flush_every: i64 = args.rest.iter().position(|a| a == "--flush-every").map(|i| args.rest[i + 1].parse().unwrap()).unwrap_or(0);
        let db = Arc::new(LocustDB::new(&opts(None, 2, 3)));
        let mut total = 0;
        ingest(&db, &request(999_000_000, 1, false, true));
        total += 1;
        let mut js = [0i64; 3];
        for step in 0..1500i64 {
            let k = rng.below(3) as usize;
            let n = 1 + rng.below(5) as usize;
            total += n;
            ingest(&db, &request(k as i64 * 1_000_000 + js[k], n, rng.chance(1, 8), true));
            js[k] += 1;
            if flush_every > 0 && step % flush_every == flush_every - 1 { db.force_flush(); }
            if total > 700 && step % 12 == 0 {
                let r = run_q(&db, "star", DL);
                if !r.0.starts_with(&format!("ok:{}:", total)) { println!("after step {} ({} rows) star -> {} {}", step, total, &r.0[..r.0.len().min(40)], r.1); std::process::exit(0); }
            }
        }
        println!("probe done");
        std::process::exit(0);
    }
    let mut cases = Cases::create(&args.out);
    let t0 = Instant::now();
    let thorough = args.thorough();
    if let Some(path) = &args.replay {
        let run_root = tmp_root().join(format!("c10-run-{}", std::process::id()));
        std::fs::create_dir_all(&run_root).unwrap();
        std::env::set_var("C10_TMP", &run_root);
        let line = std::fs::read_to_string(path).ok().and_then(|t| serde_json::from_str::<serde_json::Value>(&t).ok()).and_then(|v| find_model_line(&v)).unwrap_or_default();
        match placement_from_line(&line) {
            Some(p) => for _ in 0..3 { run_placement(&p, &mut cases, true); },
            None => {
                let toks: Vec<&str> = line.split(' ').collect();
                if toks.first() == Some(&"stress") {
                    let n = |k: &str| kv(&toks, k).parse::<usize>().unwrap_or(2);
                    for i in 0..3 { run_stress(args.seed.wrapping_mul(1000).wrapping_add(i), n("th"), n("in"), n("qr"), 6000, kv(&toks, "st") == "disk", kv(&toks, "mode") == "rough", &mut cases); }
                } else { eprintln!("[c10] no replayable model line in {:?}", path); }
            }
        }
        let _ = std::fs::remove_dir_all(&run_root);
        cases.finish();
        std::process::exit(0);
    }

    // ---- placements
    let mut plan: Vec<Placement> = corpus();
    let qkinds = ["present", "absent", "star", "extra"];
    for label in FLUSH_LABELS {
        let compaction = label.contains("compact");
        let storage_only = STORAGE_ONLY.contains(label);
        for (disk, evict) in [(false, false), (true, false), (true, true)] {
            if storage_only && !disk { continue; }
            // quick tier: one query kind per (label, storage) — always `absent` on the plain disk variant (the kind that
            // creates placeholder handles), a seeded one elsewhere; thorough: all four
            let kinds: Vec<&str> = if thorough { qkinds.to_vec() } else if disk && !evict { vec!["absent"] } else { vec![*rng.pick(&qkinds)] };
            if !thorough && disk && evict && !rng.chance(1, 3) { continue; }
            for qkind in kinds {
                // cf=1: every flush that leaves >= 2 partitions compacts them; cf=4 with five equal partitions: one 5-way compaction
                let (cf, pre) = if compaction || rng.chance(1, 2) {
                    if rng.chance(1, 3) { (4u64, vec![2usize, 2, 2, 2]) } else { (1u64, vec![1 + rng.below(3) as usize]) }
                } else { (4u64, vec![1 + rng.below(3) as usize]) };
                let five = pre.len() == 4;
                plan.push(Placement {
                    buf: if five { vec![2] } else { vec![1 + rng.below(3) as usize, 1 + rng.below(3) as usize] },
                    ing2: if rng.chance(2, 3) { Some(1 + rng.below(3) as usize) } else { None },
                    ..pl(label, disk, evict, cf, &pre, &[], qkind == "extra" || rng.chance(1, 4), qkind, None)
                });
            }
        }
    }
    // eviction while the flush is parked (disk only: without storage an evicted column is gone by design)
    let midev_labels: Vec<&str> = if thorough { FLUSH_LABELS.iter().cloned().filter(|l| *l != "flush:freeze:before").collect() }
        else { vec!["flush:handles:after:t", "flush:persist:after", "flush:compact:files:t", "flush:compact:prepare:after:t"] };
    for label in midev_labels {
        let kinds: Vec<&str> = if thorough { vec!["present", "absent"] } else { vec!["present"] };
        for q in kinds {
            plan.push(Placement { mid_evict: true, ..pl(label, true, false, 1, &[2], &[1, 2], false, q, Some(1)) });
        }
    }
    // two tables per request; the flush is parked at a boundary of the OTHER table
    let two_labels: Vec<&str> = if thorough { vec!["flush:batch:after:u", "flush:handles:after:u", "flush:persist:files:u", "flush:compact:swap:after:u", "flush:compact:files:u", "flush:compact:prepare:after:u", "flush:freeze:after", "flush:batching:done"] }
        else { vec!["flush:batch:after:u", "flush:compact:swap:after:u"] };
    for label in two_labels {
        for disk in [false, true] {
            if !disk && STORAGE_ONLY.contains(&label) { continue; }
            if !thorough && !disk { continue; }
            plan.push(Placement { two: true, ..pl(label, disk, false, 1, &[2], &[1, 2], false, if disk { "absent" } else { "star" }, Some(2)) });
        }
    }
    // labels INSIDE critical sections: the query must block (witness that the lock is held across the step)
    for label in ["flush:batch:taken:t", "flush:compact:swap:mid:t"] {
        for disk in [false, true] {
            if !thorough && (disk != label.contains("compact")) { continue; }
            plan.push(pl(label, disk, false, 1, &[2], &[1, 2], false, "present", None));
        }
    }
    for label in ["ingest:locked", "ingest:done"] {
        for disk in [false, true] {
            if !thorough && disk { continue; }
            plan.push(pl(label, disk, false, 4, &[2], &[1, 2], false, "present", Some(2)));
        }
    }
    // held queries (disk): the flush runs underneath a query that already has its snapshot
    // (evict-before-flush, restart, evict-before-swap, query kind)
    let uptos: Vec<&str> = if thorough { vec!["done", "flush:persist:after", "flush:compact:swap:after:t", "flush:compact:prepare:after:t", "flush:meta:after", "flush:gc:partitions:after"] }
        else { vec!["done", "flush:compact:swap:after:t", "flush:compact:prepare:after:t"] };
    for upto in uptos {
        let variants: Vec<(bool, bool, bool, &str)> = if thorough {
            vec![(false, false, false, "present"), (false, false, false, "absent"), (true, false, false, "present"), (true, false, false, "star"), (false, true, false, "present"),
                 (false, true, false, "absent"), (false, true, false, "extra"), (false, false, true, "present"), (false, false, true, "absent"), (false, true, true, "star")]
        } else if upto == "done" { vec![(false, false, false, "absent"), (false, true, false, "present")] } else { vec![(false, false, true, "present")] };
        for (evict, restart, midev, q) in variants {
            if midev && upto == "flush:persist:after" { continue; }
            for (cf, pre) in [(1u64, vec![2usize]), (4u64, vec![2usize, 2, 2, 2])] {
                if pre.len() == 4 && !(upto == "done" && (thorough || restart)) { continue; }
                plan.push(Placement { hold: true, restart, mid_evict: midev, ..pl(upto, true, evict, cf, &pre, &[2], false, q, None) });
            }
        }
    }
    // a memory-only held query (nothing can be non-resident: must always succeed)
    plan.push(Placement { hold: true, ..pl("done", false, false, 1, &[2], &[1, 2], true, "extra", None) });

    // (threads, ingesters, queriers, disk, rough)
    let stress_runs: Vec<(usize, usize, usize, bool, bool)> = if thorough {
        vec![(1, 2, 2, false, true), (2, 3, 3, false, true), (4, 3, 4, false, true), (2, 2, 2, true, false), (4, 3, 3, true, false), (1, 1, 1, true, false),
             (2, 4, 2, false, true), (4, 2, 4, true, false), (2, 2, 3, true, true), (4, 3, 3, true, true)]
    } else {
        vec![(2, 3, 3, false, true), (4, 2, 3, true, false)]
    };
    let millis = if thorough { 6000 } else { 2500 };

    // ---- child mode: exactly one case, printed on stdout; the process exit also ends whatever a faulted database left
    // spinning (a worker that died in `load_column` leaves `load_scheduled` set: later lookups busy-wait forever)
    if let Some(i) = args.rest.iter().position(|a| a == "--one").map(|i| args.rest[i + 1].parse::<usize>().unwrap()) {
        if i < plan.len() { run_placement(&plan[i], &mut cases, verbose); }
        else if let Some((threads, ni, nqr, disk, rough)) = stress_runs.get(i - plan.len()).cloned() {
            run_stress(args.seed.wrapping_mul(1000).wrapping_add((i - plan.len()) as u64), threads, ni, nqr, millis, disk, rough, &mut cases);
        }
        cases.finish();
        std::process::exit(0);
    }

    // ---- parent: every case in its own child process, a few at a time
    let selected: Vec<usize> = (0..plan.len() + stress_runs.len()).filter(|i| match &only {
        None => true,
        Some(o) if o == "stress" => *i >= plan.len(),
        Some(o) => *i < plan.len() && (plan[*i].label.contains(o.as_str()) || (plan[*i].hold && o == "hold")),
    }).collect();
    let jobs: usize = args.rest.iter().position(|a| a == "--jobs").map(|i| args.rest[i + 1].parse().unwrap()).unwrap_or(6);
    let exe = std::env::current_exe().unwrap();
    let run_root = tmp_root().join(format!("c10-run-{}", std::process::id()));
    std::fs::create_dir_all(&run_root).unwrap();
    let queue = Arc::new(Mutex::new(selected.clone().into_iter().rev().collect::<Vec<usize>>()));
    let results: Arc<Mutex<BTreeMap<usize, Vec<String>>>> = Arc::new(Mutex::new(BTreeMap::new()));
    let mut workers = vec![];
    for _ in 0..jobs.max(1) {
        let (queue, results, exe, out, seed, tier, nplan, run_root) = (queue.clone(), results.clone(), exe.clone(), args.out.clone(), args.seed, args.tier.clone(), plan.len(), run_root.clone());
        workers.push(std::thread::spawn(move || loop {
            let i = match queue.lock().unwrap().pop() { Some(i) => i, None => return };
            // stress runs are timing sensitive: wait until the placements are through, then run them one at a time
            if i >= nplan { while queue.lock().unwrap().iter().any(|j| *j < nplan) { std::thread::sleep(Duration::from_millis(50)); } }
            let dir = out.join(format!("child{}", i));
            let mut cmd = std::process::Command::new(&exe);
            cmd.args(["--seed", &seed.to_string(), "--tier", &tier, "--out", dir.to_str().unwrap(), "--one", &i.to_string()]);
            if verbose { cmd.arg("--verbose"); }
            cmd.env("C10_TMP", &run_root);
            let mut child = cmd.stdout(std::process::Stdio::null()).spawn().unwrap();
            let t0 = Instant::now();
            let mut finished = false;
            while t0.elapsed() < Duration::from_secs(12 * DL) {
                if child.try_wait().unwrap().is_some() { finished = true; break; }
                std::thread::sleep(Duration::from_millis(20));
            }
            if !finished { let _ = child.kill(); let _ = child.wait(); }
            let lines: Vec<String> = std::fs::read_to_string(dir.join("cases.tsv")).unwrap_or_default().lines().map(|l| l.to_string()).collect();
            let _ = std::fs::remove_dir_all(&dir);
            if std::env::var("C10_TIMES").is_ok() { eprintln!("[c10] child {} took {:.1}s: {}", i, t0.elapsed().as_secs_f64(), lines.first().map(|l| l.split('\t').nth(1).unwrap_or("").to_string()).unwrap_or_default()); }
            results.lock().unwrap().insert(i, lines);
        }));
    }
    for w in workers { let _ = w.join(); }
    let _ = std::fs::remove_dir_all(&run_root);
    let results = results.lock().unwrap();
    let mut lost = 0;
    for i in &selected {
        let lines = results.get(i).cloned().unwrap_or_default();
        if lines.is_empty() {
            lost += 1;
            let what = if *i < plan.len() { format!("{} {}", if plan[*i].hold { "hold" } else { "place" }, plan[*i].label) } else { "stress".to_string() };
            cases.push("harness|child-lost", &format!("lost {} idx={}", what, i), "lost", "child process produced no case (killed after its deadline)");
        }
        for l in lines {
            let f: Vec<&str> = l.split('\t').collect();
            if f.len() >= 4 { cases.push(f[1], f[2], f[3], f.get(4).unwrap_or(&"")); }
        }
    }
    eprintln!("[c10] {} cases ({} placements planned, {} stress runs, {} lost) in {:.1}s with {} jobs", selected.len(), plan.len(), stress_runs.len(), lost, t0.elapsed().as_secs_f64(), jobs);
    cases.finish();
    // leaked (hung) databases keep threads alive: leave without joining them
    std::process::exit(0);
}
