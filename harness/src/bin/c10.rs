//! C10: a concurrent query sees a clean prefix of every table.
//!
//! Part 1 (placements): a flush (or an ingestion) is parked at one named sync point at a time; while it is
//! parked another thread issues queries (present / absent / `*` / non-resident column) and optionally a
//! second ingestion, each under a deadline; then the parked thread is released, the flush must complete and a
//! final query must see everything.
//! Part 2 (stress): N ingest threads, one flusher, M query threads on one table; every query result must be a
//! batch-whole set of batches that contains every batch acknowledged before the query began and, per ingest
//! thread, a prefix of that thread's batches.
//!
//! Model line grammar (consumed by lean/LocustModel/Drv/C10.lean):
//!   place <label> <mem|disk> ev=<0|1> cf=<n> pre=<sizes> buf=<sizes> q=<present|absent|star> ing2=<size|_>
//!         hit=<0|1> q1=<res> i2=<ok|hang|_> q2=<res|_> fl=<ok|hang> fin=<res>
//!   stress <threads> <ingesters> <queriers> nq=<n> bad=<n> first=<text|_> fl=<ok|hang> fin=<ok|bad>
//! <res> = ok:<n>:<b.i,b.i,…>(sorted) | ok:0: | err:<kind> | panic | hang | badnull
use std::collections::{BTreeMap, BTreeSet};
use std::sync::atomic::{AtomicBool, AtomicU64, Ordering};
use std::sync::{Arc, Condvar, Mutex};
use std::time::{Duration, Instant};
use vharness::locustdb::LocustDB;
use vharness::*;

// ------------------------------------------------------------------------------------------------
// Gate: parks the first thread that reaches the armed label until released.
#[derive(Default)]
struct GateState {
    target: Option<String>,
    fired: bool,
    parked: bool,
    release: bool,
    trace: Vec<String>,
}
struct Gate {
    st: Mutex<GateState>,
    cv: Condvar,
}
static GATE: std::sync::OnceLock<Arc<Gate>> = std::sync::OnceLock::new();
fn gate() -> &'static Arc<Gate> {
    GATE.get_or_init(|| Arc::new(Gate { st: Mutex::new(GateState::default()), cv: Condvar::new() }))
}
impl Gate {
    fn on_label(&self, label: &str) {
        let mut g = self.st.lock().unwrap();
        if g.target.is_none() { return; }
        if g.trace.len() < 400 && !label.starts_with("cols:") && !label.starts_with("load:") { g.trace.push(label.to_string()); }
        if !g.fired && g.target.as_deref() == Some(label) {
            g.fired = true;
            g.parked = true;
            self.cv.notify_all();
            while !g.release { g = self.cv.wait(g).unwrap(); }
            g.parked = false;
            self.cv.notify_all();
        }
    }
    fn arm(&self, label: &str) {
        let mut g = self.st.lock().unwrap();
        *g = GateState { target: Some(label.to_string()), ..GateState::default() };
    }
    fn disarm(&self) -> Vec<String> {
        let mut g = self.st.lock().unwrap();
        g.release = true;
        g.target = None;
        self.cv.notify_all();
        std::mem::take(&mut g.trace)
    }
    fn wait_parked(&self, ms: u64) -> bool {
        let g = self.st.lock().unwrap();
        let (g, _) = self.cv.wait_timeout_while(g, Duration::from_millis(ms), |g| !g.parked).unwrap();
        g.parked
    }
    fn release(&self) {
        let mut g = self.st.lock().unwrap();
        g.release = true;
        self.cv.notify_all();
    }
}

// ------------------------------------------------------------------------------------------------
const T: &str = "t";

/// batch `b` with `n` rows: bid = b, idx = 0..n, val = 1000*b + idx, tag = "g<b%3>"; `extra` adds a column
/// only this batch has (so other partitions lack it).
fn mk_batch(b: i64, n: usize, extra: bool) -> Batch {
    let mut cols = vec![
        ("bid".to_string(), ColRep::I64(vec![b; n])),
        ("idx".to_string(), ColRep::I64((0..n as i64).collect())),
        ("val".to_string(), ColRep::I64((0..n as i64).map(|i| 1000 * b + i).collect())),
        ("tag".to_string(), ColRep::Str((0..n).map(|_| format!("g{}", b % 3)).collect())),
    ];
    if extra { cols.push(("xtr".to_string(), ColRep::I64(vec![7; n]))); }
    Batch { table: T.into(), len: n as u64, cols }
}

fn canon(out: &QOut, qkind: &str) -> String {
    match out {
        QOut::Ok { colnames, rows: Some(rows), .. } => {
            let bi = colnames.iter().position(|c| c == "bid");
            let ii = colnames.iter().position(|c| c == "idx");
            let (bi, ii) = match (bi, ii) { (Some(a), Some(b)) => (a, b), _ => return if rows.is_empty() { "ok:0:".into() } else { "badcols".into() } };
            let mut v: Vec<(i64, i64)> = vec![];
            for r in rows {
                match (&r[bi], &r[ii]) {
                    (Cell::Int(b), Cell::Int(i)) => v.push((*b, *i)),
                    _ => return "badcell".into(),
                }
                if qkind == "absent" {
                    if let Some(ni) = colnames.iter().position(|c| c == "nosuch") { if r[ni] != Cell::Null { return "badnull".into(); } }
                }
                if let Some(vi) = colnames.iter().position(|c| c == "val") {
                    if let (Cell::Int(b), Cell::Int(i)) = (&r[bi], &r[ii]) { if r[vi] != Cell::Int(1000 * b + i) { return "badval".into(); } }
                }
            }
            v.sort();
            format!("ok:{}:{}", v.len(), v.iter().map(|(b, i)| format!("{}.{}", b, i)).collect::<Vec<_>>().join(","))
        }
        QOut::Ok { .. } => "badfmt".into(),
        other => other.tok(),
    }
}

fn sql_for(qkind: &str) -> &'static str {
    match qkind {
        "present" => "SELECT bid, idx, val FROM t",
        "absent" => "SELECT bid, idx, nosuch FROM t",
        "extra" => "SELECT bid, idx, xtr FROM t",
        _ => "SELECT * FROM t",
    }
}

fn run_q(db: &Arc<LocustDB>, qkind: &str, secs: u64) -> (String, String) {
    let out = query_full(db, sql_for(qkind), true, secs);
    (canon(&out, qkind), out.detail())
}

fn opts(dir: Option<&std::path::Path>, threads: usize, cf: u64) -> vharness::locustdb::Options {
    let mut o = match dir { Some(d) => disk_options(d), None => base_options() };
    o.threads = threads;
    o.partition_combine_factor = cf;
    o
}

pub const FLUSH_LABELS: &[&str] = &[
    "flush:freeze:before", "flush:freeze:after", "flush:batch:after:t", "flush:handles:after:t", "flush:batching:done",
    "flush:persist:after", "flush:compact:swap:before:t", "flush:compact:swap:after:t", "flush:compact:prepare:after:t",
    "flush:compaction:done", "flush:meta:after", "flush:gc:partitions:after", "flush:gc:wal:after",
];

struct Placement {
    label: String,
    disk: bool,
    evict: bool,
    cf: u64,
    pre: Vec<usize>,
    buf: Vec<usize>,
    qkind: String,
    ing2: Option<usize>,
    /// first batch of `buf` carries the extra column (so the fresh partition has it and older ones lack it)
    extra_in_buf: bool,
}

fn sizes(v: &[usize]) -> String { fmt_list(v) }

fn run_placement(p: &Placement, cases: &mut Cases, verbose: bool) {
    let tmp = if p.disk { Some(tempfile::tempdir().unwrap()) } else { None };
    let db = Arc::new(LocustDB::new(&opts(tmp.as_ref().map(|d| d.path()), 2, p.cf)));
    let mut next_b = 1i64; // (batch 0 would encode `val` without an offset and be smaller: sizes steer compaction)
    // history: every `pre` batch flushed into its own partition (compaction may already merge some)
    let mut setup_ok = true;
    for n in &p.pre {
        ingest(&db, &[mk_batch(next_b, *n, false)]);
        next_b += 1;
        let d = db.clone();
        if with_deadline(20, move || d.force_flush()).is_none() { setup_ok = false; break; }
    }
    for (k, n) in p.buf.iter().enumerate() {
        ingest(&db, &[mk_batch(next_b, *n, p.extra_in_buf && k == 0)]);
        next_b += 1;
    }
    if p.evict && p.disk { db.evict_cache(); }
    let is_ingest_label = p.label.starts_with("ingest:");
    gate().arm(&p.label);
    // the parked operation
    let d = db.clone();
    let ing_parked = p.ing2.unwrap_or(2);
    let parked_b = next_b;
    let (ptx, prx) = std::sync::mpsc::channel();
    std::thread::spawn(move || {
        let r = std::panic::catch_unwind(std::panic::AssertUnwindSafe(|| {
            if is_ingest_label { ingest(&d, &[mk_batch(parked_b, ing_parked, false)]); } else { d.force_flush(); }
        }));
        let _ = ptx.send(r.is_ok());
    });
    if is_ingest_label { next_b += 1; }
    let hit = setup_ok && gate().wait_parked(4000);
    let mut q1 = ("_".to_string(), String::new());
    let mut i2 = "_".to_string();
    let mut q2 = ("_".to_string(), String::new());
    if hit {
        q1 = run_q(&db, &p.qkind, 6);
        if is_ingest_label {
            // a flush started now must wait for the ingestion lock: it may not complete while the ingestion is parked
            let d = db.clone();
            let (ftx, frx) = std::sync::mpsc::channel();
            std::thread::spawn(move || { d.force_flush(); let _ = ftx.send(()); });
            i2 = if frx.recv_timeout(Duration::from_millis(700)).is_ok() { "flushed".into() } else { "blocked".into() };
            q2 = run_q(&db, &p.qkind, 6);
            gate().release();
            let _ = frx.recv_timeout(Duration::from_secs(15));
        } else if let Some(n) = p.ing2 {
            let d = db.clone();
            let b = mk_batch(next_b, n, false);
            next_b += 1;
            i2 = match with_deadline(6, move || ingest(&d, &[b])) { Some(Ok(())) => "ok".into(), Some(Err(_)) => "panic".into(), None => "hang".into() };
            q2 = run_q(&db, &p.qkind, 6);
        }
    }
    gate().release();
    let fl = match prx.recv_timeout(Duration::from_secs(if hit { 5 } else { 10 })) { Ok(true) => "ok", Ok(false) => "panic", Err(_) => "hang" };
    let trace = gate().disarm();
    let fin = if fl == "ok" { run_q(&db, "present", 10) } else { run_q(&db, "present", 4) };
    let line = format!(
        "place {} {} ev={} cf={} pre={} buf={} x={} q={} ing2={} hit={} q1={} i2={} q2={} fl={} fin={}",
        p.label, if p.disk { "disk" } else { "mem" }, p.evict as u8, p.cf, sizes(&p.pre), sizes(&p.buf), p.extra_in_buf as u8, p.qkind,
        p.ing2.map(|n| n.to_string()).unwrap_or("_".into()), hit as u8, q1.0, i2, q2.0, fl, fin.0);
    let impl_out = format!("q1={} i2={} q2={} fl={} fin={}", q1.0, i2, q2.0, fl, fin.0);
    let class = format!("{}|{}|{}{}|{}", p.label, p.qkind, if p.disk { "disk" } else { "mem" }, if p.evict { "+ev" } else { "" }, if hit { "hit" } else { "nothit" });
    let note = format!("{} {} {}", q1.1, q2.1, fin.1);
    if verbose { eprintln!("{}\n    trace={:?}\n    {}", line, trace.iter().filter(|l| l.ends_with(":t") || !l.contains(":_meta")).collect::<Vec<_>>(), note); }
    cases.push(&class, &line, &impl_out, note.trim());
    if fl != "ok" { std::mem::forget(db); std::mem::forget(tmp); }
}

// ------------------------------------------------------------------------------------------------
// Stress: batches are identified by (ingester k, sequence j): bid = k * 1_000_000 + j.
fn run_stress(seed: u64, threads: usize, ningest: usize, nquery: usize, millis: u64, disk: bool, cases: &mut Cases) {
    let tmp = if disk { Some(tempfile::tempdir().unwrap()) } else { None };
    let db = Arc::new(LocustDB::new(&opts(tmp.as_ref().map(|d| d.path()), threads, 3)));
    let stop = Arc::new(AtomicBool::new(false));
    // acked[k] = number of batches of ingester k acknowledged (ingest call returned)
    let acked: Arc<Vec<AtomicU64>> = Arc::new((0..ningest).map(|_| AtomicU64::new(0)).collect());
    let lens: Arc<Mutex<BTreeMap<i64, usize>>> = Arc::new(Mutex::new(BTreeMap::new()));
    let mut handles = vec![];
    // seed table so that it exists
    {
        lens.lock().unwrap().insert(999_000_000, 1);
        ingest(&db, &[mk_batch(999_000_000, 1, false)]);
    }
    for k in 0..ningest {
        let (db, stop, acked, lens) = (db.clone(), stop.clone(), acked.clone(), lens.clone());
        let mut rng = Rng::new(seed.wrapping_mul(31).wrapping_add(k as u64));
        handles.push(std::thread::spawn(move || {
            let mut j = 0u64;
            while !stop.load(Ordering::SeqCst) && j < 4000 {
                let n = 1 + rng.below(5) as usize;
                let bid = (k as i64) * 1_000_000 + j as i64;
                lens.lock().unwrap().insert(bid, n);
                ingest(&db, &[mk_batch(bid, n, rng.chance(1, 8))]);
                j += 1;
                acked[k].store(j, Ordering::SeqCst);
                if rng.chance(1, 3) { std::thread::sleep(Duration::from_micros(200 + rng.below(2000))); }
            }
        }));
    }
    let flush_ok = Arc::new(AtomicBool::new(true));
    {
        let (db, stop, flush_ok) = (db.clone(), stop.clone(), flush_ok.clone());
        let mut rng = Rng::new(seed ^ 0xF1);
        handles.push(std::thread::spawn(move || {
            while !stop.load(Ordering::SeqCst) {
                let d = db.clone();
                if with_deadline(20, move || d.force_flush()).is_none() { flush_ok.store(false, Ordering::SeqCst); return; }
                if disk && rng.chance(1, 3) { db.evict_cache(); }
                std::thread::sleep(Duration::from_millis(3 + rng.below(25)));
            }
        }));
    }
    let bad: Arc<Mutex<Vec<String>>> = Arc::new(Mutex::new(vec![]));
    let nq = Arc::new(AtomicU64::new(0));
    for m in 0..nquery {
        let (db, stop, acked, lens, bad, nq) = (db.clone(), stop.clone(), acked.clone(), lens.clone(), bad.clone(), nq.clone());
        let mut rng = Rng::new(seed ^ (0xABC0 + m as u64));
        handles.push(std::thread::spawn(move || {
            while !stop.load(Ordering::SeqCst) {
                let before: Vec<u64> = acked.iter().map(|a| a.load(Ordering::SeqCst)).collect();
                let qkind = *rng.pick(&["present", "present", "star", "absent", "extra"]);
                let out = query_full(&db, sql_for(qkind), true, 15);
                nq.fetch_add(1, Ordering::SeqCst);
                let verdict = judge_stress(&out, &before, &lens.lock().unwrap(), ningest);
                if let Some(v) = verdict { bad.lock().unwrap().push(format!("{}:{}", qkind, v)); }
                if rng.chance(1, 2) { std::thread::sleep(Duration::from_micros(rng.below(1500))); }
            }
        }));
    }
    std::thread::sleep(Duration::from_millis(millis));
    stop.store(true, Ordering::SeqCst);
    let t0 = Instant::now();
    for h in handles { while !h.is_finished() && t0.elapsed() < Duration::from_secs(30) { std::thread::sleep(Duration::from_millis(5)); } }
    let d = db.clone();
    let fl = flush_ok.load(Ordering::SeqCst) && with_deadline(20, move || d.force_flush()).is_some();
    // final: everything acknowledged is there exactly once
    let total: Vec<u64> = acked.iter().map(|a| a.load(Ordering::SeqCst)).collect();
    let out = query_full(&db, sql_for("present"), true, 20);
    let fin = match judge_stress(&out, &total, &lens.lock().unwrap(), ningest) {
        None => { // and nothing beyond the acknowledged
            let want: usize = lens.lock().unwrap().iter().filter(|(b, _)| **b == 999_000_000 || ((**b % 1_000_000) as u64) < total[(**b / 1_000_000) as usize]).map(|(_, n)| *n).sum();
            let got = out.rows().map(|r| r.len()).unwrap_or(0);
            if got == want { "ok".to_string() } else { format!("bad:count{}vs{}", got, want) }
        }
        Some(v) => format!("bad:{}", v),
    };
    let bad = bad.lock().unwrap();
    let line = format!("stress {} {} {} {} nq={} bad={} first={} fl={} fin={}", threads, ningest, nquery, if disk { "disk" } else { "mem" },
        nq.load(Ordering::SeqCst), bad.len(), bad.first().cloned().unwrap_or("_".into()).replace(' ', "_"), if fl { "ok" } else { "hang" }, fin);
    let impl_out = format!("bad={} fl={} fin={}", bad.len(), if fl { "ok" } else { "hang" }, fin);
    cases.push(&format!("stress|{}w|{}i|{}q|{}", threads, ningest, nquery, if disk { "disk" } else { "mem" }), &line, &impl_out, &format!("seed={} batches={:?}", seed, total));
    if !fl { std::mem::forget(db); std::mem::forget(tmp); }
}

/// None = fine. The result must consist of whole batches, contain every batch acknowledged before the query
/// began, and per ingester the batch numbers present must be exactly 0..k (a prefix of its history).
fn judge_stress(out: &QOut, before: &[u64], lens: &BTreeMap<i64, usize>, ningest: usize) -> Option<String> {
    let (colnames, rows) = match out {
        QOut::Ok { colnames, rows: Some(rows), .. } => (colnames, rows),
        other => return Some(other.tok()),
    };
    let bi = colnames.iter().position(|c| c == "bid")?;
    let ii = colnames.iter().position(|c| c == "idx")?;
    let mut seen: BTreeMap<i64, BTreeSet<i64>> = BTreeMap::new();
    for r in rows {
        let (b, i) = match (&r[bi], &r[ii]) { (Cell::Int(b), Cell::Int(i)) => (*b, *i), _ => return Some("badcell".into()) };
        if !seen.entry(b).or_default().insert(i) { return Some(format!("dup:{}.{}", b, i)); }
    }
    for (b, idxs) in &seen {
        let n = match lens.get(b) { Some(n) => *n, None => return Some(format!("unknown-batch:{}", b)) };
        if idxs.len() != n || *idxs.iter().next_back().unwrap() != n as i64 - 1 { return Some(format!("torn:{}:{}of{}", b, idxs.len(), n)); }
    }
    if !seen.contains_key(&999_000_000) { return Some("missing-seed".into()); }
    for k in 0..ningest {
        let present: Vec<i64> = seen.keys().filter(|b| **b / 1_000_000 == k as i64).map(|b| b % 1_000_000).collect();
        for (pos, j) in present.iter().enumerate() { if *j != pos as i64 { return Some(format!("gap:ingester{}:missing{}", k, pos)); } }
        if (present.len() as u64) < before[k] { return Some(format!("lost-acked:ingester{}:{}of{}", k, present.len(), before[k])); }
    }
    None
}

fn main() {
    let args = parse_args();
    quiet_panics();
    let verbose = args.rest.iter().any(|a| a == "--verbose");
    let only: Option<String> = args.rest.iter().position(|a| a == "--only").map(|i| args.rest[i + 1].clone());
    let g = gate().clone();
    vharness::locustdb::verif::set_sync_callback(Some(Box::new(move |l| g.on_label(l))));
    let mut rng = Rng::new(args.seed);
    let mut cases = Cases::create(&args.out);
    let t0 = Instant::now();

    // ---- placements
    let mut plan: Vec<Placement> = vec![];
    let qkinds = ["present", "absent", "star", "extra"];
    for label in FLUSH_LABELS {
        for (disk, evict) in [(false, false), (true, false), (true, true)] {
            let compaction = label.contains("compact");
            let storage_only = ["flush:meta:after", "flush:gc:partitions:after", "flush:gc:wal:after"].contains(label);
            if storage_only && !disk { continue; }
            for qkind in qkinds {
                // quick tier: thin out the cross product deterministically by seed
                if !args.thorough() && !(qkind == "absent" || qkind == "present") && rng.chance(1, 2) { continue; }
                // cf=1: every flush that leaves >= 2 partitions compacts them; cf=4 with five equal partitions: one 5-way compaction
                let (cf, pre) = if compaction || rng.chance(1, 2) {
                    if rng.chance(1, 3) { (4u64, vec![2usize, 2, 2, 2]) } else { (1u64, vec![1 + rng.below(3) as usize]) }
                } else { (4u64, vec![1 + rng.below(3) as usize]) };
                let five = pre.len() == 4;
                plan.push(Placement {
                    label: label.to_string(), disk, evict, cf, pre,
                    buf: if five { vec![2] } else { vec![1 + rng.below(3) as usize, 1 + rng.below(3) as usize] }, qkind: qkind.to_string(),
                    ing2: if rng.chance(2, 3) { Some(1 + rng.below(3) as usize) } else { None },
                    extra_in_buf: qkind == "extra" || rng.chance(1, 4),
                });
            }
        }
    }
    for label in ["ingest:locked", "ingest:done"] {
        for disk in [false, true] {
            plan.push(Placement { label: label.to_string(), disk, evict: false, cf: 4, pre: vec![2], buf: vec![1, 2], qkind: "present".into(), ing2: Some(2), extra_in_buf: false });
        }
    }
    for p in &plan {
        if let Some(o) = &only { if !p.label.contains(o.as_str()) { continue; } }
        run_placement(p, &mut cases, verbose);
    }
    eprintln!("[c10] placements: {} cases in {:.1}s", cases.n, t0.elapsed().as_secs_f64());

    // ---- stress
    if only.is_none() || only.as_deref() == Some("stress") {
        let t1 = Instant::now();
        let runs: Vec<(usize, usize, usize, bool)> = if args.thorough() {
            vec![(1, 2, 2, false), (2, 3, 3, false), (4, 3, 4, false), (2, 2, 2, true), (4, 3, 3, true), (1, 1, 1, true), (2, 4, 2, false), (4, 2, 4, true)]
        } else {
            vec![(2, 3, 3, false), (4, 2, 3, true), (1, 2, 2, true)]
        };
        let millis = if args.thorough() { 6000 } else { 2500 };
        for (i, (threads, ni, nqr, disk)) in runs.into_iter().enumerate() {
            run_stress(args.seed.wrapping_mul(1000).wrapping_add(i as u64), threads, ni, nqr, millis, disk, &mut cases);
        }
        eprintln!("[c10] stress: {:.1}s", t1.elapsed().as_secs_f64());
    }
    cases.finish();
    // leaked (hung) databases keep threads alive: leave without joining them
    std::process::exit(0);
}
