//! C06: integer arithmetic is exact or the query fails — it never wraps.
//!
//! Streams (class prefix):
//!   corpus:*   witnesses of open / fixed findings (run first, deterministic)
//!   layout     one case per table: number of partitions the engine sees vs. the layout the model is told
//!   edge:*     directed operand pairs at the edges of u8/u16/u32/i64 and their offset encodings through every
//!              operator shell (vector∘vector, vector∘scalar, scalar∘vector; nullable or not)
//!   edgeall:*  EVERY pair of the operators' edge sets, each judged alone (quick: one shell per pair, rotating;
//!              thorough: all three shells)
//!   expr:*     random expression trees of depth <= 3 over columns and constants: SELECT <expr> FROM t
//!   sum:*      SELECT SUM(<expr>) FROM t  and  SELECT g, SUM(<expr>) FROM t  over partitionings chosen so that
//!              overflow happens inside one partition, only at merge, or not at all
//!
//! Model lines (see lean/LocustModel/Drv/C06.lean):
//!   layout <bounds>
//!   expr <rpn> <bounds> <ncols> <col0> … <col{n-1}> <implementation output>
//!   sum  <rpn> <bounds> <g|-> <ncols> <col0> … <col{n-1}> <implementation output>
//! bounds = partition boundaries `0,b1,…,n`; col = comma separated `_` | <int>.
//! Databases are built with a partition_combine_factor that rules out compaction: C06 is about partitions, not
//! about compaction (that is C07, whose open findings would otherwise change NULLs to 0 here).
use std::sync::Arc;
use vharness::locustdb::{LocustDB, Options};
use vharness::*;

#[derive(Clone, Debug)]
enum E { Col(usize), K(i64), Null, Bin(char, Box<E>, Box<E>) }

const OPS: [char; 5] = ['+', '-', '*', '/', '%'];
/// `-9223372036854775808` cannot be written as an integer literal (the SQL parser reads 9223372036854775808 as a
/// float before negating it), so i64::MIN reaches the operators through column values only.
fn lit(k: i64) -> i64 { if k == i64::MIN { i64::MIN + 1 } else { k } }
const EDGE_K: [i64; 22] = [0, 1, -1, 2, -2, 10, 255, 256, 65535, 65536, 4294967295, 4294967296, 3037000499, 3037000500, -3037000500,
    9223372036854775806, 9223372036854775807, -9223372036854775807, -9223372036854775806, 4611686018427387904, -4611686018427387904, 127];

fn bin(op: char, l: E, r: E) -> E { E::Bin(op, Box::new(l), Box::new(r)) }
fn is_const(e: &E) -> bool { matches!(e, E::K(_)) }

fn gen_leaf(rng: &mut Rng, ncols: usize) -> E {
    match rng.below(40) {
        0..=25 => E::Col(rng.below(ncols as u64) as usize),
        26..=31 => E::K(*rng.pick(&EDGE_K)),
        32..=35 => E::K(rng.range(-20, 20)),
        36..=38 => E::K(rng.next() as i64 >> rng.below(63)),
        _ => E::Null,
    }
}

/// Mostly supported shapes: an operator with two constant operands (the planner has no constant folding and
/// answers FatalError) is generated only with probability 1/25, a NULL literal with probability 1/40 per leaf.
fn gen_expr(rng: &mut Rng, ncols: usize, depth: u32) -> E {
    if depth == 0 || rng.chance(1, 5) { return gen_leaf(rng, ncols); }
    let op = *rng.pick(&OPS);
    let l = gen_expr(rng, ncols, depth - 1);
    let mut r = gen_expr(rng, ncols, depth - 1);
    if is_const(&l) && is_const(&r) && !rng.chance(1, 25) { r = E::Col(rng.below(ncols as u64) as usize); }
    bin(op, l, r)
}

fn has_col(e: &E) -> bool { match e { E::Col(_) => true, E::Bin(_, l, r) => has_col(l) || has_col(r), _ => false } }
fn depth(e: &E) -> u32 { match e { E::Bin(_, l, r) => 1 + depth(l).max(depth(r)), _ => 0 } }
fn sql(e: &E) -> String {
    match e {
        E::Col(i) => format!("c{}", i),
        E::K(k) => { assert!(*k != i64::MIN); if *k < 0 { format!("({})", k) } else { format!("{}", k) } }
        E::Null => "NULL".into(),
        E::Bin(op, l, r) => format!("({} {} {})", sql(l), op, sql(r)),
    }
}
fn rpn_into(e: &E, out: &mut Vec<String>) {
    match e {
        E::Col(i) => out.push(format!("c{}", i)),
        E::K(k) => out.push(format!("k{}", k)),
        E::Null => out.push("n".into()),
        E::Bin(op, l, r) => { rpn_into(l, out); rpn_into(r, out); out.push(op.to_string()); }
    }
}
fn rpn(e: &E) -> String { let mut v = vec![]; rpn_into(e, &mut v); v.join(",") }

// ---------------------------------------------------------------------------------------------
// Tables and physical layouts.
type Col = Vec<Option<i64>>;

#[derive(Clone, Debug)]
struct Layout {
    /// batch boundaries 0 = b0 <= b1 <= … <= bk = n
    bounds: Vec<usize>,
    /// force_flush after batch i
    flush: Vec<bool>,
    /// leave a column out of a batch in which it is entirely NULL
    omit: bool,
    lz4: bool,
    batch_size: usize,
    threads: usize,
    pref: u64,
}

impl Layout {
    fn single(n: usize) -> Layout { Layout { bounds: vec![0, n], flush: vec![false], omit: false, lz4: false, batch_size: 1024, threads: 1, pref: 0 } }
    /// one flushed partition per segment
    fn split(cuts: &[usize], n: usize) -> Layout {
        let mut bounds = vec![0]; bounds.extend_from_slice(cuts); bounds.push(n);
        let k = bounds.len() - 1;
        Layout { bounds, flush: vec![true; k], omit: true, lz4: false, batch_size: 1024, threads: 2, pref: 0 }
    }
    /// Partition boundaries as the query engine sees them: every flush closes a partition, the rows still in the
    /// open buffer form the last one.  `partition_combine_factor = 10^9` rules out compaction (`size * factor < cumulative
    /// size of this and all later partitions`, table.rs `plan_compaction`, evaluated once per flush) except for a flushed
    /// partition of size 0 bytes - one in which EVERY column is entirely NULL - that is followed by a partition of non-zero
    /// size: then it and everything after it are merged into one partition.
    fn parts(&self, cols: &[Col]) -> Vec<usize> {
        let zero = |s: usize, e: usize| cols.iter().all(|c| c[s..e].iter().all(|x| x.is_none()));
        let mut out = vec![0];
        let mut open = 0;
        for b in 0..self.bounds.len() - 1 {
            let e = self.bounds[b + 1];
            if self.flush[b] {
                if e > open { out.push(e); open = e; }
                let k = out.len() - 1; // flushed partitions: out[i]..out[i+1]
                if let Some(i) = (0..k).find(|&i| zero(out[i], out[i + 1]) && !zero(out[i], open)) { out.truncate(i + 1); out.push(open); }
            }
        }
        let n = *self.bounds.last().unwrap();
        if n > open { out.push(n); }
        out
    }
    fn tag(&self) -> String {
        format!("b{:?} f{:?} om{} lz{} bs{} th{}", self.bounds, self.flush.iter().map(|b| *b as u8).collect::<Vec<_>>(), self.omit as u8, self.lz4 as u8, self.batch_size, self.threads)
    }
}

fn gen_layout(rng: &mut Rng, n: usize) -> Layout {
    let nb = if n == 0 { 1 } else { 1 + rng.below(4.min(n as u64)) as usize };
    let mut cuts: Vec<usize> = (0..nb - 1).map(|_| rng.below(n as u64 + 1) as usize).collect();
    cuts.sort();
    let mut bounds = vec![0]; bounds.extend(cuts); bounds.push(n);
    Layout {
        bounds, flush: (0..nb).map(|_| rng.chance(1, 2)).collect(), omit: rng.chance(1, 2), lz4: rng.chance(1, 3),
        batch_size: *rng.pick(&[8usize, 8, 16, 1024, 1024]), threads: *rng.pick(&[1usize, 2, 4]), pref: rng.next(),
    }
}

fn options_for(l: &Layout) -> Options {
    // size * factor < cumulative size never holds: no compaction
    Options { threads: l.threads, partition_combine_factor: 1_000_000_000, mem_lz4: l.lz4, batch_size: l.batch_size, ..base_options() }
}

fn build(cols: &[Col], l: &Layout) -> Arc<LocustDB> {
    let db = Arc::new(LocustDB::new(&options_for(l)));
    let mut pref = l.pref;
    for b in 0..l.bounds.len() - 1 {
        let (s, e) = (l.bounds[b], l.bounds[b + 1]);
        if e > s {
            let mut bc = vec![];
            for (i, c) in cols.iter().enumerate() {
                let cells: Vec<Cell> = c[s..e].iter().map(|x| match x { Some(v) => Cell::Int(*v), None => Cell::Null }).collect();
                pref = pref.wrapping_mul(6364136223846793005).wrapping_add(1442695040888963407);
                if l.omit && cells.iter().all(|x| *x == Cell::Null) { continue; }
                bc.push((format!("c{}", i), ColRep::from_cells(&cells, pref >> 33)));
            }
            if bc.is_empty() {
                // a batch needs at least one column to carry its length
                bc.push(("c0".to_string(), ColRep::Mixed(vec![Cell::Null; e - s])));
            }
            ingest(&db, &[Batch { table: "t".into(), len: (e - s) as u64, cols: bc }]);
        }
        if l.flush[b] {
            let db2 = db.clone();
            if with_deadline(60, move || db2.force_flush()).is_none() { eprintln!("flush hang"); }
        }
    }
    db
}

fn col_tok(c: &Col) -> String { toks(c, |x| match x { Some(v) => v.to_string(), None => "_".into() }) }
fn cols_tok(cols: &[Col]) -> String { format!("{} {}", cols.len(), cols.iter().map(col_tok).collect::<Vec<_>>().join(" ")) }
fn bounds_tok(p: &[usize]) -> String { p.iter().map(|x| x.to_string()).collect::<Vec<_>>().join(",") }

fn cell_tok(c: Option<&Cell>) -> String {
    match c { Some(Cell::Int(i)) => i.to_string(), Some(Cell::Null) => "_".into(), Some(Cell::Float(b)) => format!("f{:016x}", b), other => format!("?{:?}", other).replace([' ', '\t', ','], "") }
}

fn out_kind(out: &QOut) -> String {
    match out { QOut::Ok { .. } => "rows".into(), QOut::Err(k) => k.clone(), QOut::Panic(_) => "panic".into(), QOut::Hang => "hang".into() }
}

/// `SELECT <expr> FROM t`: one cell per row, in ingestion order.
fn expr_out(out: &QOut) -> String {
    match out {
        QOut::Ok { rows: Some(rows), .. } => format!("rows:{}", toks(rows, |row| cell_tok(row.first()))),
        other => other.tok(),
    }
}

/// `SELECT [g,] SUM(..) FROM t`: `rows:<cell>` or `rows:<key>=<cell>,…` sorted by key (NULL key last).
fn sum_out(out: &QOut, grouped: bool) -> String {
    match out {
        QOut::Ok { rows: Some(rows), .. } => {
            if !grouped { return format!("rows:{}", toks(rows, |row| cell_tok(row.first()))); }
            let mut kv: Vec<(Option<i64>, String)> = rows.iter().map(|r| (match r.first() { Some(Cell::Int(i)) => Some(*i), _ => None }, cell_tok(r.get(1)))).collect();
            kv.sort_by(|a, b| match (a.0, b.0) { (Some(x), Some(y)) => x.cmp(&y), (Some(_), None) => std::cmp::Ordering::Less, (None, Some(_)) => std::cmp::Ordering::Greater, _ => std::cmp::Ordering::Equal });
            format!("rows:{}", toks(&kv, |(k, v)| format!("{}={}", k.map(|x| x.to_string()).unwrap_or("_".into()), v)))
        }
        other => other.tok(),
    }
}

struct Ctx { cases: Cases }

impl Ctx {
    fn layout_case(&mut self, db: &Arc<LocustDB>, cols: &[Col], l: &Layout, class: &str) {
        let db2 = db.clone();
        let r = with_deadline(20, move || futures::executor::block_on(db2.run_query("SELECT c0 FROM t", true, true, vec![])));
        let imp = match r { Some(Ok(Ok(o))) => format!("parts:{}", o.query_plans.values().map(|x| *x as usize).sum::<usize>()), _ => "parts:?".into() };
        self.cases.push(class, &format!("layout {}", bounds_tok(&l.parts(cols))), &imp, &l.tag());
    }
    fn expr_case(&mut self, db: &Arc<LocustDB>, cols: &[Col], l: &Layout, e: &E, class: &str) {
        let q = format!("SELECT {} FROM t", sql(e));
        let out = query(db, &q);
        let imp = expr_out(&out);
        let line = format!("expr {} {} {} {}", rpn(e), bounds_tok(&l.parts(cols)), cols_tok(cols), imp);
        self.cases.push(&format!("{}:{}", class, out_kind(&out)), &line, &imp, &format!("{} | {} | {}", q, l.tag(), out.detail()));
    }
    fn sum_case(&mut self, db: &Arc<LocustDB>, cols: &[Col], l: &Layout, e: &E, g: Option<usize>, class: &str) {
        let q = match g { Some(gi) => format!("SELECT c{}, SUM({}) FROM t", gi, sql(e)), None => format!("SELECT SUM({}) FROM t", sql(e)) };
        let out = query(db, &q);
        let imp = sum_out(&out, g.is_some());
        let line = format!("sum {} {} {} {} {}", rpn(e), bounds_tok(&l.parts(cols)), g.map(|x| x.to_string()).unwrap_or("-".into()), cols_tok(cols), imp);
        self.cases.push(&format!("{}:{}", class, out_kind(&out)), &line, &imp, &format!("{} | {} | {}", q, l.tag(), out.detail()));
    }
}

fn some(v: &[i64]) -> Col { v.iter().map(|x| Some(*x)).collect() }
const MAX: i64 = i64::MAX;
const MIN: i64 = i64::MIN;

/// Witnesses of findings (open ones are expected to fail and be classified; fixed ones must stay green).
fn corpus(cx: &mut Ctx) {
    // #16 sum-sentinel: partial sum i64::MAX is taken for NULL (single partition: NULL; two partitions: dropped)
    let c = vec![some(&[MAX - 1, 1, 0])];
    for (l, name) in [(Layout::single(3), "one-partition"), (Layout::split(&[2], 3), "merge-drops-partial"), (Layout::split(&[1], 3), "total-is-max")] {
        let db = build(&c, &l);
        cx.sum_case(&db, &c, &l, &E::Col(0), None, &format!("corpus:sum-sentinel:{}", name));
    }
    let c = vec![some(&[MAX - 1, 1, 0, 5]), some(&[0, 0, 0, 1])];
    let l = Layout::split(&[2], 4);
    let db = build(&c, &l);
    cx.sum_case(&db, &c, &l, &E::Col(0), Some(1), "corpus:sum-sentinel:grouped");
    // select-i64max-null: a non-nullable expression result equal to i64::MAX is shown as NULL in the row view
    let c = vec![some(&[MAX - 1, 5])];
    let l = Layout::single(2);
    let db = build(&c, &l);
    cx.expr_case(&db, &c, &l, &bin('+', E::Col(0), E::K(1)), "corpus:select-i64max-null");
    let c = vec![vec![Some(MAX - 1), None]];
    let db = build(&c, &l);
    cx.expr_case(&db, &c, &l, &bin('+', E::Col(0), E::K(1)), "corpus:select-i64max-nullable-ok");
    // fixed bf2455f: i64::MIN % -1 panicked
    let c = vec![some(&[MIN, -1, 0, 7]), some(&[-1, -1, -1, -1])];
    let l = Layout::single(4);
    let db = build(&c, &l);
    cx.expr_case(&db, &c, &l, &bin('%', E::Col(0), E::K(-1)), "corpus:min-mod-minus1:vs");
    cx.expr_case(&db, &c, &l, &bin('%', E::Col(0), E::Col(1)), "corpus:min-mod-minus1:vv");
    cx.expr_case(&db, &c, &l, &bin('/', E::Col(0), E::Col(1)), "corpus:min-div-minus1:vv");
    // fixed (arith-null-partition): `x + 1` failed with TypeError when x is entirely NULL in one partition
    let c = vec![vec![Some(1), Some(2), None, None], some(&[5, 6, 7, 8])];
    for (l, name) in [(Layout::split(&[2], 4), "absent"), (Layout { omit: false, ..Layout::split(&[2], 4) }, "allnull")] {
        let db = build(&c, &l);
        for op in ['+', '-', '%', '*', '/'] {
            cx.expr_case(&db, &c, &l, &bin(op, E::Col(0), E::K(1)), &format!("corpus:arith-null-partition:{}:{}", name, op));
            cx.expr_case(&db, &c, &l, &bin(op, E::Col(1), E::Col(0)), &format!("corpus:arith-null-partition:{}:vv{}", name, op));
        }
        cx.sum_case(&db, &c, &l, &bin('+', E::Col(0), E::K(1)), None, &format!("corpus:arith-null-partition:{}:sum", name));
    }
    // fixed (sum-null-partition-float): SUM degraded to a rounded float when the column is all NULL in one partition
    let c = vec![vec![Some(9007199254740993), Some(2), None, None], some(&[5, 6, 5, 8])];
    let l = Layout::split(&[2], 4);
    let db = build(&c, &l);
    cx.sum_case(&db, &c, &l, &E::Col(0), None, "corpus:sum-null-partition-float");
    cx.sum_case(&db, &c, &l, &E::Col(0), Some(1), "corpus:sum-null-partition-float:grouped");
    let c = vec![vec![None, None, Some(9007199254740993), Some(2)], some(&[5, 6, 5, 8])];
    let db = build(&c, &l);
    cx.sum_case(&db, &c, &l, &E::Col(0), None, "corpus:sum-null-partition-float:null-first");
    // fixed (stream-short-bitmap): a presence bitmap shorter than the column, read in chunks, panicked
    let mut c: Col = (0..13).map(|i| Some(1000 - 77 * i)).collect();
    c.extend(std::iter::repeat(None).take(27));
    let cols = vec![(0..40).map(|i| Some(i * 3 - 50)).collect::<Col>(), c];
    let l = Layout { batch_size: 8, threads: 2, ..Layout::single(40) };
    let db = build(&cols, &l);
    cx.expr_case(&db, &cols, &l, &E::Col(1), "corpus:stream-short-bitmap");
    cx.expr_case(&db, &cols, &l, &bin('+', E::Col(1), E::Col(0)), "corpus:stream-short-bitmap:vv");
    cx.sum_case(&db, &cols, &l, &E::Col(1), None, "corpus:stream-short-bitmap:sum");
    // fixed (combine-null-maps-stale): NULL + x returned a number in the last chunk of a streamed stage
    let cols = vec![vec![Some(5), Some(6), None, None, None, None, None, None, None], vec![Some(1), None, Some(1), Some(1), Some(1), Some(1), Some(1), Some(1), Some(1)]];
    for pref in [0u64, 1, 2] {
        let l = Layout { batch_size: 8, threads: 2, omit: true, pref, ..Layout::single(9) };
        let db = build(&cols, &l);
        for op in ['+', '/', '%'] {
            cx.expr_case(&db, &cols, &l, &bin(op, E::Col(0), E::Col(1)), &format!("corpus:combine-null-maps-stale:{}", op));
            cx.expr_case(&db, &cols, &l, &bin(op, E::Col(0), E::Col(0)), &format!("corpus:combine-null-maps-stale:self{}", op));
        }
        cx.sum_case(&db, &cols, &l, &bin('+', E::Col(0), E::Col(1)), None, "corpus:combine-null-maps-stale:sum");
    }
    // open (group-nullkey-duplicate, C04's subject): a group key returned twice when the key is NULL in one partition
    let cols = vec![some(&[5, 6, 7]), vec![Some(2000), Some(2000), None]];
    let l = Layout::split(&[1], 3);
    let db = build(&cols, &l);
    cx.sum_case(&db, &cols, &l, &E::Col(0), Some(1), "corpus:group-nullkey-duplicate");
    // outside the fragment: predicted error values
    let c = vec![some(&[1, 2, 3])];
    let l = Layout::single(3);
    let db = build(&c, &l);
    cx.expr_case(&db, &c, &l, &bin('+', E::Col(0), bin('+', E::K(307504), E::K(-1))), "corpus:const-const-fatal");
    cx.expr_case(&db, &c, &l, &bin('+', E::Col(0), E::Null), "corpus:null-literal-notimpl");
}

/// Operand values at the edges of the storage widths and of i64 for one operator.
fn edge_values(op: char) -> (Vec<i64>, Vec<i64>) {
    let big = vec![MIN, MIN + 1, MIN + 2, -MAX / 2, -4294967296, -65536, -256, -2, -1, 0, 1, 2, 255, 256, 65535, 65536, 4294967295, 4294967296, MAX / 2, MAX / 2 + 1, MAX - 2, MAX - 1];
    match op {
        // factors around 2^31 / 2^32 on BOTH sides: 2^31 * 2^32 = 2^63 (one past MAX), -2^31 * 2^32 = MIN (exact),
        // (2^32-1)^2 and 3037000500^2 (the smallest overflowing square) have both factors inside the u32 storage width
        '*' => (vec![MIN, MIN + 1, -3037000500, -3037000499, -4294967296, -2147483648, -65536, -2, -1, 0, 1, 2, 255, 65536, 2147483647, 2147483648, 4294967295, 4294967296, 3037000499, 3037000500, MAX / 2, MAX / 2 + 1, MAX - 1],
                vec![MIN, -3037000500, -4294967296, -4294967295, -2147483648, -2, -1, 0, 1, 2, 3, 65536, 2147483648, 4294967295, 4294967296, 4294967297, 3037000499, 3037000500, MAX - 1]),
        '/' | '%' => (big.clone(), vec![MIN, MIN + 1, -65536, -2, -1, 0, 1, 2, 255, 65536, MAX - 1]),
        _ => (big.clone(), big),
    }
}

/// EVERY pair of the operator's edge sets, one pair per column pair (ten pairs per table, each pair judged alone: an
/// overflow of another pair cannot mask it), nullable and not.  `all_shells`: every pair through vector∘vector,
/// vector∘scalar and scalar∘vector (thorough); otherwise the shell rotates with the table index (quick), so that every
/// pair is judged alone in every run and every (pair, shell) combination within three seeds.
fn edge_exhaustive(cx: &mut Ctx, all_shells: bool, rot: usize) {
    for op in OPS {
        let (ls, rs) = edge_values(op);
        let mut pairs: Vec<(i64, i64)> = vec![];
        for l in &ls { for r in &rs { pairs.push((*l, *r)); } }
        for (ci, chunk) in pairs.chunks(10).enumerate() {
            let nulls = ci % 2 == 1;
            let mut single: Vec<Col> = vec![];
            for (j, (a, b)) in chunk.iter().enumerate() {
                // the NULL operand alternates between the left and the right column (a NULL slot stores 0: as a divisor
                // it would raise the flag if the presence guard were missing)
                single.push(vec![Some(*a), if nulls && j % 2 == 0 { None } else { Some(*a) }, Some(1)]);
                single.push(vec![Some(*b), if nulls && j % 2 == 1 { None } else { Some(*b) }, Some(1)]);
            }
            let l1 = Layout::single(3);
            let db1 = build(&single, &l1);
            let nn = if nulls { "nullable" } else { "nonnull" };
            for (j, (a, b)) in chunk.iter().enumerate() {
                for shell in 0..3 {
                    if !all_shells && shell != (ci / 2 + rot) % 3 { continue; }
                    match shell {
                        0 => cx.expr_case(&db1, &single, &l1, &bin(op, E::Col(2 * j), E::Col(2 * j + 1)), &format!("edgeall:{}:vv1:{}", op, nn)),
                        1 => cx.expr_case(&db1, &single, &l1, &bin(op, E::Col(2 * j), E::K(lit(*b))), &format!("edgeall:{}:vs1:{}", op, nn)),
                        _ => cx.expr_case(&db1, &single, &l1, &bin(op, E::K(lit(*a)), E::Col(2 * j + 1)), &format!("edgeall:{}:sv1:{}", op, nn)),
                    }
                }
            }
        }
    }
}

fn edge_stream(cx: &mut Ctx, rng: &mut Rng, rounds: usize) {
    for round in 0..rounds {
        for op in OPS {
            let (ls, rs) = edge_values(op);
            // one table: every (l, r) pair (or a random sample of the product), optional NULL rows
            let mut pairs: Vec<(i64, i64)> = vec![];
            for l in &ls { for r in &rs { pairs.push((*l, *r)); } }
            // sample: keep tables small enough for the row loop, different pairs per round
            let take = 24;
            let mut sel = vec![];
            for _ in 0..take { sel.push(*rng.pick(&pairs)); }
            let nulls = round % 2 == 1;
            let c0: Col = sel.iter().map(|p| if nulls && rng.chance(1, 6) { None } else { Some(p.0) }).collect();
            let c1: Col = sel.iter().map(|p| if nulls && rng.chance(1, 6) { None } else { Some(p.1) }).collect();
            let cols = vec![c0, c1];
            let l = if round % 3 == 0 { Layout::single(take) } else { gen_layout(rng, take) };
            let db = build(&cols, &l);
            let nn = if nulls { "nullable" } else { "nonnull" };
            cx.expr_case(&db, &cols, &l, &bin(op, E::Col(0), E::Col(1)), &format!("edge:{}:vv:{}", op, nn));
            // row-at-a-time: every pair is judged on its own (an overflow elsewhere in a column would mask it); ten
            // pairs share one table as ten column pairs: the pair, the pair again (or a NULL operand), and a harmless row
            // (1 op 1 never overflows)
            let mut single: Vec<Col> = vec![];
            for j in 0..10 {
                let (a, b) = *rng.pick(&pairs);
                single.push(vec![Some(a), if nulls && j % 2 == 0 { None } else { Some(a) }, Some(1)]);
                single.push(vec![Some(b), if nulls && j % 2 == 1 { None } else { Some(b) }, Some(1)]);
            }
            let l1 = Layout::single(3);
            let db1 = build(&single, &l1);
            for j in 0..10 {
                let (a, b) = (single[2 * j][0].unwrap(), single[2 * j + 1][0].unwrap());
                cx.expr_case(&db1, &single, &l1, &bin(op, E::Col(2 * j), E::Col(2 * j + 1)), &format!("edge:{}:vv1:{}", op, nn));
                cx.expr_case(&db1, &single, &l1, &bin(op, E::Col(2 * j), E::K(lit(b))), &format!("edge:{}:vs1:{}", op, nn));
                cx.expr_case(&db1, &single, &l1, &bin(op, E::K(lit(a)), E::Col(2 * j + 1)), &format!("edge:{}:sv1:{}", op, nn));
            }
            for _ in 0..3 {
                let k = lit(*rng.pick(&rs));
                cx.expr_case(&db, &cols, &l, &bin(op, E::Col(0), E::K(k)), &format!("edge:{}:vs:{}", op, nn));
                let k = lit(*rng.pick(&ls));
                cx.expr_case(&db, &cols, &l, &bin(op, E::K(k), E::Col(1)), &format!("edge:{}:sv:{}", op, nn));
            }
        }
    }
}

/// Narrow storage classes: values at both ends of the u8/u16/u32 windows, with and without offset.
fn width_edge_cols(rng: &mut Rng, n: usize) -> (Col, &'static str) {
    let (lo, span, name): (i64, i64, &'static str) = *rng.pick(&[
        (0, 255, "u8"), (0, 256, "u8+1"), (-1000, 255, "u8off"), (MIN, 255, "u8offmin"), (MAX - 1 - 255, 255, "u8offmax"),
        (0, 65535, "u16"), (0, 65536, "u16+1"), (-70000, 65535, "u16off"), (MIN, 65535, "u16offmin"), (MAX - 1 - 65535, 65535, "u16offmax"),
        (0, 4294967295, "u32"), (0, 4294967296, "u32+1"), (-5000000000, 4294967295, "u32off"), (MIN, 4294967295, "u32offmin"), (MAX - 1 - 4294967295, 4294967295, "u32offmax"),
        (MIN, -1, "i64full"),
    ]);
    let mut v: Vec<i64> = (0..n).map(|_| if span < 0 { let x = rng.next() as i64; if x == MAX { MAX - 1 } else { x } } else { lo + rng.range(0, span) }).collect();
    if span >= 0 && n >= 2 { v[0] = lo; v[n - 1] = lo + span; if n >= 4 { v[1] = lo + 1; v[n - 2] = lo + span - 1; } }
    (v.into_iter().map(Some).collect(), name)
}

fn gen_table(rng: &mut Rng) -> (Vec<Col>, Vec<String>, usize) {
    let ncols = 1 + rng.below(3) as usize;
    let n = *rng.pick(&[1usize, 2, 3, 7, 8, 9, 17, 40]);
    let mut cols = vec![];
    let mut classes = vec![];
    for _ in 0..ncols {
        let (mut col, class): (Col, String) = if rng.chance(1, 3) {
            let (c, name) = width_edge_cols(rng, n);
            (c, format!("w-{}", name))
        } else {
            let class = *rng.pick(INT_CLASSES);
            (gen_ints(rng, n, class).into_iter().map(Some).collect(), class.to_string())
        };
        let mask = gen_null_mask(rng, n);
        for (i, m) in mask.iter().enumerate() { if *m { col[i] = None; } }
        // occasionally a run of NULLs (a partition in which the column is entirely NULL / absent)
        if n >= 3 && rng.chance(1, 6) { let s = rng.below(n as u64) as usize; let e = (s + 1 + rng.below(n as u64) as usize).min(n); for x in col.iter_mut().take(e).skip(s) { *x = None; } }
        classes.push(class);
        cols.push(col);
    }
    (cols, classes, n)
}

fn expr_stream(cx: &mut Ctx, rng: &mut Rng, tables: usize, per_table: usize) {
    for _ in 0..tables {
        let (cols, classes, n) = gen_table(rng);
        let l = gen_layout(rng, n);
        let db = build(&cols, &l);
        cx.layout_case(&db, &cols, &l, "layout");
        let np = l.parts(&cols).len() - 1;
        for _ in 0..per_table {
            let mut e = gen_expr(rng, cols.len(), 3);
            if !has_col(&e) { e = bin('+', E::Col(0), e); }
            cx.expr_case(&db, &cols, &l, &e, &format!("expr:d{}:p{}:{}", depth(&e), np.min(3), classes.join("+")));
        }
    }
}

// ---------------------------------------------------------------------------------------------
// SUM
fn group_col(rng: &mut Rng, n: usize) -> Col {
    let k = 1 + rng.below(4) as i64;
    let nullable = rng.chance(1, 3);
    (0..n).map(|_| if nullable && rng.chance(1, 5) { None } else { Some(rng.range(0, k - 1) * if k == 4 { 1000 } else { 1 }) }).collect()
}

/// Values whose running / partial sums come close to the i64 limits.
fn sum_values(rng: &mut Rng, n: usize, kind: &str) -> Vec<i64> {
    match kind {
        "small" => (0..n).map(|_| rng.range(-100, 100)).collect(),
        "u8" => (0..n).map(|_| rng.range(0, 255)).collect(),
        "u32off" => { let o = MIN + rng.range(0, 1000); (0..n).map(|_| o + rng.range(0, u32::MAX as i64)).collect() }
        "half" => (0..n).map(|_| *rng.pick(&[MAX / 2, MAX / 2 + 1, -(MAX / 2), MIN / 2, 1, -1, 0, 2])).collect(),
        "near" => (0..n).map(|_| *rng.pick(&[MAX - 1, MAX - 2, MIN, MIN + 1, 1, -1, 0, 2, -2, 3])).collect(),
        "cancel" => { let mut v = vec![]; while v.len() < n { let x = rng.range(MAX / 4, MAX - 1); v.push(x); if v.len() < n { v.push(-x + rng.range(-3, 3)); } } v }
        _ => (0..n).map(|_| { let x = rng.next() as i64 >> rng.below(8); if x == MAX { MAX - 1 } else { x } }).collect(),
    }
}

const SUM_KINDS: &[&str] = &["small", "u8", "u32off", "half", "near", "cancel", "wide", "half", "near"];

fn sum_stream(cx: &mut Ctx, rng: &mut Rng, tables: usize, per_table: usize) {
    for _ in 0..tables {
        let n = *rng.pick(&[1usize, 2, 3, 4, 5, 8, 9, 17]);
        let kind = *rng.pick(SUM_KINDS);
        let mut c0: Col = sum_values(rng, n, kind).into_iter().map(Some).collect();
        let mask = gen_null_mask(rng, n);
        for (i, m) in mask.iter().enumerate() { if *m { c0[i] = None; } }
        if n >= 3 && rng.chance(1, 6) { let s = rng.below(n as u64) as usize; let e = (s + 1 + rng.below(n as u64) as usize).min(n); for x in c0.iter_mut().take(e).skip(s) { *x = None; } }
        let c1: Col = { let (c, _) = width_edge_cols(rng, n); let m = gen_null_mask(rng, n); c.into_iter().zip(m).map(|(x, m)| if m { None } else { x }).collect() };
        let g = group_col(rng, n);
        let cols = vec![c0, c1, g];
        let l = gen_layout(rng, n);
        let db = build(&cols, &l);
        cx.layout_case(&db, &cols, &l, "layout");
        let np = (l.parts(&cols).len() - 1).min(3);
        for _ in 0..per_table {
            let e = match rng.below(8) {
                0..=3 => E::Col(0),
                4 => E::Col(1),
                5 => bin(*rng.pick(&['+', '-', '*']), E::Col(0), E::K(*rng.pick(&[0i64, 1, -1, 2, 10]))),
                6 => bin(*rng.pick(&['+', '-', '/', '%']), E::Col(0), E::Col(1)),
                _ => { let mut e = gen_expr(rng, 2, 2); if !has_col(&e) { e = bin('+', E::Col(0), e); } e }
            };
            let grouped = rng.chance(1, 2);
            let ek = if matches!(e, E::Col(_)) { "col" } else { "expr" };
            cx.sum_case(&db, &cols, &l, &e, if grouped { Some(2) } else { None }, &format!("sum:{}:{}:{}:p{}", if grouped { "grouped" } else { "all" }, ek, kind, np));
        }
    }
}

/// Directed: the same three values under every partitioning, so that the overflow falls inside one partition,
/// only at the merge, or nowhere; and partial sums that hit the sentinel.
fn sum_directed(cx: &mut Ctx, rng: &mut Rng, exhaustive: bool) {
    let sets: Vec<Vec<i64>> = vec![
        vec![MAX - 1, 1, 1], vec![MAX - 1, 1, -1], vec![MAX - 1, 2, -5], vec![MAX / 2 + 1, MAX / 2 + 1, -5], vec![MIN, -1, 5], vec![MIN, MAX - 1, 1],
        vec![MIN + 1, -1, -1], vec![MAX - 1, -MAX, MAX - 1], vec![1, MAX - 2, 1], vec![MAX - 2, 1, 0, 1], vec![MIN, MIN, MAX - 1, MAX - 1, 2],
        vec![MAX / 2, MAX / 2, 1, 1], vec![MAX - 1, MIN, 1, 0], vec![5, MAX - 6, 0, 3],
    ];
    for vals in sets {
        let n = vals.len();
        let masks: Vec<usize> = if exhaustive { (0..(1usize << (n - 1))).collect() } else { let mut m = vec![0, (1 << (n - 1)) - 1]; for _ in 0..2 { m.push(rng.below(1 << (n - 1)) as usize); } m };
        for mask in masks {
            let cuts: Vec<usize> = (1..n).filter(|i| mask >> (i - 1) & 1 == 1).collect();
            // c0: the values and a 0; c1: the values and a NULL (nullable aggregate); g: two groups
            let mut c0: Col = vals.iter().map(|x| Some(*x)).collect();
            let mut c1 = c0.clone();
            let mut g: Col = (0..n).map(|i| Some((i % 2) as i64)).collect();
            c0.push(Some(0)); c1.push(None); g.push(Some(0));
            let nn = c0.len();
            let cols = vec![c0, c1, g];
            let mut l = Layout::split(&cuts, nn);
            l.threads = *rng.pick(&[1usize, 2]);
            let db = build(&cols, &l);
            for (ci, nm) in [(0usize, "nonnull"), (1, "nullable")] {
                let cls = format!("sumdir:p{}:{}", (cuts.len() + 1).min(4), nm);
                cx.sum_case(&db, &cols, &l, &E::Col(ci), None, &format!("{}:all", cls));
                cx.sum_case(&db, &cols, &l, &E::Col(ci), Some(2), &format!("{}:grouped", cls));
            }
        }
    }
}

fn dbg_main(a: &[String]) {
    let csv = |s: &str| -> Vec<usize> { s.split(',').map(|x| x.parse().unwrap()).collect() };
    let l = Layout { bounds: csv(&a[3]), flush: csv(&a[4]).into_iter().map(|x| x == 1).collect(), omit: a[2] == "1", lz4: false,
        batch_size: a[0].parse().unwrap(), threads: a[1].parse().unwrap(), pref: a[5].parse().unwrap() };
    let cols: Vec<Col> = a[7..].iter().map(|c| c.split(',').map(|x| if x == "_" { None } else { Some(x.parse().unwrap()) }).collect()).collect();
    let db = build(&cols, &l);
    let out = query(&db, &a[6]);
    let db2 = db.clone();
    let r = with_deadline(20, move || futures::executor::block_on(db2.run_query("SELECT c0 FROM t", true, true, vec![])));
    let engine = match r { Some(Ok(Ok(o))) => o.query_plans.values().map(|x| *x as usize).sum::<usize>().to_string(), _ => "?".into() };
    println!("parts {:?} (engine reports {} partitions)\n{}\n{}", l.parts(&cols), engine, out.tok(), out.detail());
}

fn main() {
    let args = parse_args();
    if args.rest.first().map(|s| s == "dbg").unwrap_or(false) { dbg_main(&args.rest[1..]); return; }
    if std::env::var("C06_LOUD").is_err() { quiet_panics(); }
    let mut rng = Rng::new(args.seed);
    let mut cx = Ctx { cases: Cases::create(&args.out) };
    let only = args.rest.iter().position(|x| x == "--only").map(|i| args.rest[i + 1].clone());
    let want = |name: &str| only.as_ref().map(|o| o == name).unwrap_or(true);
    let t0 = std::time::Instant::now();
    let lap = |name: &str, n: usize| eprintln!("[c06] {:>8} done at {:6.1}s, {} cases", name, t0.elapsed().as_secs_f64(), n);
    let th = args.thorough();
    if want("corpus") { corpus(&mut cx); lap("corpus", cx.cases.n); }
    if want("edge") { edge_stream(&mut cx, &mut rng, if th { 6 } else { 2 }); lap("edge", cx.cases.n); }
    if want("edgeall") { edge_exhaustive(&mut cx, th && (args.seed / 1000) % 3 == 0, args.seed as usize % 3); lap("edgeall", cx.cases.n); }
    if want("expr") { expr_stream(&mut cx, &mut rng, if th { 150 } else { 30 }, if th { 15 } else { 10 }); lap("expr", cx.cases.n); }
    if want("sumdir") { sum_directed(&mut cx, &mut rng, th); lap("sumdir", cx.cases.n); }
    if want("sum") { sum_stream(&mut cx, &mut rng, if th { 120 } else { 30 }, if th { 8 } else { 6 }); lap("sum", cx.cases.n); }
    cx.cases.finish();
}
