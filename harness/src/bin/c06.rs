//! C06: integer arithmetic is exact or the query fails.
//! Generates integer tables at the edges of every width class, expression trees of depth <= 3 over
//! columns and constants, runs `SELECT <expr> FROM t` on the real engine and emits the case for the
//! Lean model (`Arith.cell` per node) and the Lean spec (exact arithmetic).
use std::sync::Arc;
use vharness::*;
use vharness::locustdb::LocustDB;

#[derive(Clone, Debug)]
enum E { Col(usize), K(i64), Null, Bin(char, Box<E>, Box<E>) }

fn gen_expr(rng: &mut Rng, ncols: usize, depth: u32) -> E {
    if depth == 0 || rng.chance(1, 4) {
        match rng.below(10) {
            0..=5 => E::Col(rng.below(ncols as u64) as usize),
            6 => E::K(*rng.pick(&[0i64, 1, -1, 2, -2, 255, 256, 65536, 4294967296, 9223372036854775806, -9223372036854775807, 3037000500, -3037000500, 10])),
            7 => E::K(rng.range(-20, 20)),
            8 => E::K(rng.next() as i64 >> rng.below(63)),
            _ => if rng.chance(1, 3) { E::Null } else { E::Col(rng.below(ncols as u64) as usize) },
        }
    } else {
        let op = *rng.pick(&['+', '-', '*', '/', '%']);
        E::Bin(op, Box::new(gen_expr(rng, ncols, depth - 1)), Box::new(gen_expr(rng, ncols, depth - 1)))
    }
}

fn has_col(e: &E) -> bool { match e { E::Col(_) => true, E::Bin(_, l, r) => has_col(l) || has_col(r), _ => false } }

fn sql(e: &E) -> String {
    match e {
        E::Col(i) => format!("c{}", i),
        E::K(k) => if *k < 0 { format!("({})", k) } else { format!("{}", k) },
        E::Null => "NULL".into(),
        E::Bin(op, l, r) => format!("({} {} {})", sql(l), op, sql(r)),
    }
}
fn rpn(e: &E, out: &mut Vec<String>) {
    match e {
        E::Col(i) => out.push(format!("c{}", i)),
        E::K(k) => out.push(format!("k{}", k)),
        E::Null => out.push("n".into()),
        E::Bin(op, l, r) => { rpn(l, out); rpn(r, out); out.push(op.to_string()); }
    }
}

fn main() {
    let args = parse_args();
    quiet_panics();
    let mut rng = Rng::new(args.seed);
    let mut cases = Cases::create(&args.out);
    let tables = if args.thorough() { 400 } else { 60 };
    let per_table = if args.thorough() { 30 } else { 15 };
    for t in 0..tables {
        let ncols = 1 + rng.below(3) as usize;
        let n = *rng.pick(&[1usize, 2, 3, 7, 8, 9, 17, 40]);
        let mut cols: Vec<Vec<Cell>> = vec![];
        let mut classes = vec![];
        for _ in 0..ncols {
            let class = *rng.pick(INT_CLASSES);
            classes.push(class);
            let ints: Vec<Cell> = gen_ints(&mut rng, n, class).into_iter().map(Cell::Int).collect();
            let mask = gen_null_mask(&mut rng, n);
            cols.push(apply_nulls(ints, &mask));
        }
        // physical realisation: 1..3 batches, optionally flushed into partitions
        let db = Arc::new(LocustDB::new(&locustdb::Options { partition_combine_factor: 1_000_000_000, ..base_options() }));
        let nb = 1 + rng.below(3) as usize;
        let mut start = 0;
        let mut real = String::new();
        for b in 0..nb {
            let end = if b + 1 == nb { n } else { start + rng.below((n - start + 1) as u64) as usize };
            if end > start {
                let batch = Batch { table: "t".into(), len: (end - start) as u64,
                    cols: cols.iter().enumerate().map(|(i, c)| (format!("c{}", i), ColRep::from_cells(&c[start..end], rng.next()))).collect() };
                real.push_str(&format!("[{}..{} {}", start, end, batch.cols.iter().map(|c| c.1.kind()).collect::<Vec<_>>().join("/")));
                ingest(&db, &[batch]);
                if rng.chance(1, 2) { db.force_flush(); real.push_str(" F"); }
                real.push(']');
            }
            start = end;
        }
        let coltoks: Vec<String> = cols.iter().map(|c| toks(c, |x| match x { Cell::Int(i) => i.to_string(), _ => "_".into() })).collect();
        for _ in 0..per_table {
            let mut e = gen_expr(&mut rng, ncols, 3);
            if !has_col(&e) { e = E::Bin('+', Box::new(E::Col(0)), Box::new(e)); }
            let q = format!("SELECT {} FROM t", sql(&e));
            let out = query(&db, &q);
            let mut r = vec![]; rpn(&e, &mut r);
            let impl_tok = match &out {
                QOut::Ok { rows: Some(rows), .. } => format!("rows:{}", toks(rows, |row| match row.get(0) { Some(Cell::Int(i)) => i.to_string(), Some(Cell::Null) => "_".into(), other => format!("?{:?}", other) })),
                other => other.tok(),
            };
            let model_line = format!("expr {} {} {}", r.join(","), ncols, coltoks.join(" "));
            cases.push(&format!("{}:{}", classes.join("+"), if matches!(out, QOut::Ok{..}) { "ok" } else { "err" }), &model_line, &impl_tok, &format!("{} | {} | {}", q, real, out.detail()));
        }
        let _ = t;
    }
    cases.finish();
}
