//! Shared harness library: seeded RNG, protocol formatting, table / batch construction through the
//! binary wire format, query execution with panic capture and deadline, case-file writer.
use std::collections::HashMap;
use std::fmt::Write as _;
use std::io::Write as _;
use std::panic::{catch_unwind, AssertUnwindSafe};
use std::path::{Path, PathBuf};
use std::sync::mpsc;
use std::sync::Arc;
use std::time::Duration;

pub use locustdb;
pub use locustdb_serialization;
use locustdb::{BasicTypeColumn, LocustDB, Options, QueryError, QueryOutput, Value};
use locustdb_serialization::event_buffer::EventBuffer;
use locustdb_serialization::wal_segment_capnp;

// ---------------------------------------------------------------------------------------------
// RNG: SplitMix64, all randomness derives from one seed.
#[derive(Clone)]
pub struct Rng(pub u64);
impl Rng {
    pub fn new(seed: u64) -> Rng { Rng(seed ^ 0x9E37_79B9_7F4A_7C15) }
    pub fn next(&mut self) -> u64 {
        self.0 = self.0.wrapping_add(0x9E37_79B9_7F4A_7C15);
        let mut z = self.0;
        z = (z ^ (z >> 30)).wrapping_mul(0xBF58_476D_1CE4_E5B9);
        z = (z ^ (z >> 27)).wrapping_mul(0x94D0_49BB_1331_11EB);
        z ^ (z >> 31)
    }
    /// uniform in [0, n)
    pub fn below(&mut self, n: u64) -> u64 { if n == 0 { 0 } else { self.next() % n } }
    pub fn range(&mut self, lo: i64, hi: i64) -> i64 {
        let span = (hi as i128 - lo as i128 + 1) as u128;
        (lo as i128 + (self.next() as u128 % span) as i128) as i64
    }
    pub fn chance(&mut self, num: u64, den: u64) -> bool { self.below(den) < num }
    pub fn pick<'a, T>(&mut self, xs: &'a [T]) -> &'a T { &xs[self.below(xs.len() as u64) as usize] }
    pub fn fork(&mut self) -> Rng { Rng(self.next()) }
}

// ---------------------------------------------------------------------------------------------
// Cells and protocol formatting.
#[derive(Clone, Debug, PartialEq, Eq, Hash, PartialOrd, Ord)]
pub enum Cell {
    Null,
    Int(i64),
    /// IEEE-754 bit pattern
    Float(u64),
    Str(String),
}

pub const F64_NULL_BITS: u64 = 0x7ffa_aaaa_aaaa_aaaa;
pub const I64_NULL: i64 = i64::MAX;

impl Cell {
    pub fn f(v: f64) -> Cell { Cell::Float(v.to_bits()) }
    pub fn tok(&self) -> String {
        match self {
            Cell::Null => "_".to_string(),
            Cell::Int(i) => format!("i{}", i),
            Cell::Float(b) => format!("f{:016x}", b),
            Cell::Str(s) => format!("x{}", hex::encode(s.as_bytes())),
        }
    }
    pub fn from_value(v: &Value) -> Cell {
        match v {
            Value::Int(i) => Cell::Int(*i),
            Value::Float(f) => Cell::Float(f.0.to_bits()),
            Value::Str(s) => Cell::Str(s.clone()),
            Value::Null => Cell::Null,
        }
    }
    /// SQL literal (only for values that have one)
    pub fn sql(&self) -> String {
        match self {
            Cell::Null => "NULL".into(),
            Cell::Int(i) => format!("{}", i),
            Cell::Float(b) => format!("{:?}", f64::from_bits(*b)),
            Cell::Str(s) => format!("'{}'", s.replace('\'', "''")),
        }
    }
}

pub fn hexs(s: &str) -> String { format!("x{}", hex::encode(s.as_bytes())) }
pub fn hexb(s: &[u8]) -> String { format!("x{}", hex::encode(s)) }

pub fn toks<T, F: Fn(&T) -> String>(xs: &[T], f: F) -> String {
    if xs.is_empty() { "[]".to_string() } else { xs.iter().map(f).collect::<Vec<_>>().join(",") }
}
pub fn cells_tok(xs: &[Cell]) -> String { toks(xs, |c| c.tok()) }
/// rows separated by ';' (`[]` for no rows; an empty row is `()`)
pub fn rows_tok(rows: &[Vec<Cell>]) -> String {
    if rows.is_empty() { return "[]".into(); }
    rows.iter().map(|r| if r.is_empty() { "()".to_string() } else { cells_tok(r) }).collect::<Vec<_>>().join(";")
}

// ---------------------------------------------------------------------------------------------
// Batches: one table's share of an ingestion request, in an explicit wire representation.
#[derive(Clone, Debug)]
pub enum ColRep {
    Empty,
    Dense(Vec<f64>),
    Sparse(Vec<(u64, f64)>),
    I64(Vec<i64>),
    SparseI64(Vec<(u64, i64)>),
    Str(Vec<String>),
    Mixed(Vec<Cell>),
}

#[derive(Clone, Debug)]
pub struct Batch {
    pub table: String,
    pub len: u64,
    pub cols: Vec<(String, ColRep)>,
}

impl ColRep {
    /// Logical cells of this representation in a batch of `len` rows (what C01 says must come back).
    pub fn cells(&self, len: u64) -> Vec<Cell> {
        let n = len as usize;
        let mut out = vec![Cell::Null; n];
        match self {
            ColRep::Empty => {}
            ColRep::Dense(v) => for (i, x) in v.iter().enumerate() { if i < n { out[i] = Cell::f(*x); } },
            ColRep::Sparse(v) => for (i, x) in v { if (*i as usize) < n { out[*i as usize] = Cell::f(*x); } },
            ColRep::I64(v) => for (i, x) in v.iter().enumerate() { if i < n { out[i] = Cell::Int(*x); } },
            ColRep::SparseI64(v) => for (i, x) in v { if (*i as usize) < n { out[*i as usize] = Cell::Int(*x); } },
            ColRep::Str(v) => for (i, x) in v.iter().enumerate() { if i < n { out[i] = Cell::Str(x.clone()); } },
            ColRep::Mixed(v) => for (i, x) in v.iter().enumerate() { if i < n { out[i] = x.clone(); } },
        }
        out
    }
    pub fn kind(&self) -> &'static str {
        match self { ColRep::Empty => "empty", ColRep::Dense(_) => "dense", ColRep::Sparse(_) => "sparse",
            ColRep::I64(_) => "i64", ColRep::SparseI64(_) => "sparsei64", ColRep::Str(_) => "str", ColRep::Mixed(_) => "mixed" }
    }
    /// Choose a wire representation that can express `cells` exactly. `pref` varies the choice.
    pub fn from_cells(cells: &[Cell], pref: u64) -> ColRep {
        let all_null = cells.iter().all(|c| *c == Cell::Null);
        let any_null = cells.iter().any(|c| *c == Cell::Null);
        let all_int = cells.iter().all(|c| matches!(c, Cell::Int(_) | Cell::Null));
        let all_float = cells.iter().all(|c| matches!(c, Cell::Float(_) | Cell::Null));
        let all_str = cells.iter().all(|c| matches!(c, Cell::Str(_)));
        if all_null && pref % 2 == 0 { return ColRep::Empty; }
        if all_int && !all_null {
            if !any_null && pref % 3 != 2 { return ColRep::I64(cells.iter().map(|c| if let Cell::Int(i) = c { *i } else { 0 }).collect()); }
            // trailing nulls may be expressed as a short dense column
            let last = cells.iter().rposition(|c| *c != Cell::Null).unwrap();
            if pref % 3 == 1 && cells[..=last].iter().all(|c| *c != Cell::Null) {
                return ColRep::I64(cells[..=last].iter().map(|c| if let Cell::Int(i) = c { *i } else { 0 }).collect());
            }
            if pref % 3 != 2 {
                return ColRep::SparseI64(cells.iter().enumerate().filter_map(|(i, c)| if let Cell::Int(x) = c { Some((i as u64, *x)) } else { None }).collect());
            }
        }
        if all_float && !all_null {
            if !any_null && pref % 3 != 2 { return ColRep::Dense(cells.iter().map(|c| if let Cell::Float(b) = c { f64::from_bits(*b) } else { 0.0 }).collect()); }
            let last = cells.iter().rposition(|c| *c != Cell::Null).unwrap();
            if pref % 3 == 1 && cells[..=last].iter().all(|c| *c != Cell::Null) {
                return ColRep::Dense(cells[..=last].iter().map(|c| if let Cell::Float(b) = c { f64::from_bits(*b) } else { 0.0 }).collect());
            }
            if pref % 3 != 2 {
                return ColRep::Sparse(cells.iter().enumerate().filter_map(|(i, c)| if let Cell::Float(b) = c { Some((i as u64, f64::from_bits(*b))) } else { None }).collect());
            }
        }
        if all_str && !cells.is_empty() && pref % 3 != 2 { return ColRep::Str(cells.iter().map(|c| if let Cell::Str(s) = c { s.clone() } else { String::new() }).collect()); }
        ColRep::Mixed(cells.to_vec())
    }
}

/// Build the binary ingestion message for a request (one or more table shares) through the capnp
/// wire schema, then decode it with the real `EventBuffer::deserialize` (the server-side path).
pub fn wire_bytes(batches: &[Batch]) -> Vec<u8> {
    let mut builder = capnp::message::Builder::new_default();
    {
        let tsl = builder.init_root::<wal_segment_capnp::table_segment_list::Builder>();
        let mut data = tsl.init_data(batches.len() as u32);
        for (i, b) in batches.iter().enumerate() {
            let mut tb = data.reborrow().get(i as u32);
            tb.set_len(b.len);
            tb.set_name(&b.table[..]);
            let mut columns = tb.reborrow().init_columns(b.cols.len() as u32);
            for (j, (name, rep)) in b.cols.iter().enumerate() {
                let mut cb = columns.reborrow().get(j as u32);
                cb.set_name(&name[..]);
                match rep {
                    ColRep::Empty => cb.get_data().set_empty(()),
                    ColRep::Dense(v) => cb.get_data().set_f64(&v[..]).unwrap(),
                    ColRep::I64(v) => cb.get_data().set_i64(&v[..]).unwrap(),
                    ColRep::Str(v) => cb.get_data().set_string(&v[..]).unwrap(),
                    ColRep::Sparse(v) => {
                        let mut sb = cb.get_data().init_sparse_f64();
                        let (idx, vals): (Vec<u64>, Vec<f64>) = v.iter().cloned().unzip();
                        sb.reborrow().set_indices(&idx[..]).unwrap();
                        sb.reborrow().set_values(&vals[..]).unwrap();
                    }
                    ColRep::SparseI64(v) => {
                        let mut sb = cb.get_data().init_sparse_i64();
                        let (idx, vals): (Vec<u64>, Vec<i64>) = v.iter().cloned().unzip();
                        sb.reborrow().set_indices(&idx[..]).unwrap();
                        sb.reborrow().set_values(&vals[..]).unwrap();
                    }
                    ColRep::Mixed(v) => {
                        let mut mb = cb.get_data().init_mixed(v.len() as u32);
                        for (k, c) in v.iter().enumerate() {
                            let mut vb = mb.reborrow().get(k as u32).init_value();
                            match c {
                                Cell::Int(i) => vb.set_i64(*i),
                                Cell::Float(b) => vb.set_f64(f64::from_bits(*b)),
                                Cell::Str(s) => vb.set_string(&s[..]),
                                Cell::Null => vb.set_null(()),
                            }
                        }
                    }
                }
            }
        }
    }
    let mut buf = Vec::new();
    capnp::serialize_packed::write_message(&mut buf, &builder).unwrap();
    buf
}

pub fn event_buffer(batches: &[Batch]) -> EventBuffer {
    EventBuffer::deserialize(&wire_bytes(batches)).expect("wire message decodes")
}

// ---------------------------------------------------------------------------------------------
// Database helpers.
pub fn base_options() -> Options {
    Options {
        threads: 2,
        read_threads: 1,
        metrics_table_name: None,
        metrics_interval: 3600,
        ..Options::default()
    }
}

pub fn disk_options(path: &Path) -> Options {
    Options { db_path: Some(path.to_path_buf()), ..base_options() }
}

/// Drive a future to completion by polling with a no-op waker (NOT futures::executor::block_on:
/// `ingest_efficient` itself calls `futures::executor::block_on` when it has to load column names
/// after a restart, and nested LocalPool executors panic — recorded as a finding under C11).
pub fn poll_to_completion<F: std::future::Future>(fut: F) -> F::Output {
    let mut fut = Box::pin(fut);
    let waker = futures::task::noop_waker();
    let mut cx = std::task::Context::from_waker(&waker);
    loop {
        if let std::task::Poll::Ready(v) = fut.as_mut().poll(&mut cx) { return v; }
        std::thread::sleep(Duration::from_millis(1));
    }
}

pub fn ingest(db: &LocustDB, batches: &[Batch]) {
    poll_to_completion(db.ingest_efficient(event_buffer(batches)));
}

#[derive(Clone, Debug, PartialEq)]
pub enum QOut {
    Ok { colnames: Vec<String>, cols: Vec<(String, Vec<Cell>)>, rows: Option<Vec<Vec<Cell>>> },
    Err(String),
    Panic(String),
    Hang,
}

pub fn err_kind(e: &QueryError) -> &'static str {
    match e {
        QueryError::SytaxErrorCharsRemaining(_) | QueryError::SyntaxErrorBytesRemaining(_) | QueryError::ParseError(_) => "parse",
        QueryError::FatalError(..) => "fatal",
        QueryError::NotImplemented(_) => "notimpl",
        QueryError::TypeError(_) => "type",
        QueryError::Overflow => "overflow",
        QueryError::Canceled { .. } => "canceled",
    }
}

pub fn col_cells(c: &BasicTypeColumn) -> Vec<Cell> {
    match c {
        BasicTypeColumn::Int(v) => v.iter().map(|i| Cell::Int(*i)).collect(),
        BasicTypeColumn::Float(v) => v.iter().map(|f| Cell::Float(f.to_bits())).collect(),
        BasicTypeColumn::String(v) => v.iter().map(|s| Cell::Str(s.clone())).collect(),
        BasicTypeColumn::Null(n) => vec![Cell::Null; *n],
        BasicTypeColumn::Mixed(v) => v.iter().map(Cell::from_value).collect(),
    }
}

pub fn convert_output(o: &QueryOutput) -> QOut {
    QOut::Ok {
        colnames: o.colnames.clone(),
        cols: o.columns.iter().map(|(n, c)| (n.clone(), col_cells(c))).collect(),
        rows: o.rows.as_ref().map(|rs| rs.iter().map(|r| r.iter().map(Cell::from_value).collect()).collect()),
    }
}

pub fn panic_msg(e: Box<dyn std::any::Any + Send>) -> String {
    if let Some(s) = e.downcast_ref::<&str>() { s.to_string() }
    else if let Some(s) = e.downcast_ref::<String>() { s.clone() }
    else { "?".to_string() }
}

/// Run `f` on a helper thread; `None` if it does not finish before the deadline (the thread is leaked).
pub fn with_deadline<T: Send + 'static, F: FnOnce() -> T + Send + 'static>(secs: u64, f: F) -> Option<Result<T, String>> {
    let (tx, rx) = mpsc::channel();
    std::thread::spawn(move || {
        let r = catch_unwind(AssertUnwindSafe(f)).map_err(panic_msg);
        let _ = tx.send(r);
    });
    rx.recv_timeout(Duration::from_secs(secs)).ok()
}

pub fn query_full(db: &Arc<LocustDB>, sql: &str, rowformat: bool, deadline_s: u64) -> QOut {
    let db2 = db.clone();
    let sql2 = sql.to_string();
    match with_deadline(deadline_s, move || futures::executor::block_on(db2.run_query(&sql2, false, rowformat, vec![]))) {
        None => QOut::Hang,
        Some(Err(p)) => QOut::Panic(p),
        Some(Ok(Err(e))) => QOut::Err(err_kind(&e).to_string()),
        Some(Ok(Ok(o))) => convert_output(&o),
    }
}

pub fn query(db: &Arc<LocustDB>, sql: &str) -> QOut { query_full(db, sql, true, 20) }

impl QOut {
    /// Canonical single-token rendering: `rows:<rows>` | `err:<kind>` | `panic` | `hang`.
    pub fn tok(&self) -> String {
        match self {
            QOut::Ok { rows: Some(rows), .. } => format!("rows:{}", rows_tok(rows)),
            QOut::Ok { rows: None, cols, .. } => {
                let n = cols.first().map(|c| c.1.len()).unwrap_or(0);
                let rows: Vec<Vec<Cell>> = (0..n).map(|i| cols.iter().map(|c| c.1.get(i).cloned().unwrap_or(Cell::Null)).collect()).collect();
                format!("rows:{}", rows_tok(&rows))
            }
            QOut::Err(k) => format!("err:{}", k),
            QOut::Panic(_) => "panic".into(),
            QOut::Hang => "hang".into(),
        }
    }
    pub fn rows(&self) -> Option<&Vec<Vec<Cell>>> {
        if let QOut::Ok { rows: Some(r), .. } = self { Some(r) } else { None }
    }
    pub fn detail(&self) -> String {
        match self { QOut::Panic(m) => m.replace(['\t', '\n'], " "), _ => String::new() }
    }
}

// ---------------------------------------------------------------------------------------------
// Case file: id \t class \t model-line \t implementation output [\t note]
pub struct Cases {
    file: std::io::BufWriter<std::fs::File>,
    pub n: usize,
    pub classes: HashMap<String, usize>,
}

impl Cases {
    pub fn create(out_dir: &Path) -> Cases {
        std::fs::create_dir_all(out_dir).unwrap();
        let f = std::fs::File::create(out_dir.join("cases.tsv")).unwrap();
        Cases { file: std::io::BufWriter::new(f), n: 0, classes: HashMap::new() }
    }
    pub fn push(&mut self, class: &str, model_line: &str, impl_out: &str, note: &str) {
        assert!(!model_line.contains(['\t', '\n']) && !impl_out.contains(['\t', '\n']), "tab/newline in case");
        writeln!(self.file, "{}\t{}\t{}\t{}\t{}", self.n, class, model_line, impl_out, note.replace(['\t', '\n'], " ")).unwrap();
        self.n += 1;
        *self.classes.entry(class.to_string()).or_insert(0) += 1;
    }
    pub fn finish(mut self) { self.file.flush().unwrap(); }
}

pub struct Args {
    pub seed: u64,
    pub tier: String,
    pub out: PathBuf,
    pub replay: Option<PathBuf>,
    pub rest: Vec<String>,
}

pub fn parse_args() -> Args {
    let mut a = Args { seed: 1, tier: "quick".into(), out: PathBuf::from("."), replay: None, rest: vec![] };
    let mut it = std::env::args().skip(1);
    while let Some(x) = it.next() {
        match x.as_str() {
            "--seed" => a.seed = it.next().unwrap().parse().unwrap(),
            "--tier" => a.tier = it.next().unwrap(),
            "--out" => a.out = PathBuf::from(it.next().unwrap()),
            "--replay" => a.replay = Some(PathBuf::from(it.next().unwrap())),
            _ => a.rest.push(x),
        }
    }
    a
}

impl Args { pub fn thorough(&self) -> bool { self.tier == "thorough" } }

/// Silence the default panic hook's backtrace spam (panics are captured and classified instead).
pub fn quiet_panics() {
    std::panic::set_hook(Box::new(|_| {}));
}

pub fn fmt_list<T: std::fmt::Display>(xs: &[T]) -> String {
    let mut s = String::new();
    if xs.is_empty() { return "[]".into(); }
    for (i, x) in xs.iter().enumerate() { if i > 0 { s.push(','); } write!(s, "{}", x).unwrap(); }
    s
}

// ---------------------------------------------------------------------------------------------
// Column generators (value classes named by the properties' quantifiers).
pub const INT_CLASSES: &[&str] = &["u8", "u8off", "u16", "u16off", "u32", "u32off", "i64", "i64neg", "mono", "monobig", "edges", "const", "small"];

/// `n` integers of the given magnitude class (never i64::MAX, the reserved NULL marker).
pub fn gen_ints(rng: &mut Rng, n: usize, class: &str) -> Vec<i64> {
    let clamp = |x: i64| if x == i64::MAX { i64::MAX - 1 } else { x };
    let mut v: Vec<i64> = match class {
        "u8" => (0..n).map(|_| rng.range(0, 255)).collect(),
        "u8off" => { let o = rng.range(-1_000_000, 1_000_000) * 1000; (0..n).map(|_| o + rng.range(0, 255)).collect() }
        "u16" => (0..n).map(|_| rng.range(0, 65535)).collect(),
        "u16off" => { let o = -rng.range(1, 1_000_000_000); (0..n).map(|_| o + rng.range(0, 65535)).collect() }
        "u32" => (0..n).map(|_| rng.range(0, u32::MAX as i64)).collect(),
        "u32off" => { let o = i64::MIN + rng.range(0, 1000); (0..n).map(|_| o + rng.range(0, u32::MAX as i64)).collect() }
        "i64" => (0..n).map(|_| clamp(rng.next() as i64)).collect(),
        "i64neg" => (0..n).map(|_| -(rng.range(0, i64::MAX - 1))).collect(),
        "mono" => { let mut x = rng.range(-1000, 1000); (0..n).map(|_| { x += rng.range(0, 300); x }).collect() }
        "monobig" => { let mut x = rng.range(-1 << 40, 1 << 40); (0..n).map(|_| { x = x.saturating_add(rng.range(0, 1 << 33)); clamp(x) }).collect() }
        "edges" => { let e = [0i64, 1, -1, 255, 256, 65535, 65536, u32::MAX as i64, u32::MAX as i64 + 1, i64::MIN, i64::MIN + 1, i64::MAX - 1, i64::MAX - 2, 127, 128, -128, -129, 2, -2, 3];
            (0..n).map(|_| *rng.pick(&e)).collect() }
        "const" => { let c = rng.range(-5, 5); vec![c; n] }
        _ => (0..n).map(|_| rng.range(-9, 9)).collect(),
    };
    // boundary hits
    if class.starts_with("u8") && n >= 2 && rng.chance(1, 2) { let lo = *v.iter().min().unwrap(); v[0] = lo; v[1] = lo.saturating_add(255); }
    if class.starts_with("u16") && n >= 2 && rng.chance(1, 2) { let lo = *v.iter().min().unwrap(); v[0] = lo; v[1] = lo.saturating_add(65535); }
    v
}

/// Null pattern: indices that are NULL.
pub fn gen_null_mask(rng: &mut Rng, n: usize) -> Vec<bool> {
    match rng.below(6) {
        0 | 1 => vec![false; n],
        2 => (0..n).map(|_| rng.chance(1, 2)).collect(),
        3 => (0..n).map(|_| rng.chance(1, 8)).collect(),
        4 => (0..n).map(|i| i + 1 == n || i == 0).collect(),
        _ => (0..n).map(|i| i % 8 == 7 || rng.chance(1, 16)).collect(),
    }
}

pub fn apply_nulls(cells: Vec<Cell>, mask: &[bool]) -> Vec<Cell> {
    cells.into_iter().zip(mask.iter()).map(|(c, m)| if *m { Cell::Null } else { c }).collect()
}

pub const STR_POOL: &[&str] = &["", "a", "b", "ab", "abc", "b0", "zz", "Zebra", "ünï", "日本", "0a1b", "DEADBEEF", "deadbeef00", "x y", "it's", "%", "_"];

pub fn gen_strs(rng: &mut Rng, n: usize, class: &str) -> Vec<String> {
    match class {
        "lowcard" => { let k = 1 + rng.below(4) as usize; let pool: Vec<&str> = (0..k).map(|_| *rng.pick(STR_POOL)).collect(); (0..n).map(|_| rng.pick(&pool).to_string()).collect() }
        "highcard" => (0..n).map(|i| format!("{}{}", rng.pick(STR_POOL), i * 7 % 13)).collect(),
        "hex" => (0..n).map(|_| format!("{:016x}", rng.next())).collect(),
        "HEX" => (0..n).map(|_| format!("{:016X}", rng.next())).collect(),
        "long" => (0..n).map(|_| { let l = *rng.pick(&[0usize, 1, 253, 254, 255, 256, 257, 511]); "q".repeat(l) }).collect(),
        _ => (0..n).map(|_| rng.pick(STR_POOL).to_string()).collect(),
    }
}

pub const FLOAT_EDGES: &[f64] = &[0.0, -0.0, 1.0, -1.0, 0.5, 0.25, 1.5, 2.75, 1e-310, -1e-310, f64::INFINITY, f64::NEG_INFINITY, 3.4028234663852886e38, 0.1, 16777217.0, 1e300, -1e300, f64::MIN_POSITIVE, 123456.789];

pub fn gen_floats(rng: &mut Rng, n: usize, class: &str) -> Vec<f64> {
    match class {
        "dyadic" => (0..n).map(|_| rng.range(-4000, 4000) as f64 * 0.25).collect(),
        "edges" => (0..n).map(|_| *rng.pick(FLOAT_EDGES)).collect(),
        "f32" => (0..n).map(|_| (rng.range(-100000, 100000) as f32 * 0.125) as f64).collect(),
        "nan" => (0..n).map(|_| if rng.chance(1, 3) { f64::from_bits(0x7ff8_0000_0000_0000 | rng.below(1 << 20)) } else { rng.range(-5, 5) as f64 }).collect(),
        _ => (0..n).map(|_| f64::from_bits(rng.next())).filter(|f| f.to_bits() != F64_NULL_BITS).chain(std::iter::repeat(1.0)).take(n).collect(),
    }
}
pub mod qcommon;
