//! Shared by the query-semantics harnesses (c02..c05, c12): logical tables, physical realisations,
//! expression ASTs with SQL and protocol (RPN) printers.
#![allow(dead_code)]
use std::sync::Arc;
use locustdb::{LocustDB, Options};
use crate::*;

#[derive(Clone, Debug, PartialEq)]
pub enum ColType { Id, Int(&'static str), Float(&'static str), Str(&'static str) }

#[derive(Clone, Debug)]
pub struct LTable {
    pub n: usize,
    pub names: Vec<String>,
    pub types: Vec<ColType>,
    pub cols: Vec<Vec<Cell>>,
}

impl LTable {
    pub fn tok(&self) -> String {
        format!("{} {}", self.cols.len(), self.cols.iter().map(|c| cells_tok(c)).collect::<Vec<_>>().join(" "))
    }
    pub fn type_tag(&self) -> String {
        self.types.iter().map(|t| match t { ColType::Id => "id".to_string(), ColType::Int(c) => format!("i:{}", c), ColType::Float(c) => format!("f:{}", c), ColType::Str(c) => format!("s:{}", c) }).collect::<Vec<_>>().join("+")
    }
}

pub const Q_INT_CLASSES: &[&str] = &["u8", "u8off", "u16", "u16off", "u32", "u32off", "i64", "mono", "edges", "const", "small", "small", "small"];
pub const Q_STR_CLASSES: &[&str] = &["lowcard", "lowcard", "pool", "highcard"];
pub const Q_FLOAT_CLASSES: &[&str] = &["dyadic", "dyadic", "edges", "f32"];

/// Column 0 is always `id` = 0..n-1 (unique, never NULL).
pub fn gen_table(rng: &mut Rng, n: usize, extra_cols: usize, allow_float: bool, allow_str: bool) -> LTable {
    let mut names = vec!["id".to_string()];
    let mut types = vec![ColType::Id];
    let mut cols = vec![(0..n as i64).map(Cell::Int).collect::<Vec<_>>()];
    for k in 0..extra_cols {
        let kind = rng.below(if allow_str { 4 } else if allow_float { 3 } else { 2 });
        let (t, cells): (ColType, Vec<Cell>) = match kind {
            0 | 1 => { let c = *rng.pick(Q_INT_CLASSES); (ColType::Int(c), gen_ints(rng, n, c).into_iter().map(Cell::Int).collect()) }
            2 if allow_float => { let c = *rng.pick(Q_FLOAT_CLASSES); (ColType::Float(c), gen_floats(rng, n, c).into_iter().map(Cell::f).collect()) }
            _ if allow_str => { let c = *rng.pick(Q_STR_CLASSES); (ColType::Str(c), gen_strs(rng, n, c).into_iter().map(Cell::Str).collect()) }
            _ => { let c = *rng.pick(Q_INT_CLASSES); (ColType::Int(c), gen_ints(rng, n, c).into_iter().map(Cell::Int).collect()) }
        };
        let mask = gen_null_mask(rng, n);
        names.push(format!("c{}", k + 1));
        types.push(t);
        cols.push(apply_nulls(cells, &mask));
    }
    LTable { n, names, types, cols }
}

#[derive(Clone, Debug)]
pub struct Realisation {
    /// batch boundaries [b0=0, b1, …, bk=n]
    pub bounds: Vec<usize>,
    /// flush after batch i?
    pub flush: Vec<bool>,
    /// columns omitted from batch i when they are entirely NULL there
    pub omit_null_cols: bool,
    pub combine_factor: u64,
    pub mem_lz4: bool,
    pub batch_size: usize,
    pub threads: usize,
    pub pref: u64,
}

impl Realisation {
    pub fn tag(&self) -> String {
        format!("b{:?} f{:?} cf{} lz{} bs{} th{} om{}", self.bounds, self.flush.iter().map(|b| *b as u8).collect::<Vec<_>>(), self.combine_factor, self.mem_lz4 as u8, self.batch_size, self.threads, self.omit_null_cols as u8)
    }
    pub fn partitions(&self) -> usize { 1 + self.flush.iter().filter(|f| **f).count() }
}

pub fn gen_realisation(rng: &mut Rng, n: usize, allow_compaction: bool) -> Realisation {
    let nb = if n == 0 { 1 } else { 1 + rng.below(4.min(n as u64)) as usize };
    let mut cuts: Vec<usize> = (0..nb - 1).map(|_| rng.below(n as u64 + 1) as usize).collect();
    cuts.sort();
    let mut bounds = vec![0];
    bounds.extend(cuts);
    bounds.push(n);
    let flush = (0..nb).map(|_| rng.chance(1, 2)).collect();
    Realisation {
        bounds, flush,
        omit_null_cols: rng.chance(1, 2),
        combine_factor: if allow_compaction { *rng.pick(&[0u64, 1, 4, 999, 999]) } else { 999 },
        mem_lz4: rng.chance(1, 2),
        batch_size: *rng.pick(&[8usize, 16, 64, 1024]),
        threads: *rng.pick(&[1usize, 2, 8]),
        pref: rng.next(),
    }
}

pub fn options_for(r: &Realisation) -> Options {
    Options { threads: r.threads, partition_combine_factor: r.combine_factor, mem_lz4: r.mem_lz4, batch_size: r.batch_size, ..base_options() }
}

/// Build a memory-only database holding `t` as table "t" in the given physical layout.
pub fn realise(t: &LTable, r: &Realisation) -> Arc<LocustDB> {
    let db = Arc::new(LocustDB::new(&options_for(r)));
    realise_into(&db, t, r);
    db
}

pub fn realise_into(db: &Arc<LocustDB>, t: &LTable, r: &Realisation) {
    let mut pref = r.pref;
    for b in 0..r.bounds.len() - 1 {
        let (s, e) = (r.bounds[b], r.bounds[b + 1]);
        if e > s {
            let mut cols = vec![];
            for (i, c) in t.cols.iter().enumerate() {
                let slice = &c[s..e];
                pref = pref.wrapping_mul(6364136223846793005).wrapping_add(1442695040888963407);
                if r.omit_null_cols && i > 0 && slice.iter().all(|x| *x == Cell::Null) { continue; }
                cols.push((t.names[i].clone(), ColRep::from_cells(slice, pref >> 33)));
            }
            ingest(db, &[Batch { table: "t".into(), len: (e - s) as u64, cols }]);
        }
        if r.flush[b] {
            let db2 = db.clone();
            if with_deadline(30, move || db2.force_flush()).is_none() { eprintln!("flush hang"); }
        }
    }
}

// ---------------------------------------------------------------------------------------------
#[derive(Clone, Debug)]
pub enum Ex {
    Col(usize),
    Lit(Cell),
    Cmp(&'static str, Box<Ex>, Box<Ex>),
    And(Box<Ex>, Box<Ex>),
    Or(Box<Ex>, Box<Ex>),
    Not(Box<Ex>),
    IsNull(Box<Ex>),
    NotNull(Box<Ex>),
    Arith(char, Box<Ex>, Box<Ex>),
}

pub fn lit_sql(c: &Cell) -> String {
    match c {
        Cell::Int(i) if *i < 0 => format!("({})", i),
        Cell::Float(b) => { let f = f64::from_bits(*b); if f < 0.0 || (f == 0.0 && f.is_sign_negative()) { format!("({:?})", f) } else { format!("{:?}", f) } }
        other => other.sql(),
    }
}

impl Ex {
    pub fn sql(&self, names: &[String]) -> String {
        match self {
            Ex::Col(i) => names[*i].clone(),
            Ex::Lit(c) => lit_sql(c),
            Ex::Cmp(op, l, r) => format!("({} {} {})", l.sql(names), op, r.sql(names)),
            Ex::And(l, r) => format!("({} AND {})", l.sql(names), r.sql(names)),
            Ex::Or(l, r) => format!("({} OR {})", l.sql(names), r.sql(names)),
            Ex::Not(e) => format!("(NOT {})", e.sql(names)),
            Ex::IsNull(e) => format!("({} IS NULL)", e.sql(names)),
            Ex::NotNull(e) => format!("({} IS NOT NULL)", e.sql(names)),
            Ex::Arith(op, l, r) => format!("({} {} {})", l.sql(names), op, r.sql(names)),
        }
    }
    fn rpn_into(&self, out: &mut Vec<String>) {
        match self {
            Ex::Col(i) => out.push(format!("c{}", i)),
            Ex::Lit(Cell::Null) => out.push("kn".into()),
            Ex::Lit(c) => out.push(format!("k{}", c.tok())),
            Ex::Cmp(op, l, r) => { l.rpn_into(out); r.rpn_into(out); out.push(op.to_string()); }
            Ex::And(l, r) => { l.rpn_into(out); r.rpn_into(out); out.push("and".into()); }
            Ex::Or(l, r) => { l.rpn_into(out); r.rpn_into(out); out.push("or".into()); }
            Ex::Not(e) => { e.rpn_into(out); out.push("not".into()); }
            Ex::IsNull(e) => { e.rpn_into(out); out.push("isnull".into()); }
            Ex::NotNull(e) => { e.rpn_into(out); out.push("notnull".into()); }
            Ex::Arith(op, l, r) => { l.rpn_into(out); r.rpn_into(out); out.push(op.to_string()); }
        }
    }
    pub fn rpn(&self) -> String { let mut v = vec![]; self.rpn_into(&mut v); v.join(",") }
    pub fn shape(&self) -> String {
        match self {
            Ex::Col(_) => "c".into(), Ex::Lit(_) => "k".into(),
            Ex::Cmp(op, l, r) => format!("({}{}{})", l.shape(), op, r.shape()),
            Ex::And(l, r) => format!("({}&{})", l.shape(), r.shape()),
            Ex::Or(l, r) => format!("({}|{})", l.shape(), r.shape()),
            Ex::Not(e) => format!("!{}", e.shape()),
            Ex::IsNull(e) => format!("{}?", e.shape()), Ex::NotNull(e) => format!("{}!?", e.shape()),
            Ex::Arith(op, l, r) => format!("({}{}{})", l.shape(), op, r.shape()),
        }
    }
}

pub const CMP_OPS: &[&str] = &["=", "<>", "<", "<=", ">", ">="];

/// A constant positioned relative to the column's content: member, min/max ± {0,1}, type bounds, absent values.
pub fn gen_const_for(rng: &mut Rng, t: &LTable, col: usize) -> (Cell, &'static str) {
    let vals: Vec<&Cell> = t.cols[col].iter().filter(|c| **c != Cell::Null).collect();
    match &t.types[col] {
        ColType::Id | ColType::Int(_) => {
            let ints: Vec<i64> = vals.iter().map(|c| if let Cell::Int(i) = c { *i } else { 0 }).collect();
            let (lo, hi) = (ints.iter().min().copied().unwrap_or(0), ints.iter().max().copied().unwrap_or(0));
            match rng.below(9) {
                0 => (Cell::Int(if ints.is_empty() { 0 } else { *rng.pick(&ints) }), "member"),
                1 => (Cell::Int(lo), "min"),
                2 => (Cell::Int(hi), "max"),
                3 => (Cell::Int(lo.saturating_sub(1)), "min-1"),
                4 => (Cell::Int(if hi >= i64::MAX - 1 { hi } else { hi + 1 }), "max+1"),
                5 => (Cell::Int(*rng.pick(&[0i64, -1, 255, 256, 65535, 65536, 4294967295, 4294967296])), "typebound"),
                6 => (Cell::Int(*rng.pick(&[i64::MAX - 1, -i64::MAX, i64::MAX - 2, 1 << 62, -(1 << 62)])), "extreme"),
                7 => (Cell::Int(lo / 2 + hi / 2), "mid"),
                _ => (Cell::Int(rng.range(-300, 300)), "small"),
            }
        }
        ColType::Float(_) => {
            let fl: Vec<f64> = vals.iter().map(|c| if let Cell::Float(b) = c { f64::from_bits(*b) } else { 0.0 }).collect();
            match rng.below(4) {
                0 if !fl.is_empty() => (Cell::f(*rng.pick(&fl)), "member"),
                1 => (Cell::f(rng.range(-4000, 4000) as f64 * 0.25), "dyadic"),
                2 => (Cell::f(*rng.pick(&[0.0, 1.0, -1.0, 0.5, 1e300, -1e300, 1e-300])), "edge"),
                _ => (Cell::Int(rng.range(-1000, 1000)), "intconst"),
            }
        }
        ColType::Str(_) => {
            let ss: Vec<String> = vals.iter().map(|c| if let Cell::Str(s) = c { s.clone() } else { String::new() }).collect();
            let mut sorted = ss.clone(); sorted.sort(); sorted.dedup();
            match rng.below(6) {
                0 | 1 if !ss.is_empty() => (Cell::Str(rng.pick(&ss).clone()), "member"),
                2 => (Cell::Str(String::new()), "before-first"),
                3 => (Cell::Str("\u{10FFFF}".to_string()), "after-last"),
                4 if !sorted.is_empty() => { let s = rng.pick(&sorted).clone(); (Cell::Str(format!("{}0", s)), "between") }
                _ => (Cell::Str(rng.pick(STR_POOL).to_string()), "pool"),
            }
        }
    }
}

/// An atomic predicate over the table.
pub fn gen_atom(rng: &mut Rng, t: &LTable) -> (Ex, String) {
    let ncols = t.cols.len();
    let col = rng.below(ncols as u64) as usize;
    match rng.below(12) {
        0 => (Ex::IsNull(Box::new(Ex::Col(col))), "isnull".into()),
        1 => (Ex::NotNull(Box::new(Ex::Col(col))), "notnull".into()),
        2 | 3 => {
            // column vs column of a compatible type
            let cands: Vec<usize> = (0..ncols).filter(|j| match (&t.types[col], &t.types[*j]) {
                (ColType::Str(_), ColType::Str(_)) => true,
                (ColType::Float(_), ColType::Float(_)) => true,
                (ColType::Id | ColType::Int(_), ColType::Id | ColType::Int(_)) => true,
                _ => false }).collect();
            let other = *rng.pick(&cands);
            let op = *rng.pick(CMP_OPS);
            (Ex::Cmp(op, Box::new(Ex::Col(col)), Box::new(Ex::Col(other))), format!("colcol{}", op))
        }
        _ => {
            let (k, pos) = gen_const_for(rng, t, col);
            let op = *rng.pick(CMP_OPS);
            let tname = match &t.types[col] { ColType::Id => "id".to_string(), ColType::Int(c) => format!("i:{}", c), ColType::Float(c) => format!("f:{}", c), ColType::Str(c) => format!("s:{}", c) };
            if rng.chance(1, 5) {
                let flipped = match op { "<" => ">", "<=" => ">=", ">" => "<", ">=" => "<=", o => o };
                (Ex::Cmp(flipped, Box::new(Ex::Lit(k)), Box::new(Ex::Col(col))), format!("{}{}{}~", tname, op, pos))
            } else {
                (Ex::Cmp(op, Box::new(Ex::Col(col)), Box::new(Ex::Lit(k))), format!("{}{}{}", tname, op, pos))
            }
        }
    }
}

pub fn gen_pred(rng: &mut Rng, t: &LTable, depth: u32, allow_not: bool) -> (Ex, String) {
    if depth == 0 || rng.chance(2, 5) { return gen_atom(rng, t); }
    match rng.below(if allow_not { 5 } else { 4 }) {
        0 | 1 => { let (a, ca) = gen_pred(rng, t, depth - 1, allow_not); let (b, cb) = gen_pred(rng, t, depth - 1, allow_not); (Ex::And(Box::new(a), Box::new(b)), format!("and({},{})", ca, cb)) }
        2 | 3 => { let (a, ca) = gen_pred(rng, t, depth - 1, allow_not); let (b, cb) = gen_pred(rng, t, depth - 1, allow_not); (Ex::Or(Box::new(a), Box::new(b)), format!("or({},{})", ca, cb)) }
        _ => { let (a, ca) = gen_pred(rng, t, depth - 1, allow_not); (Ex::Not(Box::new(a)), format!("not({})", ca)) }
    }
}

/// First column of every result row as ints (the `id` column), canonical token.
pub fn ids_tok(out: &QOut) -> String {
    match out {
        QOut::Ok { rows: Some(rows), .. } => format!("rows:{}", toks(rows, |r| match r.first() { Some(Cell::Int(i)) => i.to_string(), Some(Cell::Null) => "_".into(), o => format!("?{:?}", o) })),
        other => other.tok(),
    }
}
